"""Frame conditions per property: every property is stated about VALUES returned by calls, so it presupposes that the
classes it runs through do not change observable state behind the caller's back (an answer may not depend on which
calls came before).  The static frame back end (pyvc/static.py: only declared memo slots, written only by their owning
accessor, or objects allocated in the call may be written; operands and their containers are never mutated) is run on
the classes each property depends on, so a cache or an aliasing slip in one of them fails that property's check, not
only C10's."""
from pyvc.spec import *  # noqa

L = "location.location_impl."
AI, AFI, AFIC = "gene.interval.AbstractInterval", "gene.interval.AbstractFeatureInterval", \
    "gene.interval.AbstractFeatureIntervalCollection"
GROUPS = {
    ("C01", "C02"): [L + "SingleInterval", L + "CompoundInterval", L + "_EmptyLocation", "location.location.Location"],
    ("C03",): ["sequence.sequence.Sequence", L + "SingleInterval", L + "CompoundInterval"],
    ("C04",): ["parent.parent.Parent", "sequence.sequence.Sequence", AI],
    ("C05", "C07"): ["gene.cds.CDSInterval", AFI, AI],
    ("C06",): ["gene.transcript.TranscriptInterval", AFI, AI],
    ("C08",): ["gene.transcript.TranscriptInterval", "gene.cds.CDSInterval", "gene.feature.FeatureInterval",
               "gene.gene.GeneInterval", "gene.feature.FeatureIntervalCollection", "gene.variants.VariantInterval",
               "gene.variants.VariantIntervalCollection", "gene.collections.AnnotationCollection", AI, AFI],
    ("C09",): ["gene.collections.AnnotationCollection", AFIC, AI],
    ("C11",): ["io.gff3.rows.GFFAttributes", "io.gff3.rows.GFFRow", AFI,
               "gene.gene.GeneInterval", "gene.transcript.TranscriptInterval", "gene.cds.CDSInterval",
               "gene.feature.FeatureInterval", "gene.feature.FeatureIntervalCollection"],
    ("C13",): ["gene.variants.VariantInterval", "gene.variants.VariantIntervalCollection"],
    ("C14",): ["gene.feature.FeatureInterval", "gene.transcript.TranscriptInterval", "gene.cds.CDSInterval", AFI, AI,
               "io.bed.bed.BED12"],
    ("C16",): ["gene.collections.AnnotationCollection", "gene.gene.GeneInterval", "gene.feature.FeatureIntervalCollection"],
    ("C18",): [AFI],
    ("C19",): [L + "SingleInterval", L + "CompoundInterval", "parent.parent.Parent", "sequence.sequence.Sequence"],
    ("C20",): ["gene.gene.GeneInterval", "gene.feature.FeatureIntervalCollection", AFIC,
               "gene.collections.AnnotationCollection"],
}


def _mk(props, classes):
    class Frame(Case):
        pass
    c = Frame()
    c.props = props
    c.name = "frame conditions (no hidden state) on the classes this property runs through: " + ", ".join(
        x.split(".")[-1] for x in classes)
    c.func = classes[0] + ".__init__"
    c.static = dict(classes=classes, kinds=("frame", "identity", "kind"), accepted={})
    return c


CASES = [_mk(p, cl) for p, cl in GROUPS.items()]
