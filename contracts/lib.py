"""Summaries (callee contracts / trusted stubs) and loop invariants shared by the contract modules."""
from pyvc.values import Obj, FuncVal, PyExc, Unsupported


_uid = [0]


def codon_new(interp, cls, args, kwargs):
    """Codon.__new__: singleton per upper-cased string (the real __new__ does exactly this with a class dict);
    __init__ then runs on the instance, as CPython does after __new__."""
    s = interp.to_str(args[0])
    if not isinstance(s, str):
        raise Unsupported("Codon of a symbolic string")
    clean = s.upper()
    d = interp.__dict__.setdefault("_codon_singletons", {})
    if clean not in d:
        d[clean] = Obj(cls)
    o = d[clean]
    init = cls.find_method(interp.repo, "__init__")
    interp.call_function(FuncVal(init, self_val=o), list(args), kwargs)
    return o


def make_parent(interp, args, kwargs):
    """inscripta.biocantor.parent.make_parent is a functools.singledispatch function; the registered implementations
    (parent/__init__.py, sequence/__init__.py, location/__init__.py) are: str -> Parent(id=obj); Parent -> obj;
    Sequence -> Parent(sequence=obj); Location -> Parent(location=obj); Strand -> Parent(strand=obj); else TypeError.
    The dispatch table is re-read from the AST on every run (check_make_parent_table) and must equal this list."""
    from pyvc.values import EnumVal, Opaque
    obj = interp.resolve(args[0])
    repo = interp.repo
    P = repo.find("parent.parent.Parent")
    if isinstance(obj, str):
        return interp.instantiate(P, [], {"id": obj})
    if isinstance(obj, Obj):
        names = [c.name for c in obj.cls.mro(repo)]
        if "Parent" in names:
            return obj
        if "Sequence" in names:
            return interp.instantiate(P, [], {"sequence": obj})
        if "Location" in names:
            return interp.instantiate(P, [], {"location": obj})
    if isinstance(obj, EnumVal) and obj.cls.name == "Strand":
        return interp.instantiate(P, [], {"strand": obj})
    raise PyExc("TypeError", "make_parent: unsupported type")


def bio_seq(interp, args, kwargs):
    """Bio.Seq.Seq(data): stores its argument; str() of it gives the data back (assumed contract)."""
    return args[0]


def empty_location(interp, args, kwargs):
    """EmptyLocation(): the module-level singleton accessor (it caches the instance in a class attribute)."""
    d = interp.__dict__
    if "_empty_location" not in d:
        d["_empty_location"] = Obj(interp.repo.find("location.location_impl._EmptyLocation"))
    return d["_empty_location"]


def validate_alphabet(interp, args, kwargs):
    """Sequence.validate_alphabet(sequence, alphabet): raises AlphabetError iff some character (upper-cased) is not in
    alphabet.value.  Symbolic strings carry the set of characters they may contain (declared by the input builder);
    concrete strings run the real body."""
    from pyvc.values import SymStr, FuncVal
    seq, alphabet = args[-2], args[-1]
    if isinstance(seq, SymStr):
        allowed = getattr(seq, "alphabet", None)
        if allowed is None:
            raise Unsupported("validate_alphabet on a symbolic string of unknown content")
        a = interp.enum_concretize(alphabet)
        if all(ch.upper() in a.value for ch in allowed):
            return None
        raise Unsupported("validate_alphabet: symbolic string may leave the alphabet")
    f = interp.repo.find("sequence.sequence.Sequence.validate_alphabet")
    saved = interp.summaries.pop("sequence.sequence.Sequence.validate_alphabet")
    try:
        return interp.call_function(FuncVal(f), list(args), kwargs)
    finally:
        interp.summaries["sequence.sequence.Sequence.validate_alphabet"] = saved


def bins_summary(interp, args, kwargs):
    """Contract of util.bins.bins (proved for the real body by the C16 cases): one=True -> the UCSC bin formula."""
    from .c16_bins import spec_bin, out_of_range, LEVEL_OFFSETS, WIDTHS
    from pyvc.symex_eval import MSet
    from pyvc.spec import Div
    start, stop = args[0], args[1]
    fmt = kwargs.get("fmt", args[2] if len(args) > 2 else "gff")
    one = kwargs.get("one", args[3] if len(args) > 3 else True)
    if not isinstance(fmt, str) or not isinstance(one, bool):
        raise Unsupported("bins summary: symbolic fmt/one")
    off = {"bed": 0, "gff": 1}[fmt]
    if isinstance(start, int) and isinstance(stop, int):
        f = interp.repo.find("util.bins.bins")
        saved = interp.summaries.pop("util.bins.bins")
        try:
            return interp.call_function(FuncVal(f), list(args), kwargs)
        finally:
            interp.summaries["util.bins.bins"] = saved
    if one:
        return spec_bin(start, stop, off)
    # one=False: {1} united with, per level, the bins from the start's to the stop's (contract proved by the C16
    # cases: the branch structure below is the code's, after the two repairs)
    from pyvc.spec import Or
    MAXC = 2 ** 29
    if interp.branch(start >= MAXC):
        return MSet([1])
    if interp.branch(stop >= MAXC):
        stop = MAXC - 1
    if interp.branch(Or(start < off, stop < 0)):
        return MSet([1])
    out = MSet([1])
    a = start - off
    for k in range(5):
        lo = LEVEL_OFFSETS[k] + Div(a, WIDTHS[k])
        hi = LEVEL_OFFSETS[k] + Div(stop, WIDTHS[k]) + 1
        out.ranges.append((lo, hi))
    return out


def digest_summary(interp, args, kwargs):
    """digest_object(*args): md5 over the string forms; modelled as an uninterpreted value carrying its arguments
    (only 'equal arguments => equal digest' is ever used)."""
    from pyvc.values import Opaque
    return Opaque("UUID", attrs={"$digest_args": (tuple(args), tuple(sorted(kwargs.items())))})


HOS = "location.location_impl.SingleInterval._has_overlap_single_interval"


def has_overlap_single_summary(interp, args, kwargs):
    """Contract of SingleInterval._has_overlap_single_interval(other: SingleInterval), proved for the real body by
    c02_single.OverlapCore: the result is the truth value of  max(s, os) < min(e, oe)  (which implies that both
    intervals are non-empty).  Used (opt-in, per case) so that the four-way comparison cascade of the body does not
    fork the caller's path: one symbolic boolean instead of up to five paths with the same value.
    Anything but two SingleIntervals runs the real body."""
    import z3
    from pyvc.symex_eval import sym_min, sym_max
    selfv, other = args[0], args[1]
    if (len(args) != 2 or kwargs or not isinstance(other, Obj) or other.cls.name != "SingleInterval"
            or not isinstance(selfv, Obj) or selfv.cls.name != "SingleInterval"):
        f = interp.repo.find(HOS)
        saved = interp.summaries.pop(HOS)
        try:
            return interp.call_function(FuncVal(f), list(args), kwargs)
        finally:
            interp.summaries[HOS] = saved
    s, e, os_, oe = selfv.attrs["start"], selfv.attrs["end"], other.attrs["start"], other.attrs["end"]
    r = sym_max(s, os_) < sym_min(e, oe)
    if isinstance(r, bool):
        return r
    r = z3.simplify(r)
    if z3.is_true(r):
        return True
    if z3.is_false(r):
        return False
    return r


def random_uppercase_summary(interp, args, kwargs):
    """io/ncbi/tbl_writer.py:random_uppercase_str(size): random.choice over A-Z; modelled as SOME upper-case string of
    that length (the fixed text 'X' * size: no contract clause looks at the random part of protein / transcript ids)."""
    size = kwargs.get("size", args[0] if args else 10)
    return "X" * int(size)


SUMMARIES = {
    "io.ncbi.tbl_writer.random_uppercase_str": random_uppercase_summary,
    HOS: has_overlap_single_summary,
    "util.bins.bins": bins_summary,
    "util.hashing.digest_object": digest_summary,
    "sequence.sequence.Sequence.validate_alphabet": validate_alphabet,
    "location.location_impl.EmptyLocation": empty_location,
    "parent.make_parent": make_parent,
}
LOOPS = {}
# ---- regular expressions: the real ``re`` module is used on CONCRETE strings (trusted library) -------------------
import re as _re
import string as _string


class _Pat:
    def __init__(self, pattern, flags):
        self.pattern, self.flags = pattern, flags
        self.rx = _re.compile(pattern, flags)


def _re_compile(interp, args, kwargs):
    from pyvc.values import Opaque
    pat = args[0]
    flags = args[1] if len(args) > 1 else kwargs.get("flags", 0)
    if not isinstance(pat, str) or not isinstance(flags, int):
        raise Unsupported("re.compile on symbolic arguments")
    interp.trusted_used.add("re (python regular expressions on concrete strings)")
    return Opaque("re.Pattern", attrs={"$pat": _Pat(pat, int(flags)), "pattern": pat})


def _re_apply(kind):
    def f(interp, args, kwargs):
        pat, s = args[0], interp.resolve(args[1])
        if not isinstance(s, str):
            raise Unsupported(f"re.{kind} on a symbolic string")
        rx = pat.attrs["$pat"].rx if hasattr(pat, "attrs") else _re.compile(pat, *(args[2:3]))
        m = getattr(rx, kind)(s)
        interp.trusted_used.add("re (python regular expressions on concrete strings)")
        if m is None:
            return None
        return _match_value(m)
    return f


def _match_value(m):
    """a concrete re.Match as a verifier value: group / start / end / span and the searched string"""
    from pyvc.values import Opaque
    return Opaque("re.Match", attrs={"$m": m, "string": m.string, "pos": m.pos, "endpos": m.endpos},
                  methods={"group": lambda interp2, *a: m.group(*a), "start": lambda interp2, *a: m.start(*a),
                           "end": lambda interp2, *a: m.end(*a), "span": lambda interp2, *a: m.span(*a),
                           "groups": lambda interp2, *a: m.groups(*a)})


def _re_escape(interp, args, kwargs):
    """re.escape on a concrete string (the standard library's own function; module constants are built with it)"""
    if not isinstance(args[0], str):
        raise Unsupported("re.escape on a symbolic string")
    return _re.escape(args[0])


def _re_sub(interp, args, kwargs):
    from pyvc.values import Opaque
    pat, repl, s = args[0], args[1], interp.resolve(args[2])
    if not isinstance(s, str):
        raise Unsupported("re.sub on a symbolic string")
    rx = pat.attrs["$pat"].rx if hasattr(pat, "attrs") else _re.compile(pat)
    interp.trusted_used.add("re (python regular expressions on concrete strings)")
    if isinstance(repl, str):
        return rx.sub(repl, s)

    def _call(m):
        mo = _match_value(m)
        out = interp.call(repl, [mo], {})
        if not isinstance(out, str):
            raise PyExc("TypeError", "expected str instance from the replacement function")
        return out

    return rx.sub(_call, s)


class DDict(dict):
    """collections.defaultdict with an interpreter-level factory."""
    factory = None


def _defaultdict(interp, args, kwargs):
    d = DDict()
    d.factory = args[0] if args else None
    return d


def _marshmallow_schema(interp, args, kwargs):
    """marshmallow_dataclass: ``Model.Schema().load(d)`` builds the model from the dictionary d.  Trusted library
    model: the loaded model is recorded as the dictionary passed in (field validation / coercion by marshmallow is
    third-party behaviour and not modelled)."""
    from pyvc.values import Opaque
    interp.trusted_used.add("marshmallow Model.Schema().load(d): records d")
    return Opaque("schema", methods={"load": lambda interp2, d: Opaque("model", attrs={"$data": d})})


def _max_symbolic(interp, seq, kw):
    """max(xs) over a sequence of symbolic length (trusted builtin contract): an upper bound of every element that is
    attained by some element; ValueError on an empty sequence."""
    import z3
    from pyvc.values import PyExc
    n = seq.length
    if interp.branch(n == 0):
        if "default" in kw:
            return kw["default"]
        raise PyExc("ValueError", "max() arg is an empty sequence")
    _uid[0] += 1
    m, w, j = z3.Int(f"max!{_uid[0]}"), z3.Int(f"maxw!{_uid[0]}"), z3.Int(f"maxj!{_uid[0]}")
    interp.assume(z3.ForAll([j], z3.Implies(z3.And(0 <= j, j < n), seq.get(j) <= m), patterns=[seq.get(j)]))
    interp.assume(z3.And(0 <= w, w < n, seq.get(w) == m))
    interp.ghost["max/witness"] = w
    interp.trusted_used.add("max over a symbolic-length sequence (upper bound that is attained)")
    return m


def _random_seed(interp, args, kwargs):
    """random.seed(n): no effect in the verifier - the only consumer of randomness under contract,
    tbl_writer.random_uppercase_str, is replaced by its stub (see random_uppercase_summary)."""
    return None


EXTERNALS = {"random.seed": _random_seed, "builtins.max.symbolic": _max_symbolic, "marshmallow.Schema": _marshmallow_schema, "Bio.Seq.Seq": bio_seq, "re.compile": _re_compile, "re.match": _re_apply("match"),
             "re.search": _re_apply("search"), "re.sub": _re_sub, "re.escape": _re_escape, "re.fullmatch": _re_apply("fullmatch"),
             "collections.defaultdict": _defaultdict}
EXTERNAL_CONSTS = {"string.punctuation": _string.punctuation, "re.IGNORECASE": int(_re.IGNORECASE),
                   "re.I": int(_re.IGNORECASE)}
DEFAULT = [HOS, "io.ncbi.tbl_writer.random_uppercase_str", "util.bins.bins", "util.hashing.digest_object", "sequence.sequence.Sequence.validate_alphabet", "parent.make_parent", "location.location_impl.EmptyLocation"]
LIB = {"default": DEFAULT, "summaries": SUMMARIES, "loops": LOOPS, "attr_hooks": {}, "externals": EXTERNALS,
       "external_consts": EXTERNAL_CONSTS}
