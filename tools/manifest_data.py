PENDING = "check not built yet (work in progress)"
CLAIMS = {
 "C16": dict(
  text="Proof, for all integer coordinates: the real body of util/bins.py:bins is symbolically executed (the constant OFFSETS loop completely) and z3 discharges, per path, that the assigned bin equals the UCSC formula, contains the interval, is the smallest such level, is 1 out of range, is an int; and that for every contained/overlapping (interval, query) pair the query's bin set contains the interval's assigned bin (both conventions). Canary mutants and a CPython cross-check guard the engine on every run.",
  note="Trusted: pyvc executor semantics (A1-A6), z3, Python ints as SMT Int. `stop` is treated as inclusive in both conventions (as the module documents). Stored bins on intervals are covered by constructor contracts where listed in the evidence.",
  technique="contract-based deductive verification (AST->VC symbolic execution + z3), native replay"),
}
CLAIMS["C15"] = dict(
  text="Proof by complete decision of finite domains plus symbolic proof of the enum algebras: the real Codon/Alphabet/constants code is executed by the verifier's interpreter on all 16^3 IUPAC triplets, all alphabets and letters, all strand triples, and every clause is a ground obligation against the NCBI/IUPAC specification embedded in the contract file; CDSFrame.shift, from_int and Strand.from_int are proved for ALL integers by z3. Every ground case is also re-run under CPython and compared (exhaustive cross-check).",
  note="Trusted: pyvc executor semantics, the embedded NCBI table-1/11 strings and IUPAC tables (specification), Codon.__new__ singleton summary (contracts/lib.py). Biotype is read as the literal [name, value] list passed to the functional Enum API.",
  technique="contract-based verification: exhaustive ground obligations over finite domains + z3 for integer-quantified enum laws")
NOT_APPLICABLE = {f"C{i:02d}": PENDING for i in range(1, 21)}
NOT_APPLICABLE["C12"] = ("statement is about Biopython-serialised GenBank text, an independent reader and io/genbank/parser.py, "
                         "which cannot be imported here; no contract on BioCantor functions within reach expresses it (DESIGN 5/C12, 8)")
