"""C20 — gene / feature-collection aggregates are the stated functions of their children (real constructors, k = 2..3
single-exon children with symbolic coordinates, CDS lengths and primary flags)."""
from pyvc.spec import *  # noqa
from pyvc.sources import NS
from .common import *  # noqa
from .gene_common import *  # noqa
from .c02_single import covers_pos
from .lib import LIB  # noqa

GENE = "gene.gene.GeneInterval"
FCOL = "gene.feature.FeatureIntervalCollection"
AFIC = "gene.interval.AbstractFeatureIntervalCollection"


def children(S, pattern, kind="tx", chunk=False):
    """k single-exon children; pattern[j] = True: coding transcript (CDS = [s_j, c_j)), False: non-coding.
    chunk=True: every child is built on a sequence-chunk parent (any window, also one that truncates or misses the
    child) - the aggregates are functions of the CHROMOSOME coordinates and must not depend on the window."""
    out, info = [], []
    strand = strand_of(S, "strand")
    extra = {}
    if chunk:
        from .c04_liftover import chunk_parent
        cp, cs, ce = chunk_parent(S)
        S.assume(cs < ce)
        extra = dict(parent_or_seq_chunk_parent=cp)
        S._last_chunk = (cp, cs, ce)
    zero = S.enum_const(FRAME, "ZERO")
    for j, coding in enumerate(pattern):
        s, e = S.int(f"s{j}"), S.int(f"e{j}")
        S.assume(And(0 <= s, s < e))
        flag = S.bool(f"primary{j}")
        if kind == "tx":
            kw = dict(is_primary_tx=flag, transcript_id=f"tx{j}")
            cds_len = 0
            if coding:
                c = S.int(f"c{j}")
                S.assume(And(s < c, c <= e))
                kw.update(cds_starts=[s], cds_ends=[c], cds_frames=[zero])
                cds_len = c - s
            obj = S.new(TRANSCRIPT, [s], [e], strand, **kw, **extra)
        else:
            obj = S.new(FEATURE, [s], [e], strand, is_primary_feature=flag, feature_id=f"f{j}",
                        feature_types=[f"type{j}", "shared"], **extra)
            cds_len = 0
        out.append(obj)
        info.append(NS(s=s, e=e, flag=flag, cds=cds_len, length=e - s, coding=coding))
    return out, info, strand


def sample_children(rng, pattern):
    d = dict(strand=rng.choice(["PLUS", "MINUS"]))
    for j, coding in enumerate(pattern):
        s = rng.randint(0, 6)
        e = s + rng.choice([1, 2, 3, 3, 5])
        d[f"s{j}"], d[f"e{j}"] = s, e
        d[f"primary{j}"] = rng.random() < 0.25
        if coding:
            d[f"c{j}"] = rng.randint(s + 1, e)
    return d


def better(a, ja, b, jb):
    """child a (index ja) sorts before child b by (-cds_size, -len, index)."""
    return Or(a.cds > b.cds, And(a.cds == b.cds, Or(a.length > b.length, And(a.length == b.length, ja < jb))))


def expected_primary(info):
    """index of the primary child: the unique flagged one, else the argmin of (-cds, -len, index)."""
    k = len(info)
    flagged = [i.flag for i in info]
    idx_flag = k - 1
    for j in range(k - 2, -1, -1):
        idx_flag = If(flagged[j], j, idx_flag)
    best = k - 1
    for j in range(k - 2, -1, -1):
        # j beats every later candidate that is currently best
        cond = And(*[better(info[j], j, info[t], t) for t in range(j + 1, k)])
        best = If(cond, j, best)
    # 'best' built right-to-left: j wins if it beats all later ones; otherwise the best among later ones
    return If(Or(*flagged), idx_flag, best)


def count_true(bs):
    return sum((If(b, 1, 0) for b in bs), 0)


class FindPrimary(Case):
    props = ("C20", "C19")
    func = AFIC + "._find_primary_feature"

    def __init__(self, pattern, kind="tx", chunk=False):
        self.pattern, self.kind, self.chunk = pattern, kind, chunk
        tag = "".join("c" if p else "n" for p in pattern) if kind == "tx" else "f" * len(pattern)
        self.name = f"_find_primary_feature[{tag}]" + ("[sequence-chunk parent]" if chunk else "")
        if chunk:
            self.tier = "thorough"
        self.call = "AbstractFeatureIntervalCollection._find_primary_feature(kids)"
        self.module = "gene.interval"
        self.raises = {"ValidationException": lambda i: count_true([c.flag for c in i.info]) >= 2}
        self.ensures = {
            "flagged-else-longest-cds-then-longest-then-first": lambda i, r: And(*[
                Implies(expected_primary(i.info) == j, r is i.kids[j]) for j in range(len(i.kids))]),
            "is-a-child": lambda i, r: any(r is c for c in i.kids),
        }

    def inputs(self, S):
        kids, info, strand = children(S, self.pattern, self.kind, self.chunk)
        return NS(kids=kids, info=info)

    def samples(self, rng):
        d = sample_children(rng, self.pattern)
        if self.chunk:
            from .c04_liftover import sample_chunk
            d.update(sample_chunk(rng, hi=6))
            if d["chunk_end"] == d["chunk_start"]:
                d["chunk_end"] += 1
                d["chunk_seq"] = "A"
        return d

    def observe(self, r):
        return getattr(r, "transcript_id", None) or getattr(r, "feature_id", None)


class SizeKeys(Case):
    """The sort keys of _find_primary_feature - cds_size and len() of a transcript - are functions of the chromosome
    coordinates: ANY sequence-chunk window (also one that truncates or misses the transcript or its CDS) leaves them
    unchanged ('does not shrink').  With FindPrimary (parentless children) this carries the primary choice to chunk
    parents; FindPrimary[...][sequence-chunk parent] (thorough tier) proves it directly."""
    props = ("C20", "C07")
    func = TRANSCRIPT + ".cds_size"

    def __init__(self, n):
        self.n = n
        self.name = f"TranscriptInterval.cds_size / len / is_coding[{n} exon(s), any sequence-chunk window]"
        self.call = "(tx.cds_size, len(tx), tx.is_coding, tx.start, tx.end)"
        self.module = "gene.transcript"
        self.ensures = {
            "cds-size-is-chromosome-cds-length": lambda i, r: r[0] == sum((e - s for s, e in zip(i.cds_s, i.cds_e)), 0),
            "length-is-sum-of-exons": lambda i, r: r[1] == sum((e - s for s, e in zip(i.starts, i.ends)), 0),
            "coding": lambda i, r: r[2] is True,
            "span": lambda i, r: And(r[3] == i.starts[0], r[4] == i.ends[-1]),
        }

    def inputs(self, S):
        from .c04_liftover import chunk_parent
        starts, ends = block_lists(S, "tx", self.n)
        strand = strand_of(S, "strand")
        cds_s, cds_e, c0, c1 = cds_in_exons(S, starts, ends)
        zero = S.enum_const(FRAME, "ZERO")
        cp, cs, ce = chunk_parent(S)
        S.assume(cs < ce)
        tx = S.new(TRANSCRIPT, starts, ends, strand, cds_starts=cds_s, cds_ends=cds_e, cds_frames=[zero] * self.n,
                   parent_or_seq_chunk_parent=cp)
        return NS(tx=tx, starts=starts, ends=ends, cds_s=cds_s, cds_e=cds_e)

    def samples(self, rng):
        from .c04_liftover import sample_chunk
        d = sample_blocks(rng, "tx", self.n, length=(1, 2, 3, 5))
        d["strand"] = rng.choice(["PLUS", "MINUS"])
        d = sample_cds(rng, d)
        d.update(sample_chunk(rng, hi=8))
        if d["chunk_end"] == d["chunk_start"]:
            d["chunk_end"] += 1
            d["chunk_seq"] = "A"
        return d


class GeneAggregates(Case):
    props = ("C20", "C16")
    func = GENE + ".__init__"

    def __init__(self, pattern):
        self.pattern = pattern
        tag = "".join("c" if p else "n" for p in pattern)
        self.name = f"GeneInterval aggregates[{tag}]"
        self.call = ("(lambda g: (g.start, g.end, g.is_coding, g.bin, g.get_primary_transcript(), g.get_primary_cds(), "
                     "g.get_merged_transcript().chromosome_location, len(g.guid_map), "
                     "g.get_merged_cds().chromosome_location, g.get_merged_feature().chromosome_location))"
                     "(GeneInterval(kids, gene_type=Biotype.protein_coding))")
        self.module = "gene.gene"
        self.raises = {"ValidationException": lambda i: count_true([c.flag for c in i.info]) >= 2}
        from .c16_bins import spec_bin
        self.ensures = {
            "span-is-min-start-max-end": lambda i, r: And(r[0] == _min([c.s for c in i.info]),
                                                          r[1] == _max([c.e for c in i.info])),
            "coding-iff-some-transcript-coding": lambda i, r: r[2] == any(c.coding for c in i.info),
            "bin-of-span": lambda i, r: r[3] == spec_bin(_min([c.s for c in i.info]), _max([c.e for c in i.info]), 0),
            "primary-accessors": lambda i, r: And(*[
                Implies(expected_primary(i.info) == j, And(r[4] is i.kids[j], r[5] is i.kids[j].cds))
                for j in range(len(i.kids))]),
            "merged-transcript-is-union-of-exons": lambda i, r: Iff(covers_pos(r[6], i.p),
                                                                    Or(*[And(c.s <= i.p, i.p < c.e) for c in i.info])),
            "one-map-entry-per-transcript": lambda i, r: r[7] == len(i.kids),
            "merged-cds-is-union-of-cds-blocks": lambda i, r: Iff(covers_pos(r[8], i.p), Or(*[
                And(c.s <= i.p, i.p < c.s + c.cds) for c in i.info if c.coding])),
            "merged-feature-is-the-merged-transcript": lambda i, r: Iff(covers_pos(r[9], i.p), covers_pos(r[6], i.p)),
        }

    def inputs(self, S):
        kids, info, strand = children(S, self.pattern)
        return NS(kids=kids, info=info, p=S.int("p"), GeneInterval=S.cls(GENE))

    def samples(self, rng):
        d = sample_children(rng, self.pattern)
        d["p"] = rng.randint(0, 12)
        return d

    def observe(self, r):
        from pyvc.check import default_observe as o
        from .c02_single import obs_loc
        return [o(r[0]), o(r[1]), o(r[2]), o(r[3]), getattr(r[4], "transcript_id", None), r[5] is None,
                obs_loc(r[6])[:2], o(r[7]), obs_loc(r[8])[:2], obs_loc(r[9])[:2]]


def _spec_bin(a, b):
    from .c16_bins import spec_bin
    return spec_bin(a, b, 0)


def _min(xs):
    m = xs[0]
    for x in xs[1:]:
        m = Min(m, x)
    return m


def _max(xs):
    m = xs[0]
    for x in xs[1:]:
        m = Max(m, x)
    return m


class FeatureCollectionAggregates(Case):
    props = ("C20", "C16")
    func = FCOL + ".__init__"
    name = "FeatureIntervalCollection aggregates[2 features]"
    call = ("(lambda c: (c.start, c.end, c.is_coding, sorted(c.feature_types), c.get_primary_feature(), "
            "c.get_merged_feature().chromosome_location, c.bin, [sorted(k.feature_types) for k in kids]))"
            "(FeatureIntervalCollection(kids))")
    module = "gene.feature"
    raises = {"ValidationException": lambda i: count_true([c.flag for c in i.info]) >= 2}
    ensures = {
        # the aggregate is COMPUTED from the children: building it changes no child (a later collection that re-uses a
        # child must not see types the child was never given)
        "children's-own-types-unchanged": lambda i, r: [list(x) for x in r[7]] == [["shared", "type0"], ["shared", "type1"]],
        "span": lambda i, r: And(r[0] == _min([c.s for c in i.info]), r[1] == _max([c.e for c in i.info])),
        "never-coding": lambda i, r: r[2] is False,
        "bin-of-span": lambda i, r: r[6] == _spec_bin(_min([c.s for c in i.info]), _max([c.e for c in i.info])),
        "types-are-union": lambda i, r: list(r[3]) == ["shared", "type0", "type1"],
        "primary": lambda i, r: And(*[Implies(expected_primary(i.info) == j, r[4] is i.kids[j]) for j in range(2)]),
        "merged-feature-is-union": lambda i, r: Iff(covers_pos(r[5], i.p),
                                                    Or(*[And(c.s <= i.p, i.p < c.e) for c in i.info])),
    }

    def inputs(self, S):
        kids, info, strand = children(S, (False, False), "feature")
        return NS(kids=kids, info=info, p=S.int("p"))

    def samples(self, rng):
        d = sample_children(rng, (False, False))
        d["p"] = rng.randint(0, 12)
        return d

    def observe(self, r):
        from pyvc.check import default_observe as o
        from .c02_single import obs_loc
        return [o(r[0]), o(r[1]), o(r[2]), list(r[3]), getattr(r[4], "feature_id", None), obs_loc(r[5])[:2], o(r[6]),
                [list(x) for x in r[7]]]


class AggregatesOnChunk(Case):
    """gene / feature-collection aggregates when the children AND the collection sit on a sequence chunk with ANY
    window (cutting children, missing them): span, merged transcript / merged feature and merged CDS are functions of
    the children's CHROMOSOME blocks - the chunk changes none of them."""
    props = ("C20", "C07")
    shard_depth = 6

    def __init__(self, kind):
        self.kind = kind
        self.tier = "thorough" if kind == "gene" else "quick"  # the two-isoform gene variant forks ~330 paths
        if kind == "gene1":
            self.allow_uncovered = ("raise:ValidationException",)  # a single child cannot carry two primary flags
        if kind in ("gene", "gene1"):
            self.func = GENE + ".get_merged_transcript"
            self.module = "gene.gene"
            self.name = ("GeneInterval aggregates[cc, children and gene on a sequence chunk with any window]" if kind == "gene"
                         else "GeneInterval aggregates[one coding isoform, child and gene on a sequence chunk with any window]")
            self.call = ("(lambda g: (g.start, g.end, g.get_merged_transcript().chromosome_location, "
                         "g.get_merged_cds().chromosome_location))(GeneInterval(kids, gene_type=Biotype.protein_coding, "
                         "parent_or_seq_chunk_parent=cp))")
        else:
            self.func = FCOL + ".get_merged_feature"
            self.module = "gene.feature"
            self.name = "FeatureIntervalCollection aggregates[2 features, children and collection on a sequence chunk with any window]"
            self.call = ("(lambda c: (c.start, c.end, c.get_merged_feature().chromosome_location, None))"
                         "(FeatureIntervalCollection(kids, parent_or_seq_chunk_parent=cp))")
        # a collection whose SPAN has no base on the chunk has an empty chunk-relative location: the merged feature
        # (built on the strand of that location) is then refused with the documented EmptyLocationException
        _off = lambda i: Not(Max(_min([c.s for c in i.info]), i.cs) < Min(_max([c.e for c in i.info]), i.ce))  # noqa
        self.raises = {"ValidationException": lambda i: count_true([c.flag for c in i.info]) >= 2,
                       "EmptyLocationException": lambda i: And(count_true([c.flag for c in i.info]) < 2, _off(i))}
        self.ensures = {
            "span-is-min-start-max-end": lambda i, r: And(r[0] == _min([c.s for c in i.info]), r[1] == _max([c.e for c in i.info])),
            "merged-is-union-of-chromosome-blocks": lambda i, r: Iff(covers_pos(r[2], i.p), Or(*[And(c.s <= i.p, i.p < c.e) for c in i.info])),
            "merged-cds-is-union-of-cds-blocks": lambda i, r: True if r[3] is None else Iff(
                covers_pos(r[3], i.p), Or(*[And(c.s <= i.p, i.p < c.s + c.cds) for c in i.info if c.coding])),
        }

    def inputs(self, S):
        pattern = {"gene": (True, True), "gene1": (True,)}.get(self.kind, (False, False))
        kids, info, strand = children(S, pattern, "tx" if self.kind in ("gene", "gene1") else "feature", chunk=True)
        ns = NS(kids=kids, info=info, p=S.int("p"), cp=S._last_chunk[0], cs=S._last_chunk[1], ce=S._last_chunk[2])
        if self.kind in ("gene", "gene1"):
            ns.GeneInterval = S.cls(GENE)
        return ns

    def samples(self, rng):
        from .c04_liftover import sample_chunk
        d = sample_children(rng, {"gene": (True, True), "gene1": (True,)}.get(self.kind, (False, False)))
        d["p"] = rng.randint(0, 12)
        d.update(sample_chunk(rng, hi=6))
        if d["chunk_end"] == d["chunk_start"]:
            d["chunk_end"] += 1
            d["chunk_seq"] = "A"
        return d

    def observe(self, r):
        from pyvc.check import default_observe as o
        from .c02_single import obs_loc
        return [o(r[0]), o(r[1]), obs_loc(r[2])[:2], None if r[3] is None else obs_loc(r[3])[:2]]


class ParentlessCollectionKeepsChildren(Case):
    """a gene / feature collection built WITHOUT a parent around children that carry their own sequence-bearing parent:
    the children are operands - they keep their parent, their sequence and their coordinates (the collection only
    re-parents children when it is GIVEN a parent)."""
    props = ("C10", "C20", "C19")
    module = "gene.gene"

    def __init__(self, kind):
        self.kind = kind
        cls = "GeneInterval" if kind == "gene" else "FeatureIntervalCollection"
        self.func = (GENE if kind == "gene" else FCOL) + ".__init__"
        self.name = f"{cls}(children with their own sequence parent, no parent argument) leaves the children unchanged"
        self.call = (f"(lambda g: (kid.chunk_relative_location.parent.id, kid.chunk_relative_location.parent.sequence is seq, "
                     f"kid.start, kid.end, len(kid.get_spliced_sequence()), g.start, g.end))({cls}([kid]))")
        self.ensures = {
            "child-keeps-its-parent-and-sequence": lambda i, r: And(r[0] == "chr1", r[1] is True),
            "child-coordinates-and-sequence-unchanged": lambda i, r: And(r[2] == i.s, r[3] == i.e, r[4] == i.e - i.s),
            "span": lambda i, r: And(r[5] == i.s, r[6] == i.e),
        }

    def inputs(self, S):
        s, e = S.int("s"), S.int("e")
        par, L = parent_with_sequence(S)
        S.assume(And(0 <= s, s < e, e <= L))
        strand = strand_of(S, "strand")
        if self.kind == "gene":
            kid = S.new(TRANSCRIPT, [s], [e], strand, parent_or_seq_chunk_parent=par)
        else:
            kid = S.new(FEATURE, [s], [e], strand, parent_or_seq_chunk_parent=par)
        return NS(kid=kid, s=s, e=e, seq=par.sequence if S.mode == "native" else S.e.getattr(par, "sequence"),
                  GeneInterval=S.cls(GENE), FeatureIntervalCollection=S.cls(FCOL))

    def samples(self, rng):
        s = rng.randint(0, 12)
        return dict(s=s, e=rng.randint(s + 1, 16), strand=rng.choice(["PLUS", "MINUS"]),
                    seq="".join(rng.choice("ACGT") for _ in range(16 + rng.randint(0, 3))))


class GenePrimarySequences(Case):
    """the primary-transcript accessors of a gene are the stated functions of the primary child: get_primary_cds_sequence
    is the IN-FRAME coding sequence of the primary transcript (start frame f: 3 * floor((L - f) / 3) bases, base k = the
    chromosome base of the CDS strand at CDS position f + k - not the raw CDS span), get_primary_transcript_sequence the
    whole spliced exon, get_primary_cds the child's CDS object.  One-exon primary transcript whose CDS is any
    sub-interval of the exon, any start frame, on a sequence chunk of either strand containing it, symbolic text."""
    props = ("C20", "C05")
    func = GENE + ".get_primary_cds_sequence"
    module = "gene.gene"
    shard_depth = 5
    name = "GeneInterval primary accessors[coding primary transcript, any start frame, chunk of either strand, symbolic text]"
    call = ("(lambda g: (lambda c: (len(c), c, len(g.get_primary_transcript_sequence()), "
            "g.get_primary_cds() is g.transcripts[0].cds, g.get_primary_transcript() is g.transcripts[0], "
            "g.get_primary_feature() is g.transcripts[0]))(g.get_primary_cds_sequence()))"
            "(GeneInterval([tx], parent_or_seq_chunk_parent=cp))")
    ensures = {
        "cds-sequence-is-the-in-frame-coding-sequence": lambda i, r: And(r[0] == 3 * Div(i.L - i.f, 3), Mod(r[0], 3) == 0),
        "k-th-base-is-the-chromosome-base-at-cds-position-f-plus-k": lambda i, r: Implies(
            And(0 <= i.k, i.k < r[0]), _tchar(r[1], i.k) == _chrom_base(i, _pos(i, i.f + i.k))),
        "transcript-sequence-is-the-whole-exon": lambda i, r: r[2] == i.e - i.s,
        "primary-objects-are-the-child's": lambda i, r: And(r[3] is True, r[4] is True, r[5] is True),
    }

    def inputs(self, S):
        from .c04_liftover import chunk_parent_stranded
        s, e, u, v = S.int("s"), S.int("e"), S.int("u"), S.int("v")
        strand = strand_of(S, "strand")
        f = S.enum(FRAME, "frame")
        S.assume(Not(enum_name_is(f, "NONE")))
        if S.mode == "sym":
            f = S.e.enum_concretize(f)
        fv = f.value if not hasattr(f, "members") else f.members[f.idx][1]
        cp, cs, ce, minus = chunk_parent_stranded(S)
        S.assume(And(0 <= cs, cs <= s, 0 <= u, 0 <= v, s + u < e - v, e <= ce, (e - v) - (s + u) - fv >= 3))
        tx = S.new(TRANSCRIPT, [s], [e], strand, cds_starts=[s + u], cds_ends=[e - v], cds_frames=[f], is_primary_tx=S.bool("primary"),
                   parent_or_seq_chunk_parent=cp)
        plus = (strand.members[strand.idx][0] if hasattr(strand, "members") else strand.name) == "PLUS"
        return NS(tx=tx, cp=cp, s=s, e=e, f=fv, L=(e - v) - (s + u), k=S.int("k"), starts=[s + u], ends=[e - v], plus=plus,
                  cs=cs, ce=ce, minus=minus, text=S.symstr("chunk_seq"), GeneInterval=S.cls(GENE))

    def samples(self, rng):
        s = rng.randint(2, 8)
        e = s + rng.randint(7, 16)
        u, v = rng.randint(0, 2), rng.randint(0, 2)
        cs, ce = rng.randint(0, s), e + rng.randint(0, 3)
        return dict(s=s, e=e, u=u, v=v, strand=rng.choice(["PLUS", "MINUS"]), frame=rng.choice(["ZERO", "ONE", "TWO"]),
                    primary=rng.choice([True, False]), k=rng.randint(0, 9), chunk_start=cs, chunk_end=ce,
                    chunk_strand=rng.choice(["PLUS", "MINUS"]),
                    chunk_seq="".join(rng.choice("ACGT") for _ in range(ce - cs)))

    def observe(self, r):
        from pyvc.check import default_observe as o
        text = r[1].sequence if hasattr(r[1], "attrs") else str(r[1])
        return [o(r[0]), text if isinstance(text, str) else None, o(r[2]), r[3], r[4], r[5]]


def _tchar(seq, k):
    from .c05_cds import _tchar as t
    return t(seq, k)


def _pos(i, t):
    from .c03_sequence import _pos as p
    return p(i, t)


def _chrom_base(i, p):
    from .c03_sequence import _chrom_base as cb
    return cb(i, p)


CASES = [GenePrimarySequences(), ParentlessCollectionKeepsChildren('gene'), ParentlessCollectionKeepsChildren('features'), AggregatesOnChunk("gene"), AggregatesOnChunk("gene1"), AggregatesOnChunk("features"), FindPrimary((True, True)), FindPrimary((True, False)), FindPrimary((False, False)),
         FindPrimary((True, True, True)), FindPrimary((False, False), "feature"),
         GeneAggregates((True, True)), GeneAggregates((True, False)), FeatureCollectionAggregates(),
         FindPrimary((True, True), chunk=True), FindPrimary((True, False), chunk=True), SizeKeys(1), SizeKeys(2)]
