#!/usr/bin/env python3
"""Re-verify every stored seed against /repo's CURRENT HEAD in a scratch worktree: the patch must still apply, the
demonstration must pass on the clean tree and fail with the patch, the pinned suite must be unchanged.  Writes
/verif/seeded/REVERIFY.json (status per seed; seeds that no longer break anything - e.g. because a fix: commit closed
the hole they used - are reported as 'obsolete', not deleted).  Usage: seed_reverify.py [name ...]"""
import json, os, subprocess, sys, tempfile
SEEDED = "/verif/seeded"
names = sys.argv[1:] or sorted(d for d in os.listdir(SEEDED) if os.path.isdir(os.path.join(SEEDED, d)))
def sh(cmd, cwd=None):
    p = subprocess.run(cmd, shell=True, cwd=cwd, capture_output=True, text=True)
    return p.returncode, p.stdout + p.stderr
wt = tempfile.mkdtemp(prefix="seedrv_", dir="/tmp"); os.rmdir(wt)
rc, out = sh(f"git -C /repo worktree add -q --detach {wt} HEAD"); assert rc == 0, out
head = sh("git -C /repo rev-parse --short HEAD")[1].strip()
path = os.path.join(SEEDED, "REVERIFY.json")
res = json.load(open(path)) if os.path.exists(path) and sys.argv[1:] else {}
try:
    for n in names:
        d = os.path.join(SEEDED, n)
        demo, patch = os.path.join(d, "demo.py"), os.path.join(d, "patch.diff")
        rc0, o0 = sh(f"/venv/bin/python {demo}", cwd=wt)
        rca, oa = sh(f"git apply {patch}", cwd=wt)
        how = "git apply"
        if rca != 0:
            rca, oa = sh(f"patch -p1 -F3 --no-backup-if-mismatch < {patch}", cwd=wt)
            how = "patch -F3"
        rc1, o1 = sh(f"/venv/bin/python {demo}", cwd=wt) if rca == 0 else (None, "")
        rct, ot = sh("/venv/bin/python -m pytest -q -p no:cacheprovider --timeout=900 --continue-on-collection-errors 2>&1 | tail -1", cwd=wt) if rca == 0 else (None, "")
        ok_tests = "1466 passed" in ot and "failed" not in ot
        status = ("does-not-apply" if rca != 0 else "clean-demo-fails" if rc0 != 0 else
                  "obsolete (demo passes with the patch)" if rc1 == 0 else "tests-change" if not ok_tests else "valid")
        res[n] = dict(status=status, head=head, how=how)
        print(n, status, flush=True)
        sh("git checkout -- . && git clean -fdq", cwd=wt)
finally:
    sh(f"git -C /repo worktree remove --force {wt}")
json.dump(res, open(path, "w"), indent=1)
print({s: sum(1 for v in res.values() if v["status"] == s) for s in {v["status"] for v in res.values()}})
