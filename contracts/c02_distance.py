"""C02 — CompoundInterval.distance_to for ANY number of blocks.

INNER distance to a single interval: the loop over the blocks is cut by an inductive invariant ("distance is the
minimum, over the blocks seen so far, of the single-interval distance, attained at ghost index $w, and positive");
compound x compound: the same loop with the callee contract just proved for the inner call (modular), giving
min over all block pairs.  OUTER / STARTS / ENDS are straight-line functions of the end points."""
from pyvc.spec import *  # noqa
from pyvc.sources import NS
from .common import *  # noqa
from . import lib
from .c01_compound import sample_compound, _gk

Q = "location.location_impl.CompoundInterval."
DQ = Q + "distance_to"


def d1(s, e, os, oe):
    """documented inner distance of two single intervals [s,e) and [os,oe) (c02_single.Distance proves the real
    SingleInterval.distance_to equal to it): 0 if they share a base, else the smaller end-point gap."""
    return If(Max(s, os) < Min(e, oe), 0, Min(Abs(s - oe), Abs(e - os)))


def _end_of(i):
    """largest block end of the receiver: the invariant's ``end`` term symbolically, max over the blocks natively."""
    n = i.V.n
    if isinstance(n, int):
        m = i.V.E(0)
        for j in range(1, n):
            m = Max(m, i.V.E(j))
        return m
    return i.self.end


def _is_compound(v):
    return class_name(v) == "CompoundInterval"


def _dist_inv(interp, ns, k, frame):
    V = view(frame.lookup("self")[1])
    other = frame.lookup("other")[1]
    d, w, w2 = ns.distance, getattr(ns, "$w"), getattr(ns, "$w2")
    if _is_compound(other):
        W = view(other)
        pair = lambda a, b: d1(V.S(a), V.E(a), W.S(b), W.E(b))  # noqa
        attained = And(0 <= w2, w2 < W.n, d.val == pair(w, w2))
        lower = ForAllRange(0, k, lambda a: ForAllRange(0, W.n, lambda b: d.val <= pair(a, b), "db"), "da")
    else:
        f = lambda j: d1(V.S(j), V.E(j), other.start, other.end)  # noqa
        attained = d.val == f(w)
        lower = ForAllRange(0, k, lambda j: d.val <= f(j), "dj")
    return And(0 <= k, k <= V.n, Iff(d.is_none, k == 0),
               Implies(k > 0, And(d.val > 0, 0 <= w, w < k, attained, lower)))


def _dist_ghost_init(interp, frame):
    import z3
    frame.locals["$w"] = z3.IntVal(0)
    frame.locals["$w2"] = z3.IntVal(0)


def _dist_ghost_step(interp, frame, k):
    """($w, $w2) := (k, index attaining the callee's minimum) when block k attains the running minimum
    (specification-only)."""
    from pyvc.values import OptVal
    d = frame.locals["distance"]
    dv = d.val if isinstance(d, OptVal) else d
    here = dv == frame.locals["interval_distance"]
    frame.locals["$w"] = If(here, k, frame.locals["$w"])
    j0 = interp.ghost.get("cdist_j0")
    if j0 is not None:
        frame.locals["$w2"] = If(here, j0, frame.locals["$w2"])


def _dist_hints(interp, ns, k, frame):
    interp.ghost["distance/w"] = getattr(ns, "$w")
    interp.ghost["distance/w2"] = getattr(ns, "$w2")
    return True


lib.LOOPS[(DQ, 0)] = LoopSpec({"distance": "optint", "$w": "int", "$w2": "int"}, _dist_inv, "blocks",
                              hints=_dist_hints, ghost_init=_dist_ghost_init, ghost_step=_dist_ghost_step)


def cdist_summary(interp, args, kwargs):
    """Contract of CompoundInterval.distance_to(single, INNER) - proved for the real body by CDistanceSingle - used at
    the nested call ``other.distance_to(interval)`` of the compound x compound case.
    requires  the argument is a SingleInterval (this is also the termination measure: the number of compound
              operands drops from 2 to 1), distance type INNER (the default), no parents
    ensures   r >= 0, r <= d1(block j, arg) for every block j, r == d1(block j0, arg) for some j0 (ghost cdist_j0)"""
    from pyvc.values import Unsupported
    selfv, other = args[0], args[1]
    if len(args) > 2 or kwargs:
        raise Unsupported("distance_to contract: only the default distance type")
    if "$pre" not in selfv.attrs or selfv.attrs.get("parent") is not None or other.attrs.get("parent") is not None:
        raise Unsupported("distance_to contract: parentless operands with spec view only")
    interp.prove(DQ + "/call-pre:argument-is-single-interval(decreases)", class_name(other) == "SingleInterval")
    V = view(selfv)
    r, j0 = interp.fresh_int("cdist"), interp.fresh_int("cdist_j0")
    f = lambda j: d1(V.S(j), V.E(j), other.start, other.end)  # noqa
    interp.assume(And(r >= 0, 0 <= j0, j0 < V.n, r == f(j0), ForAllRange(0, V.n, lambda j: r <= f(j), "cj")))
    interp.ghost["cdist_j0"] = j0
    return r


lib.SUMMARIES[DQ] = cdist_summary
lib.LIB.setdefault("recursive_only", set()).add(DQ)


def _witness(i):
    g = getattr(i, "ghost", None) or {}
    k, w = g.get(f"{DQ}/loop0/k"), g.get("distance/w")
    if k is None:
        return None
    return If(k < i.V.n, k, w) if w is not None else k


def _rv(r):
    """the returned integer (the engine hands back the loop variable as an optional int; 'is an int' is a clause)."""
    return r.val if hasattr(r, "is_none") else r


def _is_int(r):
    if hasattr(r, "is_none"):
        return Not(r.is_none)
    return hasattr(r, "sort") or (isinstance(r, int) and not isinstance(r, bool))


class CDistanceSingle(Case):
    scopes = (1, 2, 3)
    props = ("C02",)
    name = "CompoundInterval.distance_to(SingleInterval)[any number of blocks]"
    func = DQ
    call = "self.distance_to(other, dt)"
    loops = ((DQ, 0),)
    ensures = {
        "inner-is-min-over-blocks": lambda i, r: Implies(
            enum_name_is(i.dt, "INNER"),
            And(ForAllRange(0, i.V.n, lambda j: _rv(r) <= d1(i.V.S(j), i.V.E(j), i.os, i.oe), "mj"),
                ExistsRange(0, i.V.n, lambda j: _rv(r) == d1(i.V.S(j), i.V.E(j), i.os, i.oe), witness=_witness(i)))),
        "end-point-forms": lambda i, r: And(
            Implies(enum_name_is(i.dt, "STARTS"), _rv(r) == Abs(i.V.S(0) - i.os)),
            # 'end' = the largest block end (class invariant: upper bound of every block end that is attained)
            Implies(enum_name_is(i.dt, "ENDS"), _rv(r) == Abs(_end_of(i) - i.oe)),
            Implies(enum_name_is(i.dt, "OUTER"), _rv(r) == Max(Abs(i.V.S(0) - i.oe), Abs(_end_of(i) - i.os)))),
        "an-int-and-non-negative": lambda i, r: And(_is_int(r), _rv(r) >= 0),
    }

    def inputs(self, S):
        c, V = compound(S, "self")
        other = single(S, "other")
        dt = S.enum("DistanceType", "dt")
        if S.mode == "sym":
            dt = S.e.enum_concretize(dt)
        return NS(self=c, V=V, other=other, os=other.start, oe=other.end, dt=dt)

    def samples(self, rng):
        d = sample_compound(rng, "self")
        s = rng.randint(0, 20)
        d.update(other_start=s, other_end=s + rng.randint(0, 5), other_strand=rng.choice(["PLUS", "MINUS"]),
                 dt=rng.choice(["INNER", "OUTER", "STARTS", "ENDS"]))
        return d


def _witness2(i):
    g = getattr(i, "ghost", None) or {}
    k = g.get(f"{DQ}/loop0/k")
    if k is None:
        return None, None
    return If(k < i.V.n, k, g["distance/w"]), If(k < i.V.n, g.get("cdist_j0", 0), g["distance/w2"])


def _attained(i, r):
    pair = lambda a, b: d1(i.V.S(a), i.V.E(a), i.W.S(b), i.W.E(b))  # noqa
    wa, wb = _witness2(i)
    if wa is None:  # native / concrete: finite search
        return any(_rv(r) == pair(a, b) for a in range(i.V.n) for b in range(i.W.n))
    return And(0 <= wa, wa < i.V.n, 0 <= wb, wb < i.W.n, _rv(r) == pair(wa, wb))


class CDistanceCompound(Case):
    """compound x compound, both with ANY number of blocks: INNER distance = minimum over all block pairs of the
    single-interval distance (so 0 iff some pair of blocks shares a base, symmetric in the operands)."""
    props = ("C02",)
    name = "CompoundInterval.distance_to(CompoundInterval)[any number of blocks on both sides]"
    func = DQ
    call = "self.distance_to(other)"
    loops = ((DQ, 0),)
    summaries = (DQ,)
    ensures = {
        "inner-is-min-over-block-pairs": lambda i, r: And(
            ForAllRange(0, i.V.n, lambda a: ForAllRange(
                0, i.W.n, lambda b: _rv(r) <= d1(i.V.S(a), i.V.E(a), i.W.S(b), i.W.E(b)), "pb"), "pa"),
            _attained(i, r)),
        "an-int-and-non-negative": lambda i, r: And(_is_int(r), _rv(r) >= 0),
    }

    def inputs(self, S):
        c, V = compound(S, "self")
        o, W = compound(S, "other")
        return NS(self=c, V=V, other=o, W=W)

    def samples(self, rng):
        d = sample_compound(rng, "self")
        d.update(sample_compound(rng, "other"))
        return d


CASES = [CDistanceSingle(), CDistanceCompound()]

CANARIES = [
    dict(name="compound distance: early exit assumes unimodal distances", props=("C02",),
         file="inscripta/biocantor/location/location_impl.py",
         old="                    if distance == 0:\n                        return 0\n            return distance",
         new="                    if distance == 0:\n                        return 0\n                elif interval_distance > distance:\n                    break\n            return distance",
         case="CompoundInterval.distance_to(SingleInterval)[any number of blocks]",
         expect="post:inner-is-min-over-blocks"),
]
