"""Native side: runs under /venv/bin/python (no z3) on the real library.

Reads a JSON list of jobs ``{"module": contracts module, "case": case name, "prims": {...}}`` on stdin and writes a JSON
list of results: the outcome of the real call and the truth value of every contract clause evaluated on real objects.
"""
import importlib
import json
import sys
import types


def _stub_unimportable():
    # io.models does not import in this environment (marshmallow drift); library code only needs it for schema
    # loading, which no native job exercises.  The stub lives in the harness, never in /repo.
    try:
        import inscripta.biocantor.io.models  # noqa
    except Exception:
        m = types.ModuleType("inscripta.biocantor.io.models")
        m.AnnotationCollectionModel = object
        sys.modules["inscripta.biocantor.io.models"] = m


def describe(v, depth=0):
    try:
        if v is None or isinstance(v, (bool, int, str, float)):
            return v
        if isinstance(v, (list, tuple)):
            return [describe(x, depth + 1) for x in v[:50]]
        if isinstance(v, (set, frozenset)):
            return {"set": sorted(repr(x) for x in v)[:50]}
        if isinstance(v, dict):
            return {repr(k): describe(x, depth + 1) for k, x in list(v.items())[:50]}
        import enum
        if isinstance(v, enum.Enum):
            return f"{type(v).__name__}.{v.name}"
        return f"{type(v).__name__}:{v!r}"[:300]
    except Exception as ex:  # pragma: no cover
        return f"<undescribable {type(v).__name__}: {ex}>"


def _module_globals(case):
    """Globals of the module the call expression is written against (the callee's module unless stated)."""
    cand = [case.module] if case.module is not None else []
    parts = case.func.split(".")
    cand += [".".join(parts[:i]) for i in range(len(parts), 0, -1)]
    for c in cand:
        try:
            return vars(importlib.import_module("inscripta.biocantor." + c if c else "inscripta.biocantor"))
        except Exception:
            continue
    return {}


def eval_case(case, prims, raw=False):
    from pyvc.sources import NativeSource, Skip
    S = NativeSource(prims)
    try:
        inp = case.inputs(S)
    except Skip:
        return {"skip": True}
    except Exception as ex:
        return {"skip": True, "input_error": f"{type(ex).__name__}: {ex}"}
    env = dict(inp.__dict__)
    out = {"skip": False}
    ex_obj = None
    try:
        g = dict(_module_globals(case))
        g.update(env)  # one namespace: lambdas inside the call expression must see the inputs
        r = eval(case.call, g)
        if isinstance(r, types.GeneratorType):
            r = list(r)
        outcome = "return"
    except Exception as ex:
        r = None
        ex_obj = ex
        outcome = "raise:" + type(ex).__name__
        out["message"] = str(ex)[:300]
    out["outcome"] = outcome
    out["result"] = describe(r)
    if outcome == "return":
        try:
            from pyvc.check import default_observe
            out["obs"] = case.observe(r) if hasattr(case, "observe") else default_observe(r)
        except Exception as ex:
            out["obs"] = f"<unobservable: {ex}>"
    checks = {}
    if outcome == "return":
        for label, f in case.ensures.items():
            try:
                val = f(inp, r)
                from pyvc.spec import SKIP
                if val is SKIP:
                    continue
                if label in case.known and not raw:
                    val = bool(val) or bool(case.known[label]["carve"](inp))
                checks["post:" + label] = bool(val)
            except Exception as ex:
                checks["post:" + label] = False
                out.setdefault("notes", []).append(f"post:{label} not evaluable: {type(ex).__name__}: {ex}")
    listed = False
    for exc, w in case.raises.items():
        if raw and exc in getattr(case, "known_raises", {}):
            continue  # raw replay of a known finding: the exception is NOT accepted as documented behaviour
        try:
            cond = bool(w(inp))
        except Exception as ex:
            cond = None
            out.setdefault("notes", []).append(f"raises:{exc} condition not evaluable: {type(ex).__name__}: {ex}")
        raised = outcome == "raise:" + exc
        listed = listed or raised
        checks["raises:" + exc] = (cond == raised)
    if not listed and outcome != "return" and getattr(case, "may_raise", ()):
        listed = any(k.__name__ in case.may_raise for k in type(ex_obj).__mro__) if ex_obj is not None else False
    checks["no-other-exception"] = outcome == "return" or listed
    out["checks"] = checks
    return out


def main():
    sys.setrecursionlimit(10000)
    _stub_unimportable()
    jobs = json.load(sys.stdin)
    cache = {}
    results = []
    for job in jobs:
        modname = job["module"]
        if modname not in cache:
            mod = importlib.import_module(modname)
            cache[modname] = {c.name: c for c in mod.CASES}
        case = cache[modname].get(job["case"])
        if case is None:
            results.append({"error": "no such case " + job["case"]})
            continue
        try:
            r1 = eval_case(case, job["prims"], raw=bool(job.get("raw")))
            if job.get("repeat") and not r1.get("skip"):
                r2 = eval_case(case, job["prims"], raw=bool(job.get("raw")))
                later = [k for k, v in r2.get("checks", {}).items() if v is False and r1.get("checks", {}).get(k)]
                if later:
                    for k in later:
                        r1["checks"][k] = False
                    r1["second_call_in_the_same_process"] = dict(outcome=r2.get("outcome"), result=r2.get("result"),
                                                                 fails=later)
            results.append(r1)
        except Exception as ex:  # pragma: no cover
            results.append({"error": f"{type(ex).__name__}: {ex}"})
    json.dump(results, sys.stdout)


if __name__ == "__main__":
    main()
