"""C16 — util/bins.py:bins.  Specification from the property statement and the module's Fig. 7 description
(DESIGN Appendix A.3).  The constant loop over OFFSETS is executed completely (exact, not a bound)."""
from pyvc.spec import *  # noqa
from pyvc.sources import NS

MAX = 2 ** 29
LEVEL_OFFSETS = [4681, 585, 73, 9, 1]  # first bin number of each level, finest first (UCSC scheme)
WIDTHS = [2 ** (17 + 3 * k) for k in range(5)]


def out_of_range(start, stop, off):
    return Or(start < 0, stop < 0, start >= MAX, stop >= MAX, start < off)


def spec_bin(start, stop, off):
    """Smallest standard bin containing the inclusive coordinate range [start-off, stop]."""
    a = start - off
    e = 1
    for k in range(4, -1, -1):
        e = If(Div(a, WIDTHS[k]) == Div(stop, WIDTHS[k]), LEVEL_OFFSETS[k] + Div(a, WIDTHS[k]), e)
    return If(out_of_range(start, stop, off), 1, e)


def level_of(b):
    """(first bin of level, width) of bin number b, as an If-chain over the five levels."""
    first = 1
    width = WIDTHS[4]
    for k in range(3, -1, -1):
        first = If(b >= LEVEL_OFFSETS[k], LEVEL_OFFSETS[k], first)
        width = If(b >= LEVEL_OFFSETS[k], WIDTHS[k], width)
    return first, width


class BinsOne(Case):
    no_summaries = ("util.bins.bins",)  # these cases verify the real body
    props = ("C16", "C09")
    func = "util.bins.bins"

    def __init__(self, fmt):
        self.fmt = fmt
        self.off = {"bed": 0, "gff": 1}[fmt]
        self.name = f"bins[one,{fmt}]"
        self.call = f"bins(start, stop, fmt={fmt!r}, one=True)"
        off = self.off
        self.ensures = {
            "kind-int": lambda i, r: is_int_value(r),
            "value": lambda i, r: r == spec_bin(i.start, i.stop, off),
            "standard-bin": lambda i, r: And(r >= 1, r <= 4681 + Div(MAX - 1, WIDTHS[0])),
            "contains": lambda i, r: Implies(
                Not(out_of_range(i.start, i.stop, off)),
                And(level_of(r)[1] * (r - level_of(r)[0]) <= i.start - off,
                    i.stop < level_of(r)[1] * (r - level_of(r)[0] + 1))),
            "smallest": lambda i, r: Implies(
                Not(out_of_range(i.start, i.stop, off)),
                And(*[Implies(level_of(r)[1] > WIDTHS[k],
                              Div(i.start - off, WIDTHS[k]) != Div(i.stop, WIDTHS[k])) for k in range(4)])),
            "out-of-range-is-1": lambda i, r: Implies(out_of_range(i.start, i.stop, off), r == 1),
        }

    def inputs(self, S):
        start, stop = S.int("start"), S.int("stop")
        # an interval: the (offset-corrected) start does not exceed the stop
        S.assume(start - self.off <= stop)
        return NS(start=start, stop=stop, bins=S.fn("util.bins.bins"))

    def samples(self, rng):
        b = rng.choice([0, 1, 2 ** 17, 2 ** 20, 2 ** 23, 2 ** 26, 2 ** 29])
        s = max(-2, b + rng.randint(-3, 3)) if rng.random() < 0.7 else rng.randint(-5, 2 ** 30)
        return dict(start=s, stop=s + rng.choice([0, 1, 2, 5, 2 ** 17, 2 ** 20, rng.randint(0, 2 ** 27)]))


def overlap_or_contained(fmt, i):
    if fmt == "bed":  # half-open [s,e): non-empty overlap, or containment
        return And(i.s <= i.e, i.S <= i.E, Or(And(i.s < i.E, i.S < i.e), And(i.S <= i.s, i.e <= i.E)))
    return And(i.s <= i.e, i.S <= i.E, i.s <= i.E, i.S <= i.e)  # closed intervals


class BinsNeverHide(Case):
    """The bin set of a query range contains the assigned bin of every interval contained in or overlapping it."""
    props = ("C16", "C09")
    func = "util.bins.bins"
    no_summaries = ("util.bins.bins",)

    def __init__(self, fmt):
        self.fmt = fmt
        off = {"bed": 0, "gff": 1}[fmt]
        self.off = off
        self.name = f"bins[never-hide,{fmt}]"
        self.call = f"(bins(s, e, fmt={fmt!r}, one=True), bins(S, E, fmt={fmt!r}, one=False))"
        self.ensures = {
            "kind-set": lambda i, r: is_set_value(r[1]),
            "assigned-bin-in-query-set": lambda i, r: set_member(r[1], r[0]),
            "whole-chromosome-bin-always": lambda i, r: set_member(r[1], 1),
        }

    def inputs(self, S):
        i = NS(s=S.int("s"), e=S.int("e"), S=S.int("S"), E=S.int("E"), bins=S.fn("util.bins.bins"))
        S.assume(overlap_or_contained(self.fmt, i))
        # in-range coordinates of the respective convention (out-of-range ones are assigned bin 1, always in the set)
        S.assume(And(i.s >= self.off, i.S >= self.off))
        return i

    def samples(self, rng):
        b = rng.choice([2 ** 17, 2 ** 20, 2 ** 23, 2 ** 26, 2 ** 29, 3 * 2 ** 17])
        S_ = max(self.off, b + rng.randint(-4, 4) - rng.choice([0, 0, 2 ** 17]))
        E_ = S_ + rng.choice([0, 1, 3, 8, 2 ** 17 + 1])
        s = max(self.off, S_ + rng.randint(-2, 3))
        e = s + rng.choice([0, 1, 2, 6])
        return dict(s=s, e=e, S=S_, E=E_)


class StoredBins(Case):
    """bin stored at construction on the remaining interval classes = UCSC bin of the chromosome span (Feature /
    Transcript / CDS: c14_bed; Gene / FeatureIntervalCollection: c20_aggregates): VariantInterval,
    and AnnotationCollection (explicit bounds or span of its
    children)."""
    props = ("C16",)
    name = "stored bin of VariantInterval / AnnotationCollection = bins(chromosome span)"
    func = "gene.variants.VariantInterval.__init__"
    module = "gene.collections"
    call = ("(lambda v, w: (v.bin, w.bin, "
            "0, "
            "AnnotationCollection(variant_collections=[VariantIntervalCollection([v, w])], start=lo, end=hi).bin))"
            "(VariantInterval(a, b, 'A', 'snv'), VariantInterval(c, d, 'AC', 'ins'))")
    ensures = {
        "variant": lambda i, r: r[0] == spec_bin(i.a, i.b, 0),
        "second-variant": lambda i, r: r[1] == spec_bin(i.c, i.d, 0),
        "annotation-collection-explicit-bounds": lambda i, r: r[3] == spec_bin(i.lo, i.hi, 0),
    }

    def inputs(self, S):
        a, b, c, d, lo, hi = (S.int(n) for n in ("a", "b", "c", "d", "lo", "hi"))
        S.assume(And(0 <= lo, lo <= a, a < b, b <= c, c < d, d <= hi))
        return NS(a=a, b=b, c=c, d=d, lo=lo, hi=hi, VariantInterval=S.cls("gene.variants.VariantInterval"),
                  VariantIntervalCollection=S.cls("gene.variants.VariantIntervalCollection"),
                  AnnotationCollection=S.cls("gene.collections.AnnotationCollection"))

    def samples(self, rng):
        base = rng.choice([0, 5, 131070, 2 ** 20 - 3])
        a = base + rng.randint(0, 3)
        b = a + rng.randint(1, 3)
        c = b + rng.choice([0, 1, 131072])
        d = c + rng.randint(1, 3)
        return dict(a=a, b=b, c=c, d=d, lo=max(0, a - rng.randint(0, 3)), hi=d + rng.choice([0, 2, 131072]))


CASES = [BinsOne("bed"), BinsOne("gff"), BinsNeverHide("bed"), BinsNeverHide("gff"), StoredBins()]

CANARIES = [
    dict(name="bins: FIRST_SHIFT 16", props=("C16",), file="inscripta/biocantor/util/bins.py",
         old="FIRST_SHIFT = 17", new="FIRST_SHIFT = 16", case="bins[one,bed]", expect="post:value"),
    dict(name="bins: query set misses last bin", props=("C16",), file="inscripta/biocantor/util/bins.py",
         old="range(offset + start, offset + stop + 1)", new="range(offset + start, offset + stop)",
         case="bins[never-hide,bed]", expect="post:assigned-bin-in-query-set"),
]
