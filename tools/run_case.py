#!/usr/bin/env python3
"""Developer helper: run the proof (or a finite scope) of the cases of one contract module whose name contains a substring.
Usage: python3-vt tools/run_case.py <module> <substring> [scope]   (sharded cases are spread over 16 processes)"""
import importlib, json, sys, time, os
import multiprocessing as mp
sys.path.insert(0, os.path.dirname(os.path.dirname(os.path.abspath(__file__))))
from pyvc.check import sharded_map
mod, sub = sys.argv[1], sys.argv[2]
scope = int(sys.argv[3]) if len(sys.argv) > 3 else None
m = importlib.import_module("contracts." + mod)
jobs = [("contracts." + mod, c.name, 0, None, scope) for c in m.CASES if sub in c.name and c.proved]
t = time.time()
with mp.Pool(16) as pool:
    res = sharded_map(pool, jobs)
print(f"total wall {time.time()-t:.1f}s")
for r in res:
    print("==", r["case"], f"{r['seconds']}s(slowest shard) shards={r.get('shards')} paths={r['paths']} error={r['error']}")
    print("   covers", r["covers"])
    for v in r["verdicts"]:
        print("  ", v["status"], v["name"], v["paths"], v["seconds"], (v["detail"][:200] if v["status"] != "discharged" else ""),
              str(v["prims"])[:400] if v["status"] == "refuted" else "")
