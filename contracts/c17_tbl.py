"""C17 — NCBI feature-table export.  Proved: TblFeature._location_to_str lists exactly the blocks as 1-based inclusive
intervals in 5'->3' order with the partial marks on the first start / last end (1..3 blocks, all coordinates, symbolic
text model).  BOUNDED: whole files written by collection_to_tbl, read back by an independent 5-column reader."""
import io
import itertools

from pyvc.spec import *  # noqa
from pyvc.sources import NS
from .common import *  # noqa
from .gene_common import *  # noqa
from .lib import LIB  # noqa

TBL = "io.ncbi.tbl_writer."


class LocationToStr(Case):
    props = ("C17",)
    func = TBL + "TblFeature._location_to_str"
    module = "io.ncbi.tbl_writer"

    def __init__(self, n):
        self.n = n
        self.name = f"TblFeature._location_to_str[{n} blocks]"
        self.call = "MRNATblFeature._location_to_str(feat)"
        self.ensures = {"rows-5p-to-3p-one-based-with-partial-marks": lambda i, r: text_equals(r, _expected_rows(i))}

    def inputs(self, S):
        n = self.n
        starts, ends = block_lists(S, "b", n)
        strand = strand_of(S, "strand")
        loc = S.new(COMPOUND, starts, ends, strand) if n > 1 else S.new(SINGLE, starts[0], ends[0], strand)
        p5, p3 = S.bool("partial5"), S.bool("partial3")
        if S.mode == "sym":
            # the marks are produced by control flow on these flags: case split
            p5 = S.e.branch(p5)
            p3 = S.e.branch(p3)
        if S.mode == "native":
            cls = S.cls(TBL + "MRNATblFeature")
            feat = cls.__new__(cls)
            feat.location, feat.start_is_incomplete, feat.end_is_complete = loc, p5, p3
        else:
            from pyvc.values import Obj
            feat = Obj(S.e.repo.find(TBL + "MRNATblFeature"), dict(location=loc, start_is_incomplete=p5,
                                                                  end_is_complete=p3))
        plus = (strand.members[strand.idx][0] if hasattr(strand, "members") else strand.name) == "PLUS"
        return NS(feat=feat, starts=starts, ends=ends, plus=plus, p5=p5, p3=p3,
                  MRNATblFeature=S.cls(TBL + "MRNATblFeature"))

    def samples(self, rng):
        d = sample_blocks(rng, "b", self.n)
        d.update(strand=rng.choice(["PLUS", "MINUS"]), partial5=rng.random() < 0.5, partial3=rng.random() < 0.5)
        return d

    def observe(self, r):
        from .c14_bed import BedText
        return BedText.observe(self, r)


def _expected_rows(i):
    n = len(i.starts)
    pairs = [(i.starts[k] + 1, i.ends[k]) for k in range(n)]
    if not i.plus:
        pairs = [(b, a) for a, b in pairs][::-1]
    out = []
    for k, (a, b) in enumerate(pairs):
        if k:
            out.append("\n")
        if k == 0 and i.p5:
            out.append("<")
        out.append(a)
        out.append("\t")
        if k == n - 1 and i.p3:
            out.append(">")
        out.append(b)
        out.append("\t" + ("mRNA" if k == 0 else "") + "\t\t")
    return out


# ---- bounded whole-file check ---------------------------------------------------------------------------------------
GENOME = "AAATGCCCGGGTTTCATCCCTGACCCAAATGAAACCCTAGTTTGGGTTACATCATGGGAATT" * 2
COMP = {"A": "T", "C": "G", "G": "C", "T": "A"}
STOPS = {"TAA", "TAG", "TGA"}
STARTS = {"DEFAULT": {"ATG"}, "STANDARD": {"ATG", "TTG", "CTG"},
          "PROKARYOTE": {"ATG", "TTG", "CTG", "ATT", "ATC", "ATA", "GTG"}}


def read_tbl(text):
    """independent reader: [(header, [feature])], feature = dict(type, rows[(start,end)], quals[(k,v)])."""
    out = []
    cur = None
    for line in text.splitlines():
        if line.startswith(">Features "):
            out.append((line[len(">Features "):], []))
            cur = None
            continue
        cols = line.split("\t")
        if len(cols) != 5:
            raise ValueError(f"not five columns: {line!r}")
        if cols[0] != "":
            if cols[2] != "":
                cur = dict(type=cols[2], rows=[], quals=[])
                out[-1][1].append(cur)
            cur["rows"].append((cols[0], cols[1]))
        else:
            cur["quals"].append((cols[3], cols[4]))
    return out


def spliced(blocks, strand):
    s = "".join(GENOME[a:b] for a, b in blocks)
    return s if strand == "PLUS" else "".join(COMP[c] for c in reversed(s))


class TblFile(Case):
    props = ("C17",)
    proved = False
    name = "bounded: collection_to_tbl files read back by an independent reader"
    func = TBL + "collection_to_tbl"
    scope = "two collections (contigs) with 3 genes each generated from 6 exon layouts x both strands x coding with " \
            "start frame 0/1/2 or non-coding, CDS with/without start and stop codon; flavours EUKARYOTIC / PROKARYOTIC; " \
            "locus tag steps 1 and 5; seeds 0 and 7"
    call = "_export(cols, flavor, step, seed)"
    ensures = {
        "headers-name-the-sequences": lambda i, r: [h for h, _ in r[0]] == ["contigA", "contigB"],
        "reproducible-for-a-fixed-seed": lambda i, r: r[1] == r[2],
        "gene-rows-5p-to-3p": lambda i, r: all(_gene_ok(f, m) for (_h, feats), ms in zip(r[0], i.models)
                                               for f, m in zip([x for x in feats if x["type"] == "gene"], ms)),
        "locus-tags-unique-and-stepping": lambda i, r: [dict(f["quals"]).get("locus_tag") for _h, feats in r[0]
                                                        for f in feats if f["type"] == "gene"] == [
            f"LT_{(k + 1) * i.step}" for k in range(sum(len(ms) for ms in i.models))],
        "cds-rows-partials-codon-start": lambda i, r: all(
            _cds_ok(f, m, i.table) for (_h, feats), ms in zip(r[0], i.models)
            for f, m in zip([x for x in feats if x["type"] == "CDS"], [m for m in ms if m["cds"]])),
        "mrna-only-in-eukaryotic-flavour": lambda i, r: all(
            (sum(1 for x in feats if x["type"] == "mRNA") == (sum(1 for m in ms if m["cds"]) if i.flavor == "EUKARYOTIC"
                                                               else 0)) for (_h, feats), ms in zip(r[0], i.models)),
    }

    def inputs(self, S):
        from inscripta.biocantor.gene import (AnnotationCollection, GeneInterval, TranscriptInterval, CDSFrame, Biotype)
        from inscripta.biocantor.gene.cds import CDSInterval
        from inscripta.biocantor.location.strand import Strand
        from inscripta.biocantor.location.location_impl import CompoundInterval, SingleInterval
        from inscripta.biocantor.io.parser import seq_to_parent
        from inscripta.biocantor.io.ncbi.tbl_writer import collection_to_tbl, GenbankFlavor
        from inscripta.biocantor.gene.codon import TranslationTable
        cols, models = [], []
        for name, genes in zip(("contigA", "contigB"), S.const("genes")):
            parent = seq_to_parent(GENOME, seq_id=name)
            gs, ms = [], []
            for gi, entry in enumerate(genes):
                blocks, strand, cds, f0 = entry[:4]
                split = entry[4] if len(entry) > 4 else None
                blocks = [tuple(b) for b in blocks]
                kw = {}
                cb = None
                if cds is not None:
                    cb = [(max(s, cds[0]), min(e, cds[1])) for s, e in blocks if max(s, cds[0]) < min(e, cds[1])]
                    if split is not None and len(cb) == 1 and cb[0][0] < split < cb[0][1]:
                        # a single-exon transcript whose CDS is listed as two ADJACENT blocks (0 bp gap): the export
                        # must merge them like the blocks of multi-exon transcripts
                        cb = [(cb[0][0], split), (split, cb[0][1])]
                    st = Strand[strand]
                    loc = (SingleInterval(cb[0][0], cb[0][1], st) if len(cb) == 1 else
                           CompoundInterval([b[0] for b in cb], [b[1] for b in cb], st))
                    kw = dict(cds_starts=[b[0] for b in cb], cds_ends=[b[1] for b in cb],
                              cds_frames=CDSInterval.construct_frames_from_location(loc, CDSFrame(f0)))
                tx = TranscriptInterval([b[0] for b in blocks], [b[1] for b in blocks], Strand[strand],
                                        transcript_id=f"t{gi}", sequence_name=name, parent_or_seq_chunk_parent=parent,
                                        transcript_type=Biotype.protein_coding if cds else Biotype.ncRNA, **kw)
                gs.append(GeneInterval([tx], gene_id=f"g{gi}", gene_symbol=f"sym{name}{gi}", sequence_name=name,
                                       gene_type=Biotype.protein_coding if cds else Biotype.ncRNA,
                                       parent_or_seq_chunk_parent=parent))
                ms.append(dict(blocks=blocks, strand=strand, cds=cb, f0=f0))
            cols.append(AnnotationCollection(genes=gs, sequence_name=name, parent_or_seq_chunk_parent=parent))
            models.append(ms)

        def _export(cols, flavor, step, seed):
            texts = []
            for _rep in range(2):
                buf = io.StringIO()
                collection_to_tbl(cols, buf, translation_table=TranslationTable[S.const("table")],
                                  locus_tag_prefix="LT", genbank_flavor=GenbankFlavor[flavor],
                                  locus_tag_jump_size=step, random_seed=seed)
                texts.append(buf.getvalue())
            return read_tbl(texts[0]), texts[0], texts[1]

        return NS(cols=cols, models=models, flavor=S.const("flavor"), step=S.const("step"), seed=S.const("seed"),
                  table=S.const("table"), _export=_export)

    def domain(self, tier):
        layouts = [[(2, 23)], [(29, 38)], [(2, 11), (14, 23)], [(3, 12), (12, 24)], [(53, 60)], [(1, 8), (10, 20), (25, 40)]]
        genes = []
        for bl in layouts:
            for strand in ("PLUS", "MINUS"):
                genes.append([bl, strand, None, 0])
                for f0 in (0, 1, 2):
                    genes.append([bl, strand, [bl[0][0], bl[-1][1]], f0])
                genes.append([bl, strand, [bl[0][0] + 1, bl[-1][1] - 1], 0])
        for strand in ("PLUS", "MINUS"):
            genes.append([[(2, 23)], strand, [2, 23], 0, 11])
            genes.append([[(29, 38)], strand, [29, 38], 0, 32])
            genes.append([[(53, 60)], strand, [53, 60], 0, 56])
        triples = [genes[k:k + 3] for k in range(0, len(genes) - 2, 3)]
        if tier == "quick":
            triples = triples[::2] + triples[-2:]
        for a, b in zip(triples, triples[1:] + triples[:1]):
            for flavor in ("EUKARYOTIC", "PROKARYOTIC"):
                for step, seed, table in ((1, 0, "DEFAULT"), (5, 7, "PROKARYOTE")):
                    yield dict(genes=[a, b], flavor=flavor, step=step, seed=seed, table=table)


def _merge_adjacent(blocks):
    out = []
    for s, e in blocks:
        if out and out[-1][1] == s:
            out[-1] = (out[-1][0], e)
        else:
            out.append((s, e))
    return out


def _expected_pairs(blocks, strand):
    # TblGene merges blocks separated by a 0 bp gap (NCBI does not accept adjacent intervals)
    pairs = [(s + 1, e) for s, e in _merge_adjacent(blocks)]
    if strand == "MINUS":
        pairs = [(b, a) for a, b in pairs][::-1]
    return pairs


def _strip(x):
    return int(x.lstrip("<>"))


def _gene_ok(f, m):
    hull = [(m["blocks"][0][0], m["blocks"][-1][1])]
    return [(_strip(a), _strip(b)) for a, b in f["rows"]] == _expected_pairs(hull, m["strand"])


def _cds_ok(f, m, table):
    rows = f["rows"]
    if [(_strip(a), _strip(b)) for a, b in rows] != _expected_pairs(m["cds"], m["strand"]):
        return False
    seq = spliced(m["cds"], m["strand"])
    f0 = m["f0"]
    inframe = seq[f0:]
    first = inframe[:3]
    start_partial = first not in STARTS[table]
    ends_on_stop = (len(seq) - f0) % 3 == 0 and inframe[-3:] in STOPS and len(inframe) >= 3
    end_partial = not ends_on_stop
    if rows[0][0].startswith("<") != start_partial:
        return False
    if rows[-1][1].startswith(">") != end_partial:
        return False
    q = dict(f["quals"])
    return q.get("codon_start") == str(f0 + 1)


def sink_text(h):
    return "".join(h.attrs["$lines"]) if hasattr(h, "attrs") else h.getvalue()


class TblCollectionText(Case):
    """collection_to_tbl executed in the verifier on the complete domain below, the WRITTEN TEXT read back by the
    independent 5-column reader of this module: headers name the sequences in order; every gene / mRNA / CDS / RNA
    feature lists exactly the source blocks, 1-based inclusive, 5' -> 3' (adjacent CDS / exon blocks of coding
    transcripts merged, as NCBI requires); feature kinds per biotype and flavour (no mRNA rows in the prokaryotic
    flavour; rRNA / tRNA / ncRNA for the non-coding biotypes); locus tags unique and increasing by the requested step
    across collections; partial marks and codon_start of CDS rows (same oracle as the bounded file case).
    Domain: two collections of two genes each, drawn from 4 exon layouts (1 exon, 2 exons, 2 adjacent exons, 3 exons) x
    both strands x {coding with start frame 0 / 1 / 2 over a fixed genome, rRNA, tRNA, lncRNA}; both flavours; steps
    1 and 5."""
    props = ("C17",)
    func = TBL + "collection_to_tbl"
    module = "io.ncbi.tbl_writer"
    call = ("(collection_to_tbl(cols, sink, translation_table=TranslationTable[table], locus_tag_prefix='LT', "
            "genbank_flavor=GenbankFlavor[flavor], locus_tag_jump_size=step, submitter_lab_name='lab', random_seed=seed), "
            "sink)")

    def __init__(self, flavor, part):
        self.flavor, self.part = flavor, part
        self.name = f"collection_to_tbl[written text read back, {flavor}, domain part {part}]"
        P = lambda r: read_tbl(sink_text(r[1]))  # noqa
        self.ensures = {
            "headers-name-the-sequences": lambda i, r: [h for h, _ in P(r)] == ["contigA", "contigB"],
            "gene-rows-5p-to-3p": lambda i, r: all(_gene_ok(f, m) for (_h, feats), ms in zip(P(r), i.models)
                                                   for f, m in zip([x for x in feats if x["type"] == "gene"], ms)),
            "feature-kinds-per-biotype-and-flavour": lambda i, r: all(
                [x["type"] for x in feats] == [t for m in ms for t in _kinds(m, i.flavor)]
                for (_h, feats), ms in zip(P(r), i.models)),
            "transcript-rows-list-the-source-blocks": lambda i, r: all(
                _tx_ok(f, m) for (_h, feats), ms in zip(P(r), i.models)
                for f, m in zip([x for x in feats if x["type"] in ("mRNA", "rRNA", "tRNA", "ncRNA", "misc_RNA")],
                                [m for m in ms if not (m["cds"] and i.flavor == "PROKARYOTIC")])),
            "locus-tags-unique-and-stepping": lambda i, r: [dict(f["quals"]).get("locus_tag") for _h, feats in P(r)
                                                            for f in feats if f["type"] == "gene"] == [
                f"LT_{(k + 1) * i.step}" for k in range(sum(len(ms) for ms in i.models))],
            "cds-rows-partials-codon-start": lambda i, r: all(
                _cds_ok(f, m, i.table) for (_h, feats), ms in zip(P(r), i.models)
                for f, m in zip([x for x in feats if x["type"] == "CDS"], [m for m in ms if m["cds"]])),
        }

    def inputs(self, S):
        fn = S.fn("io.parser.seq_to_parent")
        cols, models = [], []
        if S.mode == "native":
            from inscripta.biocantor.gene.biotype import Biotype
            B = lambda n: Biotype[n]  # noqa
        else:
            mod = S.e.repo.module("gene.biotype")
            BT = S.e.global_value(S.e.repo.resolve_global(mod, "Biotype"), mod)
            B = lambda n: S.e.getattr(BT, n)  # noqa
        FR = lambda k: S.enum_const("gene.cds_frame.CDSFrame", ["ZERO", "ONE", "TWO"][k % 3])  # noqa
        for name, genes in zip(("contigA", "contigB"), S.const("genes")):
            parent = (fn(GENOME, seq_id=name) if S.mode == "native" else S.e.call(fn, [GENOME], {"seq_id": name}))
            gs, ms = [], []
            for gi, (blocks, strand, kind, f0) in enumerate(genes):
                blocks = [tuple(b) for b in blocks]
                st = S.enum_const("location.strand.Strand", strand)
                kw, cb = {}, None
                if kind == "coding":
                    cb = list(blocks)
                    # frames of one uninterrupted reading frame starting with frame f0 at the 5' end
                    order = cb if strand == "PLUS" else cb[::-1]
                    fr, done = [], 0
                    for s_, e_ in order:
                        fr.append(FR(f0 - done))
                        done += e_ - s_
                    if strand == "MINUS":
                        fr = fr[::-1]
                    kw = dict(cds_starts=[b[0] for b in cb], cds_ends=[b[1] for b in cb], cds_frames=fr)
                bt = B("protein_coding" if kind == "coding" else kind)
                tx = S.new("gene.transcript.TranscriptInterval", [b[0] for b in blocks], [b[1] for b in blocks], st,
                           transcript_id=f"t{gi}", sequence_name=name, parent_or_seq_chunk_parent=parent,
                           transcript_type=bt, **kw)
                gs.append(S.new("gene.gene.GeneInterval", [tx], gene_id=f"g{gi}", gene_symbol=f"sym{name}{gi}",
                                sequence_name=name, gene_type=bt, parent_or_seq_chunk_parent=parent))
                ms.append(dict(blocks=blocks, strand=strand, cds=cb, f0=f0, kind=kind))
            cols.append(S.new("gene.collections.AnnotationCollection", genes=gs, sequence_name=name,
                              parent_or_seq_chunk_parent=parent))
            models.append(ms)
        return NS(cols=cols, models=models, flavor=self.flavor, step=S.const("step"), seed=S.const("seed"),
                  table=S.const("table"), sink=S.text_sink(), collection_to_tbl=S.fn(TBL + "collection_to_tbl"),
                  GenbankFlavor=S.cls("io.genbank.constants.GenbankFlavor"), TranslationTable=S.cls("gene.codon.TranslationTable"))

    def ground(self):
        layouts = [[(2, 23)], [(2, 11), (14, 23)], [(3, 12), (12, 24)], [(1, 8), (10, 20), (25, 40)]]
        genes = []
        for bl in layouts:
            for strand in ("PLUS", "MINUS"):
                for f0 in (0, 1, 2):
                    genes.append([bl, strand, "coding", f0])
                for kind in ("rRNA", "tRNA", "lncRNA"):
                    genes.append([bl, strand, kind, 0])
        pairs = [genes[k:k + 2] for k in range(0, len(genes) - 1, 2)]
        quads = list(zip(pairs, pairs[1:] + pairs[:1]))
        for k, (a, b) in enumerate(quads):
            if k % 2 != self.part:
                continue
            step, seed, table = ((1, 0, "DEFAULT"), (5, 7, "PROKARYOTE"))[(k // 2) % 2]
            yield dict(genes=[a, b], step=step, seed=seed, table=table)

    def observe(self, r):
        import re
        # the random part of the generated protein / transcript ids is not observed (stubbed in the verifier)
        return re.sub(r"gnl\|lab\|[A-Z]{12}", "gnl|lab|*", sink_text(r[1]))


def _kinds(m, flavor):
    if m["cds"]:
        return ["gene", "CDS"] if flavor == "PROKARYOTIC" else ["gene", "mRNA", "CDS"]
    return ["gene", {"rRNA": "rRNA", "tRNA": "tRNA"}.get(m["kind"], "ncRNA")]


def _tx_ok(f, m):
    # coding transcripts: exon blocks separated by a 0 bp gap are merged (NCBI); non-coding ones list the exons as given
    blocks = _merge_adjacent(m["blocks"]) if m["cds"] else m["blocks"]
    pairs = [(s + 1, e) for s, e in blocks]
    if m["strand"] == "MINUS":
        pairs = [(b, a) for a, b in pairs][::-1]
    return [(_strip(a), _strip(b)) for a, b in f["rows"]] == pairs


class TblGeneFlags(Case):
    """TblGene on the complete domain of single-transcript coding genes (one exon with 1-base UTRs, CDS possibly listed
    as two ADJACENT blocks; start frame 0 / 1 / 2; 3 codons over {ATG, TTG, AAA, TAA}; 0-1 trailing bases; both
    strands; tables DEFAULT and PROKARYOTE), executed in the verifier: codon_start = start frame + 1, the 5' partial
    mark iff the first IN-FRAME codon is not a start codon of the table, the 3' partial mark iff the CDS does not end
    on a complete stop codon, /pseudo iff a stop codon precedes the last codon; the mRNA row carries the same marks;
    gene row without marks; rows are 1-based, 5' -> 3', adjacent CDS blocks merged."""
    props = ("C17",)
    func = TBL + "TblGene.__init__"
    module = "io.ncbi.tbl_writer"
    call = ("(lambda g: (lambda gene, mrna, cds: ("
            "cds.qualifiers['codon_start'], cds.start_is_incomplete, cds.end_is_complete, cds.is_pseudo, "
            "mrna.start_is_incomplete, mrna.end_is_complete, mrna.is_pseudo, gene.start_is_incomplete, gene.end_is_complete, "
            "cds._location_to_str(), mrna._location_to_str(), gene._location_to_str(), gene.is_pseudo))"
            "(g.gene_tbl, g.gene_tbl.children[0], g.gene_tbl.children[0].children[0]))"
            "(TblGene(gene, 'lab', 'LT_1', TranslationTable[table]))")

    def __init__(self, plus, table, split):
        self.plus, self.table, self.split = plus, table, split
        self.name = (f"TblGene[flags, codon_start and rows: {'plus' if plus else 'minus'} strand, table {table}, "
                     f"{'CDS listed as two adjacent blocks' if split else 'one CDS block'}; all frames x 3-codon sequences]")

    ensures = {
        "codon-start-is-start-frame-plus-one": lambda i, r: r[0] == [i.f + 1],
        "5p-partial-iff-first-in-frame-codon-is-no-start": lambda i, r: r[1] == (i.codons[0] not in _TSTARTS[i.table]),
        "3p-partial-iff-no-complete-stop-codon-at-the-end": lambda i, r: r[2] == (not (i.trail == 0 and i.codons[-1] == "TAA")),
        "pseudo-iff-stop-before-the-last-codon": lambda i, r: r[3] == ("TAA" in i.codons[:-1]) and r[12] == r[3],
        "mrna-carries-the-cds-marks": lambda i, r: (r[4], r[5], r[6]) == (r[1], r[2], r[3]),
        "gene-row-without-marks": lambda i, r: (r[7], r[8]) == (False, False),
        "rows-one-based-5p-to-3p-adjacent-blocks-merged": lambda i, r: (
            _rows(r[9]) == _pair(i.cs, i.ce, i.plus) and _rows(r[10]) == _pair(i.cs - 1, i.ce + 1, i.plus)
            and _rows(r[11]) == _pair(i.cs - 1, i.ce + 1, i.plus)),
    }

    def inputs(self, S):
        codons = list(S.const("codons"))
        plus, f, trail, table, split = S.const("plus"), S.const("frame"), S.const("trail"), S.const("table"), S.const("split")
        text = "G" * f + "".join(codons) + "C" * trail
        if not plus:
            text = "".join({"A": "T", "C": "G", "G": "C", "T": "A"}[ch] for ch in reversed(text))
        genome = "CCC" + text + "GGG"
        cs, ce = 3, 3 + len(text)
        fn = S.fn("io.parser.seq_to_parent")
        par = fn(genome, seq_id="chr1") if S.mode == "native" else S.e.call(fn, [genome], {"seq_id": "chr1"})
        strand = S.enum_const("location.strand.Strand", "PLUS" if plus else "MINUS")
        F = lambda k: S.enum_const("gene.cds_frame.CDSFrame", ["ZERO", "ONE", "TWO"][k % 3])  # noqa
        if split:
            cut = cs + 4
            cds_starts, cds_ends = [cs, cut], [cut, ce]
            # frames of the two blocks in coordinate order for one uninterrupted reading frame starting with frame f
            if plus:
                frames = [F(f), F(f - (cut - cs))]
            else:
                frames = [F(f - (ce - cut)), F(f)]
        else:
            cds_starts, cds_ends, frames = [cs], [ce], [F(f)]
        if S.mode == "native":
            from inscripta.biocantor.gene.biotype import Biotype
            PC = Biotype["protein_coding"]
        else:
            mod = S.e.repo.module("gene.biotype")
            PC = S.e.getattr(S.e.global_value(S.e.repo.resolve_global(mod, "Biotype"), mod), "protein_coding")
        tx = S.new("gene.transcript.TranscriptInterval", [cs - 1], [ce + 1], strand, cds_starts=cds_starts,
                   cds_ends=cds_ends, cds_frames=frames, transcript_id="t1", transcript_type=PC,
                   parent_or_seq_chunk_parent=par)
        gene = S.new("gene.gene.GeneInterval", [tx], gene_id="g1", gene_symbol="sym", gene_type=PC,
                     parent_or_seq_chunk_parent=par)
        return NS(gene=gene, codons=codons, f=f, trail=trail, table=table, plus=plus, cs=cs, ce=ce,
                  TblGene=S.cls(TBL + "TblGene"), TranslationTable=S.cls("gene.codon.TranslationTable"))

    def ground(self):
        import itertools
        for cs in itertools.product(("ATG", "TTG", "AAA", "TAA"), repeat=3):
            for f in (0, 1, 2):
                for trail in (0, 1):
                    yield dict(codons=list(cs), plus=self.plus, frame=f, trail=trail, table=self.table, split=self.split)

    def observe(self, r):
        return [list(r[0])] + [x for x in r[1:]]


_TSTARTS = {"DEFAULT": {"ATG"}, "PROKARYOTE": {"ATG", "TTG", "GTG", "CTG", "ATT", "ATC", "ATA"}}


def _rows(text):
    return [tuple(int(x.lstrip("<>")) for x in line.split("\t")[:2]) for line in str(text).split("\n") if line.strip()]


def _pair(s, e, plus):
    return [(s + 1, e)] if plus else [(e, s + 1)]


CASES = [*[TblCollectionText(fl, part) for fl in ('EUKARYOTIC', 'PROKARYOTIC') for part in (0, 1)],
         TblGeneFlags(True, 'DEFAULT', False), TblGeneFlags(False, 'PROKARYOTE', True), TblGeneFlags(False, 'DEFAULT', False),
         TblGeneFlags(True, 'PROKARYOTE', True), LocationToStr(1), LocationToStr(2), LocationToStr(3), TblFile()]

CANARIES = [
    dict(name="tbl: 3' partial mark needs both conditions", props=("C17",), file="inscripta/biocantor/io/ncbi/tbl_writer.py",
         old="!= (codon_start - 1) or not transcript.cds.has_valid_stop",
         new="!= (codon_start - 1) and not transcript.cds.has_valid_stop",
         case=TblGeneFlags(True, 'DEFAULT', False).name, expect="post:3p-partial-iff-no-complete-stop-codon-at-the-end"),
    dict(name="tbl: pseudo flag only looks at the first transcript's first codon", props=("C17",),
         file="inscripta/biocantor/io/ncbi/tbl_writer.py",
         old="is_pseudo = any(tx.has_in_frame_stop for tx in gene.transcripts)",
         new="is_pseudo = any(tx.has_in_frame_stop and False for tx in gene.transcripts)",
         case=TblGeneFlags(False, 'PROKARYOTE', True).name, expect="post:pseudo-iff-stop-before-the-last-codon"),
]
