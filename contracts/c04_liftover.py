"""C04 / C07 — lift-over between chromosome and sequence-chunk coordinates (single-block locations; the hierarchy is
built by the real io.parser.seq_chunk_to_parent / seq_to_parent in both modes)."""
from pyvc.spec import *  # noqa
from pyvc.sources import NS
from .common import *  # noqa
from .lib import LIB  # noqa

AI = "gene.interval.AbstractInterval"


def chunk_parent(S, name="chunk"):
    """seq_chunk_to_parent(<text of length ce-cs>, "chr1", cs, ce): returns (parent, cs, ce)."""
    cs, ce = S.int(name + "_start"), S.int(name + "_end")
    text = S.symstr(name + "_seq")
    S.assume(And(0 <= cs, cs <= ce, slen(text) == ce - cs))
    f = S.fn("io.parser.seq_chunk_to_parent")
    if S.mode == "native":
        return f(text, "chr1", cs, ce), cs, ce
    return S.e.call(f, [text, "chr1", cs, ce], {}), cs, ce


def chunk_parent_stranded(S, name="chunk"):
    """seq_chunk_to_parent(text, "chr1", cs, ce, strand): a chunk that may sit on the MINUS strand of the chromosome
    (its text is then the reverse complement of the chromosome stretch; chunk position x is chromosome position
    ce-1-x and strands flip).  Returns (parent, cs, ce, minus) with ``minus`` a Python bool (case split)."""
    cs, ce = S.int(name + "_start"), S.int(name + "_end")
    text = S.symstr(name + "_seq")
    st = S.enum(STRAND, name + "_strand")
    S.assume(And(0 <= cs, cs <= ce, slen(text) == ce - cs, Not(is_unstranded(st))))
    if S.mode == "sym":
        st = S.e.enum_concretize(st)
    minus = (st.members[st.idx][0] if hasattr(st, "members") else st.name) == "MINUS"
    f = S.fn("io.parser.seq_chunk_to_parent")
    if S.mode == "native":
        return f(text, "chr1", cs, ce, st), cs, ce, minus
    return S.e.call(f, [text, "chr1", cs, ce, st], {}), cs, ce, minus


def sample_chunk(rng, name="chunk", lo=0, hi=14):
    cs = rng.randint(lo, hi)
    ce = cs + rng.randint(0, 10)
    return {name + "_start": cs, name + "_end": ce, name + "_seq": "".join(rng.choice("ACGT") for _ in range(ce - cs))}


class LiftToChunk(Case):
    props = ("C04", "C07")
    name = "AbstractInterval.liftover_location_to_seq_chunk_parent[single block -> sequence chunk]"
    func = AI + ".liftover_location_to_seq_chunk_parent"
    module = "gene.interval"
    call = "AbstractInterval.liftover_location_to_seq_chunk_parent(loc, chunk)"
    # a zero-length chunk carries no usable sequence: the documented NullSequenceException (truthiness of Sequence is
    # its length)
    raises = {"NullSequenceException": lambda i: i.cs == i.ce}
    ensures = {
        "empty-iff-no-base-in-chunk": lambda i, r: Iff(class_name(r) == "_EmptyLocation",
                                                       Not(Max(i.s, i.cs) < Min(i.e, i.ce))),
        "restriction-shifted-into-chunk-coordinates": lambda i, r: class_name(r) == "_EmptyLocation" or And(
            class_name(r) == "SingleInterval", r.start == Max(i.s, i.cs) - i.cs, r.end == Min(i.e, i.ce) - i.cs),
        "strand-kept": lambda i, r: class_name(r) == "_EmptyLocation" or (
            enum_eq(r.strand, i.loc.strand) if hasattr(r.strand, "idx") else r.strand is i.loc.strand),
        "placed-on-the-chunk": lambda i, r: class_name(r) == "_EmptyLocation" or And(
            r.parent is not None, r.parent.sequence is i.chunk.sequence),
    }

    def inputs(self, S):
        loc = single(S, "loc")
        chunk, cs, ce = chunk_parent(S)
        return NS(loc=loc, chunk=chunk, s=loc.start, e=loc.end, cs=cs, ce=ce)

    def samples(self, rng):
        s = rng.randint(0, 16)
        d = dict(loc_start=s, loc_end=s + rng.randint(0, 8), loc_strand=rng.choice(["PLUS", "MINUS", "UNSTRANDED"]))
        d.update(sample_chunk(rng))
        return d

    def observe(self, r):
        from .c02_single import obs_loc
        o = obs_loc(r)
        return o[:3]


def _flip(strand_val):
    """strand of a location seen from a MINUS chunk."""
    return strand_val


def _same_strand(r, strand, flipped):
    """r.strand equals ``strand`` (flipped: its reverse; UNSTRANDED is its own reverse)."""
    if hasattr(r.strand, "idx"):
        v = enum_value(r.strand)
        w = enum_value(strand)
    else:
        v, w = r.strand.value, strand.value
    return v == (-w if flipped else w)


class LiftToStrandedChunk(Case):
    """chromosome location -> chunk that may lie on the MINUS strand: restriction to the chunk, mirrored
    (x -> ce-1-x) and strand-reversed when the chunk is reverse-complemented."""
    props = ("C04", "C07")
    name = "AbstractInterval.liftover_location_to_seq_chunk_parent[single block -> chunk on either strand]"
    func = AI + ".liftover_location_to_seq_chunk_parent"
    module = "gene.interval"
    call = ("(lambda r: (r, r.lift_over_to_first_ancestor_of_type(SequenceType.CHROMOSOME) "
            "if r is not EmptyLocation() else None))"
            "(AbstractInterval.liftover_location_to_seq_chunk_parent(loc, chunk))")
    raises = {"NullSequenceException": lambda i: i.cs == i.ce}
    ensures = {
        "empty-iff-no-base-in-chunk": lambda i, r: Iff(class_name(r[0]) == "_EmptyLocation",
                                                       Not(Max(i.s, i.cs) < Min(i.e, i.ce))),
        "restriction-in-chunk-coordinates": lambda i, r: class_name(r[0]) == "_EmptyLocation" or And(
            class_name(r[0]) == "SingleInterval",
            r[0].start == (i.ce - Min(i.e, i.ce) if i.minus else Max(i.s, i.cs) - i.cs),
            r[0].end == (i.ce - Max(i.s, i.cs) if i.minus else Min(i.e, i.ce) - i.cs)),
        "strand-composed-with-the-chunk-strand": lambda i, r: class_name(r[0]) == "_EmptyLocation" or _same_strand(
            r[0], i.loc.strand, i.minus),
        "round-trip-is-the-restriction": lambda i, r: class_name(r[0]) == "_EmptyLocation" or And(
            class_name(r[1]) == "SingleInterval", r[1].start == Max(i.s, i.cs), r[1].end == Min(i.e, i.ce),
            _same_strand(r[1], i.loc.strand, False)),
    }

    def inputs(self, S):
        loc = single(S, "loc")
        chunk, cs, ce, minus = chunk_parent_stranded(S)
        return NS(loc=loc, chunk=chunk, s=loc.start, e=loc.end, cs=cs, ce=ce, minus=minus,
                  EmptyLocation=S.fn("location.location_impl.EmptyLocation"))

    def samples(self, rng):
        s = rng.randint(0, 16)
        d = dict(loc_start=s, loc_end=s + rng.randint(0, 8), loc_strand=rng.choice(["PLUS", "MINUS", "UNSTRANDED"]))
        d.update(sample_chunk(rng))
        d["chunk_strand"] = rng.choice(["PLUS", "MINUS"])
        return d

    def observe(self, r):
        from .c02_single import obs_loc
        return [obs_loc(r[0])[:3], obs_loc(r[1])[:3] if r[1] is not None else None]


class LiftStrandedChunkToChunk(Case):
    """a location on chunk A, lifted onto chunk B covering the same chromosome (either strand each): always through
    chromosome coordinates - the result is the part of the ORIGINAL chromosome location inside both chunks, expressed
    in B's coordinates and strand (in particular for two chunks with the SAME id 'chr1:cs-ce' but opposite strands)."""
    props = ("C04", "C07")
    name = "AbstractInterval.liftover_location_to_seq_chunk_parent[chunk A -> chunk B, either strand each]"
    func = AI + ".liftover_location_to_seq_chunk_parent"
    module = "gene.interval"
    call = ("AbstractInterval.liftover_location_to_seq_chunk_parent("
            "AbstractInterval.liftover_location_to_seq_chunk_parent(loc, chunk_a), chunk_b)")
    ensures = {
        "restriction-to-both-chunks-in-B-coordinates": lambda i, r: If(
            i.lo < i.hi,
            And(class_name(r) == "SingleInterval",
                r.start == (i.be - i.hi if i.bminus else i.lo - i.bs),
                r.end == (i.be - i.lo if i.bminus else i.hi - i.bs),
                _same_strand(r, i.loc.strand, i.bminus)) if class_name(r) == "SingleInterval" else False,
            class_name(r) == "_EmptyLocation"),
    }

    def inputs(self, S):
        loc = single(S, "loc", directed=False)
        a, as_, ae, aminus = chunk_parent_stranded(S, "a")
        b, bs, be, bminus = chunk_parent_stranded(S, "b")
        S.assume(And(as_ < ae, bs < be))
        S.assume(Max(loc.start, as_) < Min(loc.end, ae))  # the location has a base on chunk A
        lo, hi = Max(Max(loc.start, as_), bs), Min(Min(loc.end, ae), be)
        return NS(loc=loc, chunk_a=a, chunk_b=b, lo=lo, hi=hi, bs=bs, be=be, bminus=bminus)

    def samples(self, rng):
        d = sample_chunk(rng, "a")
        if rng.random() < 0.5:
            d.update({"b_start": d["a_start"], "b_end": d["a_end"], "b_seq": d["a_seq"]})
        else:
            d.update(sample_chunk(rng, "b"))
        s = rng.randint(0, 16)
        d.update(loc_start=s, loc_end=s + rng.randint(1, 8), loc_strand=rng.choice(["PLUS", "MINUS"]),
                 a_strand=rng.choice(["PLUS", "MINUS"]), b_strand=rng.choice(["PLUS", "MINUS"]))
        return d

    def observe(self, r):
        from .c02_single import obs_loc
        return obs_loc(r)[:3]


class FromChunkRelativeLocation(Case):
    """The alternative constructors X.from_chunk_relative_location(loc): an interval described by its CHUNK-relative
    location (chunk of either strand) is the interval whose chromosome location is the lift of that location - same
    blocks, and the CHROMOSOME strand (on a reverse-strand chunk the chunk-relative strand is the flipped one); its own
    chunk-relative location is the location it was built from."""
    props = ("C04", "C07", "C06", "C14", "C11", "C05")

    def __init__(self, kind, n):
        self.kind, self.n = kind, n
        cls = {"feature": "gene.feature.FeatureInterval", "transcript": "gene.transcript.TranscriptInterval",
               "cds": "gene.cds.CDSInterval"}[kind]
        self.cls = cls
        self.func = cls + ".from_chunk_relative_location"
        self.module = cls.rsplit(".", 1)[0]
        cname = cls.split(".")[-1]
        self.name = f"{cname}.from_chunk_relative_location[{n} block(s), chunk of either strand]"
        extra = ", cds_frames=frames" if kind == "cds" else ""
        self.call = (f"(lambda y: (y.chromosome_location, y.strand, y.chunk_relative_location, y.start, y.end, "
                     f"y._genomic_starts, y._genomic_ends))"
                     f"({cname}.from_chunk_relative_location(x.chunk_relative_location{extra}))")
        self.ensures = {
            # the stored block lists are in CHROMOSOME order (ascending) whatever the strand of the chunk, and start /
            # end are the chromosome bounds (exports, dictionaries and identifiers read these lists)
            "stored-lists-ascending-and-bounds": lambda i, r: And(
                len(r[5]) == len(i.blocks), r[3] == i.blocks[0][0], r[4] == i.blocks[-1][1],
                *[And(r[5][k] == i.blocks[k][0], r[6][k] == i.blocks[k][1]) for k in range(len(i.blocks))]),
            "chromosome-blocks-are-the-lift": lambda i, r: And(
                len(_bl(r[0])) == len(i.blocks), *[And(a[0] == b[0], a[1] == b[1]) for a, b in zip(_bl(r[0]), i.blocks)]),
            "chromosome-strand": lambda i, r: _same_strand_val(r[1], i.strand),
            "chunk-relative-location-is-the-argument": lambda i, r: And(
                len(_bl(r[2])) == len(_bl(i.arg)), *[And(a[0] == b[0], a[1] == b[1]) for a, b in zip(_bl(r[2]), _bl(i.arg))],
                _same_strand_val(r[2].strand, i.arg.strand)),
        }

    def inputs(self, S):
        from .gene_common import block_lists, strand_of, FRAME
        # blocks separated by at least one base: the lift to the chromosome goes through a union that fuses ADJACENT
        # blocks (same bases, fewer blocks), which the properties do not forbid
        starts, ends = block_lists(S, "x", self.n, allow_adjacent=False)
        strand = strand_of(S, "strand")
        cp, cs, ce, minus = chunk_parent_stranded(S)
        S.assume(And(cs <= starts[0], ends[-1] <= ce))
        zero = S.enum_const(FRAME, "ZERO")
        if self.kind == "cds":
            x = S.new(self.cls, starts, ends, strand, [zero] * self.n, parent_or_seq_chunk_parent=cp)
        else:
            x = S.new(self.cls, starts, ends, strand, parent_or_seq_chunk_parent=cp)
        arg = x.chunk_relative_location if S.mode == "native" else S.e.getattr(x, "chunk_relative_location")
        ns = NS(x=x, strand=strand, blocks=list(zip(starts, ends)), arg=arg, frames=[zero] * self.n)
        ns.__dict__[self.cls.split(".")[-1]] = S.cls(self.cls)
        return ns

    def samples(self, rng):
        from .gene_common import sample_blocks
        d = sample_blocks(rng, "x", self.n, lo=2, gap=(1, 2, 3))
        cs = rng.randint(0, d["x_starts"][0])
        ce = d["x_ends"][-1] + rng.randint(0, 3)
        d.update(strand=rng.choice(["PLUS", "MINUS"]), chunk_start=cs, chunk_end=ce, chunk_strand=rng.choice(["PLUS", "MINUS"]),
                 chunk_seq="".join(rng.choice("ACGT") for _ in range(ce - cs)))
        return d

    def observe(self, r):
        from .c02_single import obs_loc
        from pyvc.check import default_observe as o
        return [obs_loc(r[0])[:3], o(r[1]), obs_loc(r[2])[:3], o(r[3]), o(r[4]), [o(x) for x in r[5]], [o(x) for x in r[6]]]


def _bl(loc):
    from .c02_single import blocks_of
    return blocks_of(loc)


def _same_strand_val(a, b):
    va = enum_value(a) if hasattr(a, "idx") else a.value
    vb = enum_value(b) if hasattr(b, "idx") else b.value
    return va == vb


class CodingTranscriptFromChunk(Case):
    """TranscriptInterval.from_chunk_relative_location(location, cds=<CDS on the chunk>): the rebuilt transcript has the
    source CDS - its chromosome blocks and its CHROMOSOME-level frames, exactly as given (also frames that record a
    frameshift, also on a reverse-strand chunk, where the chunk-relative frame list runs the other way)."""
    props = ("C07", "C04", "C05", "C06")
    func = "gene.transcript.TranscriptInterval.from_chunk_relative_location"
    module = "gene.transcript"
    shard_depth = 5
    name = "TranscriptInterval.from_chunk_relative_location[2 exons, CDS with any frames, chunk of either strand]"
    call = ("(lambda y: ([f.name for f in y.cds.frames], y.cds.chromosome_location, y.chromosome_location, y.strand))"
            "(TranscriptInterval.from_chunk_relative_location(x.chunk_relative_location, cds=x.cds))")
    ensures = {
        "cds-frames-are-the-chromosome-level-frames-as-given": lambda i, r: list(r[0]) == list(i.fnames),
        "cds-and-exon-blocks-are-the-lift": lambda i, r: And(
            len(_bl(r[1])) == 2, len(_bl(r[2])) == 2,
            *[And(a[0] == b[0], a[1] == b[1]) for a, b in zip(_bl(r[1]), i.blocks)],
            *[And(a[0] == b[0], a[1] == b[1]) for a, b in zip(_bl(r[2]), i.blocks)]),
        "chromosome-strand": lambda i, r: _same_strand_val(r[3], i.strand),
    }

    def inputs(self, S):
        from .gene_common import block_lists, strand_of, FRAME
        starts, ends = block_lists(S, "x", 2, allow_adjacent=False)
        strand = strand_of(S, "strand")
        cp, cs, ce, minus = chunk_parent_stranded(S)
        S.assume(And(cs <= starts[0], ends[-1] <= ce))
        frames = []
        for k in range(2):
            f = S.enum(FRAME, f"f{k}")
            S.assume(Not(enum_name_is(f, "NONE")))
            if S.mode == "sym":
                f = S.e.enum_concretize(f)
            frames.append(f)
        x = S.new("gene.transcript.TranscriptInterval", starts, ends, strand, cds_starts=starts, cds_ends=ends,
                  cds_frames=frames, parent_or_seq_chunk_parent=cp)
        fnames = [(f.members[f.idx][0] if hasattr(f, "members") else f.name) for f in frames]
        return NS(x=x, strand=strand, blocks=list(zip(starts, ends)), fnames=fnames,
                  TranscriptInterval=S.cls("gene.transcript.TranscriptInterval"))

    def samples(self, rng):
        from .gene_common import sample_blocks
        d = sample_blocks(rng, "x", 2, lo=2, gap=(1, 2, 3), length=(3, 4, 5, 7))
        cs = rng.randint(0, d["x_starts"][0])
        ce = d["x_ends"][-1] + rng.randint(0, 3)
        d.update(strand=rng.choice(["PLUS", "MINUS"]), chunk_start=cs, chunk_end=ce, chunk_strand=rng.choice(["PLUS", "MINUS"]),
                 chunk_seq="".join(rng.choice("ACGT") for _ in range(ce - cs)),
                 f0=rng.choice(["ZERO", "ONE", "TWO"]), f1=rng.choice(["ZERO", "ONE", "TWO"]))
        return d

    def observe(self, r):
        from .c02_single import obs_loc
        from pyvc.check import default_observe as o
        return [list(r[0]), obs_loc(r[1])[:3], obs_loc(r[2])[:3], o(r[3])]


class LiftThroughNamedPlacements(Case):
    """Three nested coordinate systems (chromosome with sequence <- contig WITHOUT sequence <- transcript), each lower
    level placed by a location that NAMES the system it lies on (the seq_chunk_to_parent idiom): a child on the lowest
    level lifts to the contig (offset of the transcript placement) and on to the chromosome (both offsets) - the chain
    above an intermediate level is never lost."""
    props = ("C04", "C19")
    func = "location.location.Location.lift_over_to_first_ancestor_of_type"
    module = "gene.interval"
    name = "lift through three levels placed by locations that name their coordinate system[all PLUS, symbolic offsets]"
    call = ("(lambda c, t, s: (c.start, c.end, t.start, t.end, t.parent.id, s.start, s.end))"
            "(child.lift_over_to_first_ancestor_of_type('contig'), child.lift_over_to_first_ancestor_of_type('chromosome'),"
            " child.lift_over_to_sequence(top_seq))")
    ensures = {
        "contig-coordinates": lambda i, r: And(r[0] == i.q0 + i.a, r[1] == i.q0 + i.b),
        "chromosome-coordinates": lambda i, r: And(r[2] == i.p0 + i.q0 + i.a, r[3] == i.p0 + i.q0 + i.b, r[4] == "chromosome"),
        # lifting by sequence IDENTITY (lift_over_to_sequence) composes the same two placements
        "by-sequence-identity": lambda i, r: And(r[5] == i.p0 + i.q0 + i.a, r[6] == i.p0 + i.q0 + i.b),
    }

    def inputs(self, S):
        p0, p1, q0, q1, a, b = (S.int(n) for n in ("p0", "p1", "q0", "q1", "a", "b"))
        text = S.symstr("seq")
        S.assume(And(0 <= p0, p0 < p1, p1 <= slen(text), 0 <= q0, q0 < q1, q1 <= p1 - p0, 0 <= a, a < b, b <= q1 - q0))
        plus = S.enum_const(STRAND, "PLUS")
        top_seq = S.new(SEQUENCE, text, S.enum_const(ALPHABET, "NT_STRICT"), id="chromosome", type="chromosome",
                        validate_alphabet=False)
        placement1 = S.new(SINGLE, p0, p1, plus, parent=S.new(PARENT, id="chromosome", sequence_type="chromosome"))
        upper1 = S.new(PARENT, location=placement1, sequence=top_seq)
        placement2 = S.new(SINGLE, q0, q1, plus, parent=S.new(PARENT, id="contig", sequence_type="contig"))
        upper2 = S.new(PARENT, location=placement2, parent=upper1)
        level2 = S.new(PARENT, id="transcript", sequence_type="transcript", parent=upper2)
        child = S.new(SINGLE, a, b, plus, parent=level2)
        return NS(child=child, p0=p0, q0=q0, a=a, b=b, top_seq=top_seq)

    def samples(self, rng):
        p0 = rng.randint(0, 5)
        q0 = rng.randint(0, 4)
        a = rng.randint(0, 3)
        b = a + rng.randint(1, 4)
        q1 = q0 + b + rng.randint(0, 3)
        p1 = p0 + q1 + rng.randint(0, 3)
        return dict(p0=p0, p1=p1, q0=q0, q1=q1, a=a, b=b, seq="".join(rng.choice("ACGT") for _ in range(p1 + rng.randint(0, 3))))


class FromLocationRefusesChunkAncestry(Case):
    """X.from_location(loc) takes chromosome coordinates: a location with a sequence chunk ANYWHERE in its ancestry -
    directly on the chunk, or on a sub-region that is itself placed on the chunk - is refused with the documented
    NoSuchAncestorException (from_chunk_relative_location is the constructor for it), never read as chromosome
    coordinates."""
    props = ("C04", "C19", "C07")
    module = "gene.feature"

    def __init__(self, kind, depth):
        self.kind, self.depth = kind, depth
        cls = {"feature": "gene.feature.FeatureInterval", "transcript": "gene.transcript.TranscriptInterval"}[kind]
        cname = cls.split(".")[-1]
        self.func = cls + ".from_location"
        self.name = (f"{cname}.from_location[location {'directly on a sequence chunk' if depth == 1 else 'on a sub-region placed on a sequence chunk'}]"
                     ": refused")
        self.call = f"{cname}.from_location(loc) is not None"
        self.raises = {"NoSuchAncestorException": lambda i: True}
        self.ensures = {}

    def inputs(self, S):
        cp, cs, ce = chunk_parent(S)
        a, b = S.int("a"), S.int("b")
        plus = S.enum_const(STRAND, "PLUS")
        if self.depth == 1:
            S.assume(And(0 <= a, a < b, b <= ce - cs))
            loc = S.new(SINGLE, a, b, plus, parent=cp)
        else:
            p0, p1 = S.int("p0"), S.int("p1")
            S.assume(And(0 <= p0, p0 < p1, p1 <= ce - cs, 0 <= a, a < b, b <= p1 - p0))
            chunk_seq = cp.sequence if S.mode == "native" else S.e.getattr(cp, "sequence")
            sub = S.new(PARENT, id="sub", sequence_type="subregion",
                        parent=S.new(PARENT, location=S.new(SINGLE, p0, p1, plus), sequence=chunk_seq))
            loc = S.new(SINGLE, a, b, plus, parent=sub)
        ns = NS(loc=loc)
        for q in ("gene.feature.FeatureInterval", "gene.transcript.TranscriptInterval"):
            ns.__dict__[q.split(".")[-1]] = S.cls(q)
        return ns

    def samples(self, rng):
        d = sample_chunk(rng)
        n = d["chunk_end"] - d["chunk_start"]
        if n < 4:
            d["chunk_end"] += 4
            d["chunk_seq"] += "ACGT"
            n += 4
        p0 = rng.randint(0, n - 3)
        p1 = rng.randint(p0 + 2, n)
        a = rng.randint(0, p1 - p0 - 1)
        d.update(p0=p0, p1=p1, a=a, b=rng.randint(a + 1, p1 - p0))
        return d


class ChunkInsideIntron(Case):
    """an interval with NO base in the chunk - here a two-block Feature / Transcript / CDS built on a chunk (either
    strand) that lies inside its intron, or entirely beside it - 'is empty rather than an error' (C07): construction
    succeeds, the chunk-relative location is the EmptyLocation, and the chromosome-level answers are unchanged."""
    props = ("C07", "C04", "C19")

    def __init__(self, kind):
        self.kind = kind
        cls = {"feature": "gene.feature.FeatureInterval", "transcript": "gene.transcript.TranscriptInterval",
               "cds": "gene.cds.CDSInterval"}[kind]
        self.cls = cls
        self.func = "gene.interval.AbstractInterval.initialize_location"
        self.module = cls.rsplit(".", 1)[0]
        self.name = f"{cls.split('.')[-1]}[2 blocks] built on a chunk holding none of its bases: empty, not an error"
        cname = cls.split(".")[-1]
        ctor = (f"{cname}(starts, ends, strand, frames, parent_or_seq_chunk_parent=cp)" if kind == "cds"
                else f"{cname}(starts, ends, strand, parent_or_seq_chunk_parent=cp)")
        # the CONSTRUCTION is part of the call under contract (a constructor that refuses such a chunk is the violation)
        self.call = ("(lambda x: (x.chunk_relative_location, x.chromosome_location, x.start, x.end, x.is_chunk_relative))"
                     f"({ctor})")
        self.ensures = {
            "chunk-relative-location-is-empty": lambda i, r: class_name(r[0]) == "_EmptyLocation",
            "chromosome-level-answers-unchanged": lambda i, r: And(
                len(_bl(r[1])) == 2, *[And(a[0] == b[0], a[1] == b[1]) for a, b in zip(_bl(r[1]), i.blocks)],
                r[2] == i.blocks[0][0], r[3] == i.blocks[1][1]),
        }

    def inputs(self, S):
        from .gene_common import block_lists, strand_of, FRAME
        starts, ends = block_lists(S, "x", 2, allow_adjacent=False)
        strand = strand_of(S, "strand")
        cp, cs, ce, minus = chunk_parent_stranded(S)
        S.assume(cs < ce)
        # no base of either block on the chunk: inside the intron, or left / right of the whole interval
        S.assume(And(Not(Max(starts[0], cs) < Min(ends[0], ce)), Not(Max(starts[1], cs) < Min(ends[1], ce))))
        zero = S.enum_const(FRAME, "ZERO")
        ns = NS(starts=starts, ends=ends, strand=strand, frames=[zero, zero], cp=cp, blocks=list(zip(starts, ends)))
        ns.__dict__[self.cls.split(".")[-1]] = S.cls(self.cls)
        return ns

    def samples(self, rng):
        a = rng.randint(2, 6)
        b = a + rng.randint(1, 4)
        c = b + rng.randint(3, 8)
        d = c + rng.randint(1, 4)
        where = rng.choice(["intron", "left", "right"])
        if where == "intron":
            cs = rng.randint(b, c - 1)
            ce = rng.randint(cs + 1, c)
        elif where == "left":
            cs = rng.randint(0, a - 1)
            ce = rng.randint(cs + 1, a)
        else:
            cs = d + rng.randint(0, 2)
            ce = cs + rng.randint(1, 4)
        return dict(x_starts=[a, c], x_ends=[b, d], strand=rng.choice(["PLUS", "MINUS"]), chunk_start=cs, chunk_end=ce,
                    chunk_strand=rng.choice(["PLUS", "MINUS"]), chunk_seq="".join(rng.choice("ACGT") for _ in range(ce - cs)))

    def observe(self, r):
        from .c02_single import obs_loc
        from pyvc.check import default_observe as o
        return [obs_loc(r[0])[:1], obs_loc(r[1])[:3], o(r[2]), o(r[3]), o(r[4])]


class LiftCompoundToChunk(Case):
    """a MULTI-block chromosome location (blocks may be adjacent or zero-length) lifted onto a sequence chunk of either
    strand: exactly the bases inside the chunk, in chunk coordinates (mirrored on a MINUS chunk); EmptyLocation iff no
    base lies in the chunk; lifting back gives the restriction."""
    props = ("C04", "C07")
    func = AI + ".liftover_location_to_seq_chunk_parent"
    module = "gene.interval"
    shard_depth = 4

    def __init__(self, n, overlap=False):
        self.n, self.overlap = n, overlap
        self.tier = "thorough" if n >= 3 else "quick"
        self.name = (f"AbstractInterval.liftover_location_to_seq_chunk_parent[{n} blocks "
                     f"{'that may overlap or nest' if overlap else 'incl. zero-length'} -> chunk of either strand]")
        self.call = ("(lambda r: (r, r.lift_over_to_first_ancestor_of_type(SequenceType.CHROMOSOME) "
                     "if r is not EmptyLocation() else None))"
                     "(AbstractInterval.liftover_location_to_seq_chunk_parent(loc, chunk))")
        self.ensures = {
            "empty-iff-no-base-in-chunk": lambda i, r: Iff(class_name(r[0]) == "_EmptyLocation", Not(_any_in_chunk(i))),
            "exactly-the-bases-inside-the-chunk": lambda i, r: class_name(r[0]) == "_EmptyLocation" or Iff(
                _cov(r[0], i.x), Or(*[And(Max(s, i.cs) <= _chrom_of(i, i.x), _chrom_of(i, i.x) < Min(e, i.ce))
                                      for s, e in zip(i.starts, i.ends)])),
            "lifting-back-gives-the-restriction": lambda i, r: r[1] is None or Iff(
                _cov(r[1], i.p), Or(*[And(Max(s, i.cs) <= i.p, i.p < Min(e, i.ce)) for s, e in zip(i.starts, i.ends)])),
        }

    def inputs(self, S):
        from .gene_common import block_lists, strand_of
        starts, ends = block_lists(S, "loc", self.n, nonempty=not self.overlap, allow_overlap=self.overlap)
        strand = strand_of(S, "strand")
        loc = S.new(COMPOUND, starts, ends, strand)
        chunk, cs, ce, minus = chunk_parent_stranded(S)
        S.assume(cs < ce)
        return NS(loc=loc, chunk=chunk, starts=starts, ends=ends, cs=cs, ce=ce, minus=minus, x=S.int("x"), p=S.int("p"),
                  EmptyLocation=S.fn("location.location_impl.EmptyLocation"))

    def samples(self, rng):
        from .gene_common import sample_blocks
        d = sample_blocks(rng, "loc", self.n, length=(0, 1, 2, 4), gap=(0, 1, 3))
        if self.overlap:
            bl = sorted((lambda a: (a, a + rng.randint(1, 5)))(rng.randint(0, 8)) for _ in range(self.n))
            d = {"loc_starts": [b[0] for b in bl], "loc_ends": [b[1] for b in bl]}
        d.update(sample_chunk(rng))
        if d["chunk_end"] == d["chunk_start"]:
            d["chunk_end"] += 1
            d["chunk_seq"] = "A"
        d.update(strand=rng.choice(["PLUS", "MINUS"]), chunk_strand=rng.choice(["PLUS", "MINUS"]), x=rng.randint(0, 12),
                 p=rng.randint(0, 20))
        return d

    def observe(self, r):
        from .c02_single import obs_loc
        return [obs_loc(r[0])[:3], obs_loc(r[1])[:3] if r[1] is not None else None]


def _any_in_chunk(i):
    return Or(*[Max(s, i.cs) < Min(e, i.ce) for s, e in zip(i.starts, i.ends)])


def _chrom_of(i, x):
    """chromosome position of chunk position x."""
    return (i.ce - 1 - x) if i.minus else (i.cs + x)


def _cov(loc, q):
    from .c02_single import covers_pos
    return covers_pos(loc, q)


class LiftRoundTrip(Case):
    """chromosome -> chunk -> chromosome returns exactly the part of the location inside the chunk."""
    props = ("C04", "C07")
    name = "lift to chunk and back = restriction to the chunk[single block]"
    func = "location.location.Location.lift_over_to_first_ancestor_of_type"
    module = "gene.interval"
    call = ("AbstractInterval.liftover_location_to_seq_chunk_parent(loc, chunk)"
            ".lift_over_to_first_ancestor_of_type(SequenceType.CHROMOSOME)")
    ensures = {
        "restriction": lambda i, r: And(class_name(r) == "SingleInterval", r.start == Max(i.s, i.cs),
                                        r.end == Min(i.e, i.ce)),
        "strand-kept": lambda i, r: enum_eq(r.strand, i.loc.strand) if hasattr(r.strand, "idx") else (
            r.strand is i.loc.strand),
        "on-chromosome": lambda i, r: And(r.parent is not None, r.parent.id == "chr1"),
    }

    def inputs(self, S):
        loc = single(S, "loc", directed=False)
        chunk, cs, ce = chunk_parent(S)
        S.assume(Max(loc.start, cs) < Min(loc.end, ce))  # some base inside the chunk (else EmptyLocation: case above)
        return NS(loc=loc, chunk=chunk, s=loc.start, e=loc.end, cs=cs, ce=ce)

    def samples(self, rng):
        d = sample_chunk(rng)
        s = rng.randint(0, 16)
        d.update(loc_start=s, loc_end=s + rng.randint(1, 8), loc_strand=rng.choice(["PLUS", "MINUS"]))
        return d

    def observe(self, r):
        from .c02_single import obs_loc
        return obs_loc(r)[:3]


class LiftChunkToChunk(Case):
    """a location already placed on chunk A, lifted onto chunk B of the same chromosome: the part of the ORIGINAL
    chromosome location inside both chunks, in B's coordinates (the lift goes through chromosome coordinates)."""
    props = ("C04", "C07")
    name = "AbstractInterval.liftover_location_to_seq_chunk_parent[chunk A -> chunk B, single block]"
    func = AI + ".liftover_location_to_seq_chunk_parent"
    module = "gene.interval"
    call = ("AbstractInterval.liftover_location_to_seq_chunk_parent("
            "AbstractInterval.liftover_location_to_seq_chunk_parent(loc, chunk_a), chunk_b)")
    ensures = {
        "restriction-to-both-chunks-in-B-coordinates": lambda i, r: If(
            Max(Max(i.s, i.as_), i.bs) < Min(Min(i.e, i.ae), i.be),
            _single_at(r, Max(Max(i.s, i.as_), i.bs) - i.bs, Min(Min(i.e, i.ae), i.be) - i.bs),
            class_name(r) == "_EmptyLocation"),
    }

    def inputs(self, S):
        loc = single(S, "loc", directed=False)
        a, as_, ae = chunk_parent(S, "a")
        b, bs, be = chunk_parent(S, "b")
        S.assume(And(as_ < ae, bs < be))
        S.assume(Max(loc.start, as_) < Min(loc.end, ae))  # the location has a base on chunk A
        return NS(loc=loc, chunk_a=a, chunk_b=b, s=loc.start, e=loc.end, as_=as_, ae=ae, bs=bs, be=be)

    def samples(self, rng):
        d = sample_chunk(rng, "a")
        d.update(sample_chunk(rng, "b"))
        s = rng.randint(0, 16)
        d.update(loc_start=s, loc_end=s + rng.randint(1, 8), loc_strand=rng.choice(["PLUS", "MINUS"]))
        return d

    def observe(self, r):
        from .c02_single import obs_loc
        return obs_loc(r)[:3]


class LiftNestedToChunk(Case):
    """a location expressed relative to a FEATURE that itself sits on chunk A (so its immediate parent is not the
    chunk), lifted onto chunk B: the lift must go back through the chromosome - the result is the part of the
    location's chromosome image inside chunk B, in B's coordinates, with the composed strand."""
    props = ("C04", "C07")
    name = "AbstractInterval.liftover_location_to_seq_chunk_parent[feature-relative location on chunk A -> chunk B]"
    func = AI + ".liftover_location_to_seq_chunk_parent"
    module = "gene.interval"
    call = "AbstractInterval.liftover_location_to_seq_chunk_parent(inner, chunk_b)"
    ensures = {
        "chromosome-image-restricted-to-B-in-B-coordinates": lambda i, r: If(
            Max(i.cs_, i.bs) < Min(i.ce_, i.be),
            _single_at(r, Max(i.cs_, i.bs) - i.bs, Min(i.ce_, i.be) - i.bs),
            class_name(r) == "_EmptyLocation"),
        "strand-composed": lambda i, r: class_name(r) == "_EmptyLocation" or (
            Iff(enum_name_is(r.strand, "PLUS"), i.same_strand)),
    }

    def inputs(self, S):
        from .gene_common import strand_of
        a, as_, ae = chunk_parent(S, "a")
        b, bs, be = chunk_parent(S, "b")
        fs, fe = S.int("f_start"), S.int("f_end")
        x, y = S.int("x"), S.int("y")
        fstrand, istrand = strand_of(S, "f_strand"), strand_of(S, "i_strand")
        # the feature lies inside chunk A (chromosome coordinates), the inner location inside the feature
        S.assume(And(bs < be, as_ <= fs, fs < fe, fe <= ae, 0 <= x, x < y, y <= fe - fs))
        chrom = S.new(PARENT, id="chr1", sequence_type="chromosome")
        feat_on_chrom = S.new(SINGLE, fs, fe, fstrand, chrom)
        lift = S.fn(AI + ".liftover_location_to_seq_chunk_parent")
        feat_on_a = lift(feat_on_chrom, a) if S.mode == "native" else S.e.call(lift, [feat_on_chrom, a], {})
        feat_parent = S.new(PARENT, id="feat", sequence_type="spliced_feature", parent=feat_on_a.parent)
        inner = S.new(SINGLE, x, y, istrand, feat_parent)
        plus = enum_name_is(fstrand, "PLUS")
        cs_ = (fs + x) if plus else (fe - y)
        ce_ = (fs + y) if plus else (fe - x)
        same = enum_name_is(fstrand, "PLUS") == enum_name_is(istrand, "PLUS")
        return NS(inner=inner, chunk_b=b, bs=bs, be=be, cs_=cs_, ce_=ce_, same_strand=same)

    def samples(self, rng):
        d = sample_chunk(rng, "a", lo=0, hi=4)
        d["a_end"] = d["a_start"] + rng.randint(4, 12)
        d["a_seq"] = "".join(rng.choice("ACGT") for _ in range(d["a_end"] - d["a_start"]))
        d.update(sample_chunk(rng, "b"))
        if d["b_end"] == d["b_start"]:
            d["b_end"] += 1
            d["b_seq"] = "A"
        fs = rng.randint(d["a_start"], d["a_end"] - 1)
        fe = rng.randint(fs + 1, d["a_end"])
        x = rng.randint(0, fe - fs - 1)
        d.update(f_start=fs, f_end=fe, x=x, y=rng.randint(x + 1, fe - fs), f_strand=rng.choice(["PLUS", "MINUS"]),
                 i_strand=rng.choice(["PLUS", "MINUS"]))
        return d

    def observe(self, r):
        from .c02_single import obs_loc
        return obs_loc(r)[:3]


class ChildLocationOfParent(Case):
    """Class invariant the whole lift-over rests on: the Parent attached to a location records THAT location as its
    child location (Parent.lift_child_location_to_parent lifts parent.location, not the object one holds).  Proved for
    locations built on a Parent that already carries another location (constructor re-parenting) and for the results
    of the operations that rebuild a location on the old parent."""
    props = ("C04", "C01")
    func = "location.location_impl.CompoundInterval.__init__"
    module = "location.location_impl"

    def __init__(self, n, via):
        self.n, self.via = n, via
        kind = "SingleInterval" if n == 1 else f"CompoundInterval[{n} blocks]"
        self.name = f"parent.location is the location itself: {kind} via {via}"
        if n == 1:
            self.func = "location.location_impl.SingleInterval.__init__"
        self.call = {"constructor on a parent that already holds a location": "loc",
                     "reverse_strand": "loc.reverse_strand()",
                     "reset_strand": "loc.reset_strand(other_strand)",
                     "shift_position": "loc.shift_position(shift)"}[via]
        self.ensures = {
            "parent-records-this-location": lambda i, r: And(
                r.parent is not None, r.parent.location is not None,
                _same_blocks(r.parent.location, r),
                enum_eq(r.parent.location.strand, r.strand) if hasattr(r.strand, "idx")
                else r.parent.location.strand is r.strand),
            "parent-identity-kept": lambda i, r: r.parent.id == "chr1",
            "expected-coordinates": lambda i, r: _same_blocks_list(
                r, [(s + (i.shift if via == "shift_position" else 0), e + (i.shift if via == "shift_position" else 0))
                    for s, e in zip(i.starts, i.ends)]),
        }

    def inputs(self, S):
        from .gene_common import block_lists, strand_of
        starts, ends = block_lists(S, "loc", self.n, allow_adjacent=False)
        strand, sib_strand, other = strand_of(S, "strand"), strand_of(S, "sib_strand"), strand_of(S, "other_strand")
        a, b = S.int("sib_start"), S.int("sib_end")
        shift = S.int("shift")
        S.assume(And(0 <= a, a <= b, 0 <= shift))
        sib = S.new(SINGLE, a, b, sib_strand, S.new(PARENT, id="chr1", sequence_type="chromosome"))
        if self.n == 1:
            loc = S.new(SINGLE, starts[0], ends[0], strand, sib.parent)
        else:
            loc = S.new(COMPOUND, starts, ends, strand, sib.parent)
        return NS(loc=loc, starts=starts, ends=ends, other_strand=other, shift=shift)

    def samples(self, rng):
        from .gene_common import sample_blocks
        d = sample_blocks(rng, "loc", self.n, gap=(1, 2, 3))
        a = rng.randint(0, 9)
        d.update(strand=rng.choice(["PLUS", "MINUS"]), sib_strand=rng.choice(["PLUS", "MINUS"]),
                 other_strand=rng.choice(["PLUS", "MINUS"]), sib_start=a, sib_end=a + rng.randint(0, 5),
                 shift=rng.randint(0, 4))
        return d

    def observe(self, r):
        from .c02_single import obs_loc
        return [obs_loc(r)[:3], obs_loc(r.parent.location)[:3]]


def _same_blocks(a, b):
    from .c02_single import blocks_of
    ba, bb = blocks_of(a), blocks_of(b)
    if len(ba) != len(bb):
        return False
    return And(*[And(x[0] == y[0], x[1] == y[1]) for x, y in zip(ba, bb)])


def _same_blocks_list(a, blocks):
    from .c02_single import blocks_of
    ba = blocks_of(a)
    if len(ba) != len(blocks):
        return False
    return And(*[And(x[0] == y[0], x[1] == y[1]) for x, y in zip(ba, blocks)])


def _single_at(r, start, end):
    if class_name(r) != "SingleInterval":
        return False
    return And(r.start == start, r.end == end)


CASES = [LiftToChunk(), LiftRoundTrip(), LiftChunkToChunk(), LiftNestedToChunk(), LiftToStrandedChunk(),
         LiftStrandedChunkToChunk()]
CASES += [FromChunkRelativeLocation(k, n) for k in ("feature", "transcript", "cds") for n in (1, 2)]
CASES += [CodingTranscriptFromChunk(), LiftThroughNamedPlacements()]
CASES += [FromLocationRefusesChunkAncestry(k, d) for k in ("feature", "transcript") for d in (1, 2)]
CASES += [ChunkInsideIntron(k) for k in ("feature", "transcript", "cds")]
CASES += [LiftCompoundToChunk(2), LiftCompoundToChunk(3), LiftCompoundToChunk(2, overlap=True)]
CASES += [ChildLocationOfParent(n, via) for n in (1, 2) for via in (
    "constructor on a parent that already holds a location", "reverse_strand", "reset_strand", "shift_position")]
