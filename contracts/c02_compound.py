"""C02 / C19 — CompoundInterval constructor, block normalisation (_combine_blocks, optimize_*), gap_list.
Symbolic number of blocks; loop invariants; the constructor's contract is also the summary used by every caller."""
from pyvc.spec import *  # noqa
from pyvc.sources import NS
from .common import *  # noqa
from . import lib

Q = "location.location_impl.CompoundInterval."


def _seq_get(x, j):
    return x.get(j) if hasattr(x, "get") else x[j]


def _seq_len(x):
    return x.length if hasattr(x, "get") else len(x)


def key_le(plus, s1, e1, s2, e2):
    """(s1,e1) sorts at or before (s2,e2): by (start, end) on PLUS, (start, -end) otherwise."""
    return Or(s1 < s2, And(s1 == s2, (e1 <= e2) if plus else (e1 >= e2)))


# ---- _sort_starts_ends: contract (relies on the trusted contract of sorted(): stable, ordered, permutation) -----
def sort_starts_ends_summary(interp, args, kwargs):
    """returns (S', E'): a permutation of the input pairs, ordered by the strand-dependent key; equal to the input
    when the input is already ordered (stable sort; pairs that tie under the key are identical)."""
    import z3
    from pyvc.values import SList
    starts, ends, strand = args[-3], args[-2], args[-1]
    if not hasattr(starts, "get") or isinstance(_seq_len(starts), int):
        raise lib.Unsupported("_sort_starts_ends summary on concrete-length input")
    strand = interp.enum_concretize(strand)
    plus = strand.name == "PLUS"
    n = _seq_len(starts)
    lib._uid[0] += 1
    tag = f"srt{lib._uid[0]}"
    So = SList((z3.Array(tag + "_S", z3.IntSort(), z3.IntSort()),), n)
    Eo = SList((z3.Array(tag + "_E", z3.IntSort(), z3.IntSort()),), n)
    j = z3.Int(tag + "!j")
    perm = z3.Function(tag + "_perm", z3.IntSort(), z3.IntSort())
    inv = z3.Function(tag + "_inv", z3.IntSort(), z3.IntSort())
    interp.assume(z3.ForAll([j], z3.Implies(z3.And(0 <= j, j < n),
                                            z3.And(0 <= perm(j), perm(j) < n, So.get(j) == _seq_get(starts, perm(j)),
                                                   Eo.get(j) == _seq_get(ends, perm(j)))),
                            patterns=[So.get(j), Eo.get(j), perm(j)]))
    interp.assume(z3.ForAll([j], z3.Implies(z3.And(0 <= j, j < n), z3.And(0 <= inv(j), inv(j) < n, perm(inv(j)) == j)),
                            patterns=[inv(j), _seq_get(starts, j), _seq_get(ends, j)]))
    interp.assume(z3.ForAll([j], z3.Implies(z3.And(0 <= j, j < n - 1),
                                            key_le(plus, So.get(j), Eo.get(j), So.get(j + 1), Eo.get(j + 1)))))
    already = z3.ForAll([j], z3.Implies(z3.And(0 <= j, j < n - 1),
                                        key_le(plus, _seq_get(starts, j), _seq_get(ends, j),
                                               _seq_get(starts, j + 1), _seq_get(ends, j + 1))))
    interp.assume(z3.Implies(already, z3.ForAll([j], z3.Implies(z3.And(0 <= j, j < n),
                                                                z3.And(So.get(j) == _seq_get(starts, j),
                                                                       Eo.get(j) == _seq_get(ends, j))))))
    cum = z3.Function(tag + "_cum", z3.IntSort(), z3.IntSort())
    interp.assume(cum(0) == 0)
    interp.assume(z3.ForAll([j], z3.Implies(z3.And(j >= 0, j < n), cum(j + 1) == cum(j) + Eo.get(j) - So.get(j)),
                            patterns=[cum(j + 1)]))
    interp.ghost["sorted"] = dict(S=So, E=Eo, cum=cum, perm=perm, inv=inv, n=n, tag=tag)
    interp.trusted_used.add("sorted (ordered stable permutation) via _sort_starts_ends contract")
    return (So, Eo)


lib.SUMMARIES[Q + "_sort_starts_ends"] = sort_starts_ends_summary


def _init_inv(interp, ns, k, frame):
    g = interp.ghost["sorted"]
    return And(0 <= k, k <= g["n"], ns.length == g["cum"](k),
               ForAllRange(0, k, lambda j: And(0 <= g["S"].get(j), g["S"].get(j) <= g["E"].get(j)), "ij"))


lib.LOOPS[(Q + "__init__", 0)] = LoopSpec({"length": "int"}, _init_inv, "length sum")


def exists_bad_block(starts, ends, n):
    return ExistsRange(0, n, lambda j: Or(_seq_get(starts, j) > _seq_get(ends, j), _seq_get(starts, j) < 0), "bb")


def _as_slist(interp, x, tag):
    """SList view of a symbolic-length sequence of ints (fresh array constrained pointwise for lazy sequences)."""
    import z3
    from pyvc.values import SList, LazySeq
    if isinstance(x, SList):
        return x
    arr = z3.Array(tag, z3.IntSort(), z3.IntSort())
    j = z3.Int(tag + "!j")
    n = x.length
    interp.assume(z3.ForAll([j], z3.Implies(z3.And(0 <= j, j < n), arr[j] == x.get(j)), patterns=[arr[j]]))
    return SList((arr,), n)


def compound_ctor_summary(interp, cls, args, kwargs):
    """Contract of CompoundInterval.__init__ as seen by callers (proved for the real body by case CInit):
    raises LocationException iff the lists differ in length or are empty; InvalidPositionException iff some block has
    start > end or start < 0 (or, with a sequence-carrying parent, an end beyond the sequence: raised by the real
    Parent code, which IS executed); otherwise the stored blocks are the ordered permutation of the input pairs
    (identical to the input when it is already ordered), length = sum of block lengths, start/end = first start /
    last end.  With concrete-length arguments the real constructor body is executed instead."""
    from pyvc.values import PyExc, FuncVal
    a = list(args)
    starts, ends, strand = a[0], a[1], a[2]
    parent = a[3] if len(a) > 3 else kwargs.get("parent")
    sym = lambda x: hasattr(x, "get") and not isinstance(x.length, int)  # noqa
    if not (sym(starts) or sym(ends)):
        return interp.instantiate(cls, args, kwargs, use_summary=False)
    lib._uid[0] += 1
    tag = f"ctor{lib._uid[0]}"
    n1, n2 = _seq_len(starts), _seq_len(ends)
    if interp.branch(Or(n1 != n2, n1 == 0)):
        raise PyExc("LocationException")
    strand = interp.resolve(strand)
    S_in = _as_slist(interp, starts, tag + "_Sin")
    E_in = _as_slist(interp, ends, tag + "_Ein")
    E_in = type(E_in)(E_in.arrs, S_in.length)
    parent_obj = None
    if interp.to_bool(parent):
        mp = interp.summaries["parent.make_parent"]
        pobj = mp(interp, [parent], {})
        inner = compound_ctor_summary(interp, cls, [starts, ends, strand], {})
        if interp.to_bool(interp.getattr(pobj, "location")):
            P = interp.repo.find("parent.parent.Parent")
            parent_obj = interp.instantiate(P, [], dict(id=interp.getattr(pobj, "id"),
                                                        sequence_type=interp.getattr(pobj, "sequence_type"),
                                                        sequence=interp.getattr(pobj, "sequence"),
                                                        parent=interp.getattr(pobj, "parent"), location=inner))
        else:
            parent_obj = interp.call(interp.getattr(pobj, "reset_location"), [inner], {})
    bad = exists_bad_block(S_in, E_in, S_in.length)
    if interp.decide([bad, Not(bad)]) == 0:
        raise PyExc("InvalidPositionException")
    strand_c = interp.enum_concretize(strand)
    So, Eo = sort_starts_ends_summary(interp, [S_in, E_in, strand_c], {})
    obj = mk_compound_obj(interp, So, Eo, strand_c, parent_obj, tag)
    return obj


lib.SUMMARIES[Q + "__init__"] = compound_ctor_summary
lib.DEFAULT.append(Q + "__init__")


class CInit(Case):
    """The real constructor on symbolic-length lists (no parent)."""
    props = ("C02", "C19", "C01") + GENE_LAYER
    scopes = (1, 2, 3)
    name = "CompoundInterval.__init__[any number of blocks, no parent]"
    func = Q + "__init__"
    call = "CompoundInterval(starts, ends, strand)"
    summaries = (Q + "_sort_starts_ends",)
    no_summaries = (Q + "__init__",)  # this case verifies the real body
    loops = ((Q + "__init__", 0),)
    raises = {
        "LocationException": lambda i: Or(_seq_len(i.starts) != _seq_len(i.ends), _seq_len(i.starts) == 0),
        "InvalidPositionException": lambda i: And(_seq_len(i.starts) == _seq_len(i.ends), _seq_len(i.starts) > 0,
                                                  exists_bad_block(i.starts, i.ends, _seq_len(i.starts))),
    }
    ensures = {
        "blocks-well-formed": lambda i, r: ForAllRange(0, _seq_len(r._starts),
                                                       lambda j: And(0 <= _seq_get(r._starts, j),
                                                                     _seq_get(r._starts, j) <= _seq_get(r._ends, j)),
                                                       "wf"),
        "sorted-by-strand-key": lambda i, r: ForAllRange(
            0, _seq_len(r._starts) - 1,
            lambda j: key_le(_is_plus(r.strand), _seq_get(r._starts, j), _seq_get(r._ends, j),
                             _seq_get(r._starts, j + 1), _seq_get(r._ends, j + 1)), "so"),
        "same-number-of-blocks": lambda i, r: _seq_len(r._starts) == _seq_len(i.starts),
        "permutation-of-input": lambda i, r: SKIP if (_symbolic(r) or _has_terms(r)) else (
            sorted(zip(r._starts, r._ends)) == sorted(zip(i.starts, i.ends))),
        "length-is-sum-of-blocks": lambda i, r: r.length == _total(i, r),
        # end = the largest block end (blocks may nest: not necessarily the last one in sort order)
        "start-end-fields": lambda i, r: And(
            r.start == _seq_get(r._starts, 0),
            ForAllRange(0, _seq_len(r._ends), lambda j: _seq_get(r._ends, j) <= r.end, "mx"),
            ExistsRange(0, _seq_len(r._ends), lambda j: _seq_get(r._ends, j) == r.end, "mw",
                        witness=(i.ghost.get("max/witness") if getattr(i, "ghost", None) else None))),
        "strand-kept": lambda i, r: enum_eq(r.strand, i.strand) if hasattr(i.strand, "idx") else r.strand is i.strand,
    }

    def inputs(self, S):
        starts = S.intlist("starts")
        ends = S.intlist("ends")
        strand = S.enum(STRAND, "strand")
        if S.mode == "sym":
            strand = S.e.enum_concretize(strand)  # the sort key depends on the strand: case split (also in scope mode)
        return NS(starts=starts, ends=ends, strand=strand, CompoundInterval=S.cls(COMPOUND))

    def samples(self, rng):
        n = rng.randint(0, 4)
        st = [rng.randint(-1, 12) for _ in range(n)]
        en = [s + rng.choice([-1, 0, 1, 3]) for s in st]
        if rng.random() < 0.15:
            en = en[:-1] if en else [3]
        return dict(starts=st, ends=en, strand=rng.choice(["PLUS", "MINUS", "UNSTRANDED"]))

    def observe(self, r):
        from pyvc.check import default_observe as o
        return [list(map(o, _items(r._starts))), list(map(o, _items(r._ends))), o(r.length), o(r.start), o(r.end)]


def _has_terms(r):
    """block lists of concrete length whose ELEMENTS are solver terms (finite-scope mode): python's sorted() cannot
    order them; the permutation clause is then carried by the multiset clauses of the scope-specific cases."""
    try:
        return any(hasattr(x, "sort") for x in list(r._starts) + list(r._ends))
    except Exception:
        return False


def _items(x):
    if hasattr(x, "get"):
        return [x.get(j) for j in range(x.length)] if isinstance(x.length, int) else []
    return list(x)


def _is_plus(strand):
    if hasattr(strand, "idx"):
        return strand.idx == 0 if isinstance(strand.idx, int) else None
    return strand.name == "PLUS"


def _symbolic(r):
    return hasattr(r, "attrs") and hasattr(r._starts, "get") and not isinstance(r._starts.length, int)


def _total(i, r):
    if _symbolic(r):
        g = i.ghost["sorted"]
        return g["cum"](g["n"])
    return sum((e - s for s, e in zip(_items(r._starts), _items(r._ends))), 0)


class SortStartsEnds(Case):
    """_sort_starts_ends against its contract for 1..3 blocks (all integer coordinates): the real sorted()/zip code is
    executed with the comparison outcomes forked.  BOUNDED in the number of blocks; larger inputs rest on the trusted
    contract of sorted().  The constructor contract (CInit) USES this contract as a summary, so it is re-proved under
    every property that CInit carries."""
    props = ("C02", "C19", "C01") + GENE_LAYER
    proved = True
    name = "CompoundInterval._sort_starts_ends[1..3 blocks, all coordinates]"
    func = Q + "_sort_starts_ends"

    def __init__(self, n):
        self.n = n
        self.name = f"CompoundInterval._sort_starts_ends[{n} blocks, all coordinates]"
        self.call = "CompoundInterval._sort_starts_ends(starts, ends, strand)"
        self.ensures = {
            # repeated blocks are KEPT (a location may list the same block twice: its length counts both)
            "every-block-kept": lambda i, r: len(r[0]) == n and len(r[1]) == n,
            "ordered": lambda i, r: And(*[key_le(_is_plus(i.strand), r[0][j], r[1][j], r[0][j + 1], r[1][j + 1])
                                          for j in range(n - 1)]) if n > 1 else True,
            "permutation": lambda i, r: And(*[Or(*[And(r[0][a] == i.starts[b], r[1][a] == i.ends[b])
                                                   for b in range(n)]) for a in range(n)] +
                                            [Or(*[And(r[0][a] == i.starts[b], r[1][a] == i.ends[b])
                                                  for a in range(n)]) for b in range(n)]),
            "identity-when-ordered": lambda i, r: Implies(
                And(*[key_le(_is_plus(i.strand), i.starts[j], i.ends[j], i.starts[j + 1], i.ends[j + 1])
                      for j in range(n - 1)]) if n > 1 else True,
                And(*[And(r[0][j] == i.starts[j], r[1][j] == i.ends[j]) for j in range(n)])),
        }

    def inputs(self, S):
        if S.mode == "sym":
            S.scope = self.n
        starts, ends = S.intlist("starts"), S.intlist("ends")
        if S.mode != "sym":
            S.assume(len(starts) == self.n and len(ends) == self.n)
        strand = S.enum(STRAND, "strand")
        if S.mode == "sym":
            strand = S.e.enum_concretize(strand)
        return NS(starts=starts, ends=ends, strand=strand, CompoundInterval=S.cls(COMPOUND))

    def samples(self, rng):
        st = [rng.randint(0, 6) for _ in range(self.n)]
        return dict(starts=st, ends=[s + rng.randint(0, 3) for s in st], strand=rng.choice(["PLUS", "MINUS", "UNSTRANDED"]))

    def observe(self, r):
        from pyvc.check import default_observe as o
        return [list(map(o, r[0])), list(map(o, r[1]))]


# ---- _combine_blocks ---------------------------------------------------------------------------------------------
def _cb_inv(interp, ns, k, frame):
    import z3
    selfv = frame.lookup("self")[1]
    V = view(selfv)
    pres = frame.lookup("preserve_overlappers")[1]
    NS_, NE_ = ns.new_starts, ns.new_ends
    m = NS_.length
    cs, ce = ns.curr_start, ns.curr_end
    t = z3.Int("cb!t")
    j = z3.Int("cb!j")
    t2 = z3.Int("cb!t2")
    p = z3.Int("cb!p")
    j2 = z3.Int("cb!j2")
    nsa, nea = NS_.arrs[0], NE_.arrs[0]
    own = getattr(ns, "$own")
    return And(
        0 <= k, k <= V.n, NE_.length == m, 0 <= m, m <= k,
        Iff(cs.is_none, m == 0), Iff(ce.is_none, m == 0),
        Implies(m > 0, And(nsa[m - 1] == cs.val, nea[m - 1] == ce.val, k > 0, cs.val <= V.S(k - 1))),
        Implies(Not(ns.needs_combining), m == k),
        # N1 no empty output block
        z3.ForAll([t], z3.Implies(z3.And(0 <= t, t < m), nsa[t] < nea[t])),
        # N2 consecutive output blocks are separated (not mergeable), and ordered by start
        z3.ForAll([t], z3.Implies(z3.And(0 <= t, t < m - 1),
                                  z3.And(nsa[t] <= nsa[t + 1],
                                         z3.If(pres, nea[t] != nsa[t + 1], nea[t] < nsa[t + 1])))),
        z3.ForAll([t], z3.Implies(z3.And(0 <= t, t < m), 0 <= nsa[t])),
        # N3 every non-empty input block seen so far lies inside its owner output block (ghost owner map $own)
        z3.ForAll([j], z3.Implies(z3.And(0 <= j, j < k, V.S(j) < V.E(j)),
                                  z3.And(0 <= own[j], own[j] < m, nsa[own[j]] <= V.S(j), V.E(j) <= nea[own[j]])),
                  patterns=[own[j]]),
        # untouched prefix when nothing was combined
        Implies(Not(ns.needs_combining), z3.ForAll([t], z3.Implies(z3.And(0 <= t, t < m),
                                                                   z3.And(nsa[t] == V.S(t), nea[t] == V.E(t))))),
    )


def _cb_ghost_init(interp, frame):
    import z3
    frame.locals["$own"] = z3.K(z3.IntSort(), z3.IntVal(0))


def _cb_ghost_step(interp, frame, k):
    """owner of input block k := the last output block (the one it was merged into or appended as)."""
    import z3
    from pyvc.symex_eval import _z
    ns_ = frame.locals["new_starts"]
    m = ns_.length if hasattr(ns_, "get") else len(ns_)
    frame.locals["$own"] = z3.Store(frame.locals["$own"], k, _z(m) - 1)


lib.LOOPS[(Q + "_combine_blocks", 0)] = LoopSpec(
    {"new_starts": "intlist", "new_ends": "intlist", "curr_start": "optint", "curr_end": "optint",
     "needs_combining": "bool", "$own": "intarray"}, _cb_inv, "blocks",
    ghost_init=_cb_ghost_init, ghost_step=_cb_ghost_step)


def cov_result(r, p):
    """position p is covered by the returned location (engine Obj with symbolic block count, or real object)."""
    cn = class_name(r)
    if cn == "_EmptyLocation":
        return False
    if cn == "SingleInterval":
        return And(r.start <= p, p < r.end)
    n = _seq_len(r._starts)
    return ExistsRange(0, n, lambda t: And(_seq_get(r._starts, t) <= p, p < _seq_get(r._ends, t)), "cv")


def normalised(r, preserve):
    cn = class_name(r)
    if cn == "_EmptyLocation":
        return True
    if cn == "SingleInterval":
        return r.start < r.end
    n = _seq_len(r._starts)
    return And(ForAllRange(0, n, lambda t: _seq_get(r._starts, t) < _seq_get(r._ends, t), "n1"),
               ForAllRange(0, n - 1, lambda t: If(preserve, _seq_get(r._ends, t) != _seq_get(r._starts, t + 1),
                                                  _seq_get(r._ends, t) < _seq_get(r._starts, t + 1)), "n2"))


def _pairwise_disjoint(V):
    n = V.n
    return And(*[V.E(a) <= V.S(b) for b in range(n) for a in range(b)]) if n > 1 else True


def _result_len(r):
    cn = class_name(r)
    if cn == "_EmptyLocation":
        return 0
    if cn == "SingleInterval":
        return r.end - r.start
    n = _seq_len(r._starts)
    return sum((_seq_get(r._ends, t) - _seq_get(r._starts, t) for t in range(n)), 0) if isinstance(n, int) else r.length


def _fin(i, r, f):
    """clause evaluated only where the block count is concrete (finite-scope proof, native)."""
    if not isinstance(i.V.n, int):
        return SKIP
    return f()


class CombineBlocks(Case):
    props = ("C02", "C01") + GENE_LAYER
    scopes = (1, 2, 3)
    name = "CompoundInterval._combine_blocks[any number of blocks]"
    func = Q + "_combine_blocks"
    call = "self._combine_blocks(preserve)"
    loops = ((Q + "_combine_blocks", 0),)
    also_scopes = (1, 2, 3, 4)
    # known finding F-C02-2 (see known_findings.json): with preserve_overlappers=True and blocks that overlap each
    # other, the constructor re-sorts the merged blocks and can leave two adjacent blocks next to each other.  The
    # clause is proved for every input outside that carve-out.
    known = {"no-empty-or-mergeable-blocks": dict(id="F-C02-2", carve=lambda i: And(i.preserve, Not(_pairwise_disjoint(i.V))))}
    # The loop invariants N1-N3 (no empty output block, consecutive blocks separated and ordered, every input block
    # inside its owner output block) are proved for ANY number of blocks.  The clauses below speak about the object
    # re-sorted by the constructor; they are proved with the block count fixed (1..4, all coordinates) and checked
    # natively in the bounded tier.
    ensures = {
        "covers-every-input-position": lambda i, r: _fin(i, r, lambda: Implies(i.V_cov(i.p), cov_result(r, i.p))),
        "covers-only-input-positions": lambda i, r: _fin(i, r, lambda: Implies(cov_result(r, i.p), i.V_cov(i.p))),
        "no-empty-or-mergeable-blocks": lambda i, r: _fin(i, r, lambda: normalised(r, i.preserve)),
        "empty-iff-all-blocks-empty": lambda i, r: _fin(i, r, lambda: Iff(
            class_name(r) == "_EmptyLocation", ForAllRange(0, i.V.n, lambda j: i.V.S(j) == i.V.E(j), "ae"))),
        "strand-kept": lambda i, r: class_name(r) == "_EmptyLocation" or (
            enum_eq(r.strand, i.self.strand) if hasattr(r.strand, "idx") else r.strand is i.self.strand),
        # optimize_blocks (preserve_overlappers=True) only drops empty blocks and fuses ADJACENT ones: every base
        # keeps its multiplicity, so the total length is the sum of the input block lengths (blocks that overlap or
        # nest are never fused - relative_interval_to_parent_location and Sequence slices rely on it)
        "total-length-kept-when-overlaps-are-preserved": lambda i, r: _fin(i, r, lambda: Implies(
            i.preserve, _result_len(r) == sum((i.V.E(j) - i.V.S(j) for j in range(i.V.n)), 0))),
    }

    def inputs(self, S):
        c, V = compound(S, "self", directed=False)
        p = S.int("p")
        i = NS(self=c, V=V, p=p, preserve=S.bool("preserve"))
        i.V_cov = lambda q: ExistsRange(0, V.n, lambda j: V.covers(j, q), "ic")
        return i

    def samples(self, rng):
        d = sample_compound(rng, "self", directed=False)
        d.update(p=rng.randint(0, 24), preserve=rng.random() < 0.5)
        return d

    def observe(self, r):
        from .c02_single import obs_loc
        return obs_loc(r)


from .c01_compound import sample_compound  # noqa

CASES = [CombineBlocks(), CInit(), SortStartsEnds(1), SortStartsEnds(2), SortStartsEnds(3)]
LIB = lib.LIB

CANARIES = [
    dict(name="compound end: last block in sort order instead of the largest end (F-C02-4)", props=("C02", "C19", "C01"),
         file="inscripta/biocantor/location/location_impl.py",
         old="        self.end = max(self._ends)", new="        self.end = self._ends[-1]",
         case="CompoundInterval.__init__[any number of blocks, no parent]", expect="post:start-end-fields", scope=2),
]
