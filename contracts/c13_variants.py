"""C13 — variant lift-over against the edit model (DESIGN 5/C13, Appendix A.6).
Edit model: variant v = [vs,ve) -> alt (length l), d = l - (ve-vs); a reference position p < vs keeps its
coordinate, p >= ve moves to p + d; positions inside [vs,ve) are replaced by the l alternative bases at vs..vs+l."""
from pyvc.spec import *  # noqa
from pyvc.sources import NS
from .common import *  # noqa
from .lib import LIB  # noqa

VAR = "gene.variants.VariantInterval"


def variant(S, name="v"):
    """VariantInterval(vs, ve, alt) without parent, built by the REAL constructor (symbolically executed)."""
    vs, ve = S.int(name + "_start"), S.int(name + "_end")
    alt = S.symstr(name + "_alt", "ACGTN")
    S.assume(And(0 <= vs, vs < ve))
    return S.new(VAR, vs, ve, alt, "variant"), vs, ve, slen(alt)


class LiftSingle(Case):
    props = ("C13",)
    name = "VariantInterval._lift_over_chromosome_location_single_interval"
    func = VAR + "._lift_over_chromosome_location_single_interval"
    call = "v._lift_over_chromosome_location_single_interval(loc)"
    ensures = {
        "variant-wholly-before-shifts-by-d": lambda i, r: Implies(
            And(i.s < i.e, i.ve <= i.s), _single_at(r, i.s + i.d, i.e + i.d)),
        "variant-wholly-after-unchanged": lambda i, r: Implies(
            And(i.s < i.e, i.vs >= i.e), _single_at(r, i.s, i.e)),
        "variant-wholly-inside-grows-by-d": lambda i, r: Implies(
            And(i.s <= i.vs, i.ve <= i.e),
            Or(_single_at(r, i.s, i.e + i.d),
               # the location is exactly the deleted stretch: nothing of it is left
               And(i.e + i.d == i.s, class_name(r) == "_EmptyLocation"))),
        "location-inside-deleted-part-becomes-empty": lambda i, r: Implies(
            And(i.d < 0, i.vs + i.l <= i.s, i.e <= i.ve), class_name(r) == "_EmptyLocation"),
        "well-formed": lambda i, r: class_name(r) == "_EmptyLocation" or And(0 <= r.start, r.start <= r.end),
        "strand-kept": lambda i, r: class_name(r) == "_EmptyLocation" or (
            enum_eq(r.strand, i.loc.strand) if hasattr(r.strand, "idx") else r.strand is i.loc.strand),
        "empty-only-when-deleted": lambda i, r: Implies(class_name(r) == "_EmptyLocation",
                                                        And(i.d < 0, i.vs + i.l <= i.s, i.e <= i.ve)),
    }

    def inputs(self, S):
        v, vs, ve, l = variant(S)
        loc = single(S, "loc")
        return NS(v=v, vs=vs, ve=ve, l=l, d=l - (ve - vs), loc=loc, s=loc.start, e=loc.end)

    def samples(self, rng):
        vs = rng.randint(0, 8)
        s = rng.randint(0, 10)
        return dict(v_start=vs, v_end=vs + rng.randint(1, 4), v_alt="".join(rng.choice("ACGT") for _ in range(rng.randint(0, 5))),
                    loc_start=s, loc_end=s + rng.randint(0, 6), loc_strand=rng.choice(["PLUS", "MINUS"]))

    def observe(self, r):
        from .c02_single import obs_loc
        return obs_loc(r)


def _is_single(r):
    return class_name(r) == "SingleInterval"


def _single_at(r, start, end):
    """r is a SingleInterval with these coordinates (class tested first: EmptyLocation has no coordinates)."""
    if class_name(r) != "SingleInterval":
        return False
    return And(r.start == start, r.end == end)


VCOL = "gene.variants.VariantIntervalCollection"


def _placed(vs, ve, s, e):
    """variant wholly before / inside / after the location (the cases the statement speaks about)."""
    return Or(ve <= s, And(s <= vs, ve <= e), vs >= e)


def _shift_start(vs, ve, d, s, e):
    return If(ve <= s, d, 0)


def _shift_end(vs, ve, d, s, e):
    return If(Or(ve <= s, And(s <= vs, ve <= e)), d, 0)


class CollectionLiftSingle(Case):
    """Two non-overlapping variants applied to one interval: the result must be the edit model of BOTH variants
    (lemma 'sequential composition', DESIGN 5/C13)."""
    props = ("C13",)
    name = "VariantIntervalCollection.lift_over_location[2 variants, single interval]"
    func = VCOL + ".lift_over_location"
    call = "col.lift_over_location(loc)"
    # known finding F-C13-1: variants are applied left to right, each compared in REFERENCE coordinates with a
    # location already shifted by the earlier ones; wrong as soon as an earlier variant changes length.
    known = {"edit-model-of-both-variants": dict(id="F-C13-1", carve=lambda i: i.d1 != 0)}
    ensures = {
        "edit-model-of-both-variants": lambda i, r: Implies(
            And(i.s < i.e, _placed(i.vs1, i.ve1, i.s, i.e), _placed(i.vs2, i.ve2, i.s, i.e),
                # the location keeps at least one base (otherwise 'deleted entirely': separate clause)
                i.e + _shift_end(i.vs1, i.ve1, i.d1, i.s, i.e) + _shift_end(i.vs2, i.ve2, i.d2, i.s, i.e)
                > i.s + _shift_start(i.vs1, i.ve1, i.d1, i.s, i.e) + _shift_start(i.vs2, i.ve2, i.d2, i.s, i.e)),
            _single_at(r,
                       i.s + _shift_start(i.vs1, i.ve1, i.d1, i.s, i.e) + _shift_start(i.vs2, i.ve2, i.d2, i.s, i.e),
                       i.e + _shift_end(i.vs1, i.ve1, i.d1, i.s, i.e) + _shift_end(i.vs2, i.ve2, i.d2, i.s, i.e))),
    }
    raises = {}

    def inputs(self, S):
        v1, vs1, ve1, l1 = variant(S, "v1")
        v2, vs2, ve2, l2 = variant(S, "v2")
        S.assume(ve1 <= vs2)
        loc = single(S, "loc")
        col = S.new(VCOL, [v1, v2])
        return NS(col=col, loc=loc, s=loc.start, e=loc.end, vs1=vs1, ve1=ve1, d1=l1 - (ve1 - vs1),
                  vs2=vs2, ve2=ve2, d2=l2 - (ve2 - vs2))

    def samples(self, rng):
        a = rng.randint(0, 5)
        b = a + rng.randint(1, 3)
        c = b + rng.randint(0, 4)
        s = rng.randint(0, 12)
        return dict(v1_start=a, v1_end=b, v1_alt="A" * rng.randint(0, 4), v2_start=c, v2_end=c + rng.randint(1, 3),
                    v2_alt="C" * rng.randint(0, 4), loc_start=s, loc_end=s + rng.randint(1, 8),
                    loc_strand=rng.choice(["PLUS", "MINUS"]))

    def observe(self, r):
        from .c02_single import obs_loc
        return obs_loc(r)


class LiftCompound(Case):
    """_lift_over_chromosome_location_compound_interval on n separated blocks, all coordinates: for a variant lying
    wholly inside one block or wholly outside all of them, the result covers exactly the edited image of the blocks
    (free position q on the alternative haplotype); blocks deleted entirely disappear; nothing left -> EmptyLocation."""
    props = ("C13",)
    func = VAR + "._lift_over_chromosome_location_compound_interval"

    def __init__(self, n, through_public=False, overlap=False, collection=False):
        self.n, self.public, self.overlap, self.collection = n, through_public, overlap, collection
        meth = "lift_over_location" if through_public else "_lift_over_chromosome_location_compound_interval"
        self.name = f"VariantInterval.{meth}[{n} blocks{' that may overlap' if overlap else ''}, all coordinates]"
        self.call = f"v.{meth}(loc)"
        if collection:
            # a haplotype holding this one variant must lift exactly like the variant itself
            self.name = f"VariantIntervalCollection([v]).lift_over_location[{n} blocks{' that may overlap' if overlap else ''}, all coordinates]"
            self.call = "VariantIntervalCollection([v]).lift_over_location(loc)"
            self.module = "gene.variants"
        if through_public:
            self.func = VAR + ".lift_over_location"
        self.ensures = {
            "covers-exactly-the-edited-image": lambda i, r: Implies(
                _placed_all(i), Iff(_covers(r, i.q), Or(*[And(a <= i.q, i.q < b) for a, b in _image(i)]))),
            "empty-iff-everything-deleted": lambda i, r: Implies(
                _placed_all(i), Iff(class_name(r) == "_EmptyLocation", And(*[a >= b for a, b in _image(i)]))),
            # every base keeps its multiplicity: blocks that overlap (programmed frameshifts) are lifted block by
            # block, not fused - the lifted length is the sum of the lengths of the block images
            "length-is-sum-of-block-images": lambda i, r: Implies(
                _placed_all(i), _len_of(r) == sum((Max(0, b - a) for a, b in _image(i)), 0)),
            "well-formed": lambda i, r: Implies(_placed_all(i), True if self.overlap else _wf(r)),
            "strand-kept": lambda i, r: class_name(r) == "_EmptyLocation" or (
                enum_eq(r.strand, i.strand) if hasattr(r.strand, "idx") else r.strand is i.strand),
        }

    def inputs(self, S):
        from .gene_common import block_lists, strand_of
        v, vs, ve, l = variant(S)
        strand = strand_of(S, "strand")
        starts, ends = block_lists(S, "loc", self.n, allow_adjacent=False, allow_overlap=self.overlap)
        loc = S.new(COMPOUND, starts, ends, strand)
        return NS(v=v, vs=vs, ve=ve, l=l, d=l - (ve - vs), loc=loc, starts=starts, ends=ends, q=S.int("q"),
                  strand=strand)

    def samples(self, rng):
        from .gene_common import sample_blocks
        d = sample_blocks(rng, "loc", self.n, gap=(1, 2, 3))
        vs = rng.randint(0, 14)
        d.update(v_start=vs, v_end=vs + rng.randint(1, 3), v_alt="".join(rng.choice("ACGT") for _ in range(rng.randint(0, 4))),
                 strand=rng.choice(["PLUS", "MINUS"]), q=rng.randint(0, 20))
        return d

    def observe(self, r):
        from .c02_single import obs_loc
        return obs_loc(r)[:3]


def _len_of(r):
    if class_name(r) == "_EmptyLocation":
        return 0
    from .c02_single import blocks_of
    return sum((e - s for s, e in blocks_of(r)), 0)


def _placed_all(i):
    """the variant lies wholly inside one block or wholly outside all of them."""
    # stated block by block (no block is straddled): for pairwise disjoint blocks this is exactly 'inside one block
    # or outside all of them'; for blocks that overlap each other it excludes a variant inside one block that cuts
    # into another one
    return And(*[Or(And(s <= i.vs, i.ve <= e), i.ve <= s, i.vs >= e) for s, e in zip(i.starts, i.ends)])


def _image(i):
    """edited image of each block (edit model of the module docstring), as half-open intervals (possibly empty)."""
    out = []
    for s, e in zip(i.starts, i.ends):
        out.append((s + If(i.ve <= s, i.d, 0), e + If(Or(i.ve <= s, And(s <= i.vs, i.ve <= e)), i.d, 0)))
    return out


def _covers(r, q):
    from .c02_single import covers_pos
    return covers_pos(r, q)


def _wf(r):
    from .c02_single import wf_result
    return wf_result(r)


class AlternativeSequence(Case):
    """alternative_genomic_sequence = the reference text with the variant's bases literally substituted, on whole
    chromosomes and on chunks (symbolic reference text of any length, symbolic alternative allele)."""
    props = ("C13",)
    func = VAR + ".alternative_genomic_sequence"

    def __init__(self, two, via_from_dict=False):
        self.two, self.via = two, via_from_dict
        self.name = ("VariantIntervalCollection" if two else "VariantInterval") + ".alternative_genomic_sequence[chunk parent]"
        self.call = "(lambda s: (len(s), s))(x.alternative_genomic_sequence)"
        if via_from_dict:
            # the same haplotype rebuilt from its dictionary form on the same parent (the way query results and
            # liftover_to_parent_or_seq_chunk_parent rebuild collections) must edit the same text
            self.name = "VariantIntervalCollection.from_dict(to_dict(x), parent).alternative_genomic_sequence[chunk parent]"
            self.call = ("(lambda s: (len(s), s))(VariantIntervalCollection.from_dict(x.to_dict(), cp)"
                         ".alternative_genomic_sequence)")
        self.module = "gene.variants"
        self.func = (VCOL if two else VAR) + ".alternative_genomic_sequence"
        self.ensures = {
            "length": lambda i, r: r[0] == i.L + sum(i.ds, 0),
            "k-th-character-is-the-literal-substitution": lambda i, r: Implies(
                And(0 <= i.k, i.k < r[0]), _charat(r[1], i.k) == _edit_model(i, i.k)),
        }

    def inputs(self, S):
        from .c04_liftover import chunk_parent
        cp, cs, ce = chunk_parent(S)
        ref = S.symstr("chunk_seq")
        k = S.int("k")
        vs1, ve1 = S.int("v1_start"), S.int("v1_end")
        alt1 = S.symstr("v1_alt", "ACGTN")
        S.assume(And(cs <= vs1, vs1 < ve1, ve1 <= ce))
        v1 = S.new(VAR, vs1, ve1, alt1, "v", parent_or_seq_chunk_parent=cp)
        edits = [(vs1 - cs, ve1 - cs, alt1)]
        x = v1
        if self.two:
            vs2, ve2 = S.int("v2_start"), S.int("v2_end")
            alt2 = S.symstr("v2_alt", "ACGTN")
            S.assume(And(ve1 <= vs2, vs2 < ve2, ve2 <= ce))
            v2 = S.new(VAR, vs2, ve2, alt2, "v", parent_or_seq_chunk_parent=cp)
            edits.append((vs2 - cs, ve2 - cs, alt2))
            x = S.new(VCOL, [v1, v2], parent_or_seq_chunk_parent=cp)
        return NS(x=x, k=k, ref=ref, L=ce - cs, edits=edits, ds=[slen(a) - (e - s) for s, e, a in edits], cp=cp,
                  VariantIntervalCollection=S.cls(VCOL))

    def samples(self, rng):
        cs = rng.randint(0, 5)
        L = rng.randint(6, 14)
        a = rng.randint(cs, cs + L - 4)
        b = a + rng.randint(1, 2)
        d = dict(chunk_start=cs, chunk_end=cs + L, chunk_seq="".join(rng.choice("ACGT") for _ in range(L)),
                 v1_start=a, v1_end=b, v1_alt="".join(rng.choice("ACGT") for _ in range(rng.randint(0, 3))), k=rng.randint(0, 12))
        if self.two:
            c = rng.randint(b, cs + L - 1)
            d.update(v2_start=c, v2_end=min(cs + L, c + rng.randint(1, 2)),
                     v2_alt="".join(rng.choice("ACGT") for _ in range(rng.randint(0, 3))))
        return d

    def observe(self, r):
        from pyvc.check import default_observe as o
        text = r[1].sequence if hasattr(r[1], "attrs") else str(r[1])
        return [o(r[0]), text if isinstance(text, str) else None]


def _charat(seq, k):
    """code point of the k-th character of a Sequence (engine Obj with symbolic text, or a real Sequence)."""
    t = seq.sequence if hasattr(seq, "attrs") else str(seq)
    if hasattr(t, "arr"):
        import z3
        return z3.Select(t.arr, k)
    return ord(t[k]) if 0 <= k < len(t) else -1


def _refat(ref, k):
    if hasattr(ref, "arr"):
        import z3
        return z3.Select(ref.arr, k)
    return ord(ref[k]) if 0 <= k < len(ref) else -1


def _edit_model(i, k):
    """k-th code point of the reference with the edits (sorted, disjoint, chunk-relative) literally substituted."""
    shift = 0
    expr = None
    pieces = []  # (condition on k, value)
    pos = 0  # start, in edited coordinates, of the current reference stretch; reference offset = -shift
    prev_end = 0
    for s, e, alt in i.edits:
        l = slen(alt)
        # reference stretch [prev_end, s) sits at edited [prev_end + shift, s + shift)
        pieces.append((k < s + shift, _refat(i.ref, k - shift)))
        pieces.append((k < s + shift + l, _refat(alt, k - (s + shift))))
        shift = shift + l - (e - s)
        prev_end = e
    last = _refat(i.ref, k - shift)
    out = last
    for cond, val in reversed(pieces):
        out = If(cond, val, out)
    return out


CASES = [LiftSingle(), CollectionLiftSingle(), AlternativeSequence(False), AlternativeSequence(True),
         AlternativeSequence(True, via_from_dict=True),
         LiftCompound(2), LiftCompound(3), LiftCompound(2, through_public=True), LiftCompound(2, overlap=True),
         LiftCompound(2, overlap=True, collection=True), LiftCompound(2, through_public=True, overlap=True)]

CANARIES = [
    dict(name="lift-over: insertion abutting block start", props=("C13",), file="inscripta/biocantor/gene/variants.py",
         old="new_start = old_start if old_start < self.chromosome_location.end else old_start + len_diff",
         new="new_start = old_start if old_start <= self.chromosome_location.end else old_start + len_diff",
         case="VariantInterval._lift_over_chromosome_location_single_interval",
         expect="post:variant-wholly-before-shifts-by-d"),
]
