"""CLI: ``python3-vt -m pyvc.check <property-id> [--tier quick|thorough]``  (cwd = /verif)

exit 0  every obligation discharged, bounded checks found nothing, only listed known findings reproduced
exit 1  VIOLATION property=<id> replay=<path>   (a refuted obligation; replayed natively where a model exists)
exit 2  undecided (an obligation neither discharged nor refuted)
exit 3  checker error (unsupported construct, vacuous contract, canary not killed, encoding disagreement, crash)
"""
import argparse
import hashlib
import importlib
import json
import multiprocessing as mp
import os
import random
import subprocess
import sys
import time

HERE = os.path.dirname(os.path.dirname(os.path.abspath(__file__)))
REPO = os.environ.get("PYVC_REPO", "/repo")
NATIVE_PY = os.environ.get("PYVC_NATIVE_PY", "/venv/bin/python")


def load_cases(prop):
    import contracts
    out = []
    for modname in contracts.MODULES:
        mod = importlib.import_module("contracts." + modname)
        for c in mod.CASES:
            if prop in c.props:
                out.append(("contracts." + modname, c))
    return out


def _lib_for(modname):
    import contracts
    for m in contracts.MODULES:  # registrations of summaries / loop specs happen at import
        importlib.import_module("contracts." + m)
    mod = importlib.import_module(modname)
    lib = getattr(mod, "LIB", None)
    if lib is None:
        from contracts.lib import LIB as lib
    return lib


def _worker(job):
    modname, cname, seed, overrides = job[:4]
    scope = job[4] if len(job) > 4 else None
    initial = job[5] if len(job) > 5 else None
    from pyvc.repo import Repo
    from pyvc.verify import verify_case
    mod = importlib.import_module(modname)
    case = [c for c in mod.CASES if c.name == cname][0]
    repo = Repo(overrides=overrides)
    res = verify_case(case, repo, _lib_for(modname), seed=seed, scope=scope, initial=initial)
    out = res.to_json()
    out["scope"] = scope
    return out


def _frontier_worker(job):
    """decision prefixes that partition the path space of a case declared ``shard_depth = d`` (the exploration of
    one heavy case is spread over the process pool; the union of the shards is the whole exploration)."""
    modname, cname, seed, overrides = job[:4]
    scope = job[4] if len(job) > 4 else None
    from pyvc.repo import Repo
    from pyvc.verify import case_frontier
    mod = importlib.import_module(modname)
    case = [c for c in mod.CASES if c.name == cname][0]
    try:
        return case_frontier(case, Repo(overrides=overrides), _lib_for(modname), seed, scope, case.shard_depth)
    except Exception:
        return None  # fall back to the unsharded job (errors are reported there)


def _shard_depth(job):
    mod = importlib.import_module(job[0])
    case = [c for c in mod.CASES if c.name == job[1]][0]
    return getattr(case, "shard_depth", 0) or 0


class _ShardHandle:
    def __init__(self, handle, owner, n, fmap):
        self.handle, self.owner, self.n, self.fmap = handle, owner, n, fmap

    def get(self):
        res = self.handle.get() if self.handle is not None else []
        merged = [None] * self.n
        for k, r in zip(self.owner, res):
            merged[k] = r if merged[k] is None else _merge_shards(merged[k], r)
        for k in self.fmap:
            if self.fmap[k] and merged[k] is not None:
                merged[k]["shards"] = len(self.fmap[k])
        return merged


def sharded_map(pool, jobs):
    return sharded_submit(pool, jobs).get()


def sharded_submit(pool, jobs):
    """pool.map_async(_worker, jobs) with the jobs of sharded cases split along their frontier and the shard results
    merged back (verdicts: refuted > unknown > discharged, paths / seconds summed; covers: any shard)."""
    jobs = [tuple(j) for j in jobs]
    idx = [k for k, j in enumerate(jobs) if _shard_depth(j) > 0]
    fronts = pool.map(_frontier_worker, [jobs[k] for k in idx], chunksize=1) if idx else []
    flat, owner = [], []
    fmap = dict(zip(idx, fronts))
    for k, j in enumerate(jobs):
        fr = fmap.get(k)
        if fr:
            base = tuple(j[:5]) + (None,) * (5 - len(j[:5]))
            for prefix in fr:
                flat.append(base + (prefix,))
                owner.append(k)
        else:
            flat.append(j)
            owner.append(k)
    handle = pool.map_async(_worker, flat, chunksize=1) if flat else None
    return _ShardHandle(handle, owner, len(jobs), fmap)


_RANK = {"discharged": 0, "unknown": 1, "refuted": 2}


def _merge_shards(a, b):
    out = dict(a)
    vs = {v["name"]: dict(v) for v in a["verdicts"]}
    for v in b["verdicts"]:
        if v["name"] not in vs:
            vs[v["name"]] = dict(v)
            continue
        o = vs[v["name"]]
        o["paths"] += v["paths"]
        o["seconds"] = round(o["seconds"] + v["seconds"], 4)
        if _RANK[v["status"]] > _RANK[o["status"]]:
            o["status"], o["prims"], o["detail"] = v["status"], v["prims"], v["detail"]
    out["verdicts"] = list(vs.values())
    out["covers"] = {k: bool(a["covers"].get(k)) or bool(b["covers"].get(k)) for k in set(a["covers"]) | set(b["covers"])}
    out["error"] = a["error"] or b["error"]
    out["paths"] = a["paths"] + b["paths"]
    out["seconds"] = round(max(a["seconds"], b["seconds"]), 3)  # wall time of the slowest shard
    out["solver_seconds"] = round(a["solver_seconds"] + b["solver_seconds"], 3)
    out["trusted"] = sorted(set(a["trusted"]) | set(b["trusted"]))
    out["calls"] = sorted(set(a["calls"]) | set(b["calls"]))
    files = dict(a["files"])
    files.update(b["files"])
    out["files"] = files
    return out


def _concrete_worker(job):
    """Engine in concrete mode on sampled primitives: outcome descriptions for the CPython cross-check."""
    modname, cname, prims_list = job
    from pyvc.repo import Repo
    from pyvc.verify import run_concrete
    from pyvc.sources import Skip
    from pyvc.values import Unsupported
    mod = importlib.import_module(modname)
    case = [c for c in mod.CASES if c.name == cname][0]
    repo = Repo()
    out = []
    for prims in prims_list:
        try:
            kind, v, inp = run_concrete(case, repo, _lib_for(modname), prims)
            if kind == "return":
                obs = case.observe(v) if hasattr(case, "observe") else default_observe(v)
                out.append({"outcome": "return", "obs": obs})
            else:
                out.append({"outcome": "raise:" + v})
        except Skip:
            out.append({"skip": True})
        except Unsupported as ex:
            out.append({"unsupported": str(ex)})
        except Exception as ex:
            out.append({"error": f"{type(ex).__name__}: {ex}"})
    return out


def default_observe(v):
    try:
        import z3
        if isinstance(v, z3.ExprRef):
            v = z3.simplify(v)
            if z3.is_int_value(v):
                return v.as_long()
            if z3.is_true(v):
                return True
            if z3.is_false(v):
                return False
            return str(v)
    except ImportError:
        pass
    if v is None or isinstance(v, (bool, int, str)):
        return v
    if isinstance(v, (list, tuple)):
        return [default_observe(x) for x in v]
    if hasattr(v, "members") and hasattr(v, "idx"):
        return f"{v.cls.name}.{v.members[v.idx][0]}" if isinstance(v.idx, int) else str(v)
    import enum
    if isinstance(v, enum.Enum):
        return f"{type(v).__name__}.{v.name}"
    if hasattr(v, "ranges") and hasattr(v, "items"):
        return {"set": _sorted_obs(v.items)} if not v.ranges else "set-with-ranges"
    if isinstance(v, (set, frozenset)):
        return {"set": _sorted_obs(v)}
    if hasattr(v, "cls") and hasattr(v, "attrs"):
        return "obj:" + v.cls.name
    return "obj:" + type(v).__name__


def _sorted_obs(items):
    return sorted((default_observe(i) for i in items), key=lambda x: json.dumps(x, default=str))


def run_native(jobs, timeout=900, hashseed=None):
    """jobs: list of {module, case, prims}. Returns list of results (same order)."""
    if not jobs:
        return []
    env = dict(os.environ)
    env["PYTHONPATH"] = HERE + os.pathsep + REPO
    env["PYTHONHASHSEED"] = str(hashseed) if hashseed is not None else env.get("PYTHONHASHSEED", "0")
    p = subprocess.run([NATIVE_PY, "-m", "pyvc.native"], input=json.dumps(jobs), capture_output=True, text=True,
                       env=env, cwd=REPO, timeout=timeout)
    if p.returncode != 0:
        raise RuntimeError("native runner failed: " + p.stderr[-2000:])
    return json.loads(p.stdout)


def load_known():
    path = os.path.join(HERE, "known_findings.json")
    if not os.path.exists(path):
        return []
    return json.load(open(path))


def main(argv=None):
    ap = argparse.ArgumentParser()
    ap.add_argument("prop")
    ap.add_argument("--tier", default=os.environ.get("VERIF_TIER", "quick"))
    ap.add_argument("--jobs", type=int, default=min(16, os.cpu_count() or 4))
    ap.add_argument("--replay", default=None)
    ap.add_argument("--no-evidence", action="store_true")
    args = ap.parse_args(argv)
    sys.path.insert(0, HERE)
    os.chdir(HERE)
    seed = int(os.environ.get("VERIF_SEED", "0") or 0)
    tier = "thorough" if args.tier == "thorough" else "quick"
    if args.replay:
        return replay_file(args.replay)
    t0 = time.time()
    prop = args.prop
    all_cases = load_cases(prop)
    cases = [(m, c) for m, c in all_cases if tier == "thorough" or c.tier != "thorough"]
    skipped_thorough = [c.name for m, c in all_cases if c.tier == "thorough" and tier != "thorough"]
    lines = []
    status = 0

    def bump(code):
        nonlocal status
        order = {0: 0, 2: 1, 1: 2, 3: 3}  # error > violation > undecided > ok
        if order[code] > order[status]:
            status = code

    if not cases:
        print(f"CHECKER-ERROR property={prop}: no cases registered")
        return 3
    # ---------------------------------------------------------------- proof obligations
    jobs = [(m, c.name, seed, None) for m, c in cases if c.proved]
    # clauses that need the exact (unabstracted) semantics are additionally proved with the sequence length fixed
    # (all integer coordinates, block count n): reported as separate obligations '<clause>[len=n]'
    also_jobs = [(m, c.name, seed, None, n) for m, c in cases if c.proved for n in getattr(c, "also_scopes", ())]
    phases = {}
    tp = time.time()

    def phase(name):
        nonlocal tp
        phases[name] = round(time.time() - tp, 1)
        tp = time.time()

    # longest cases first (a long case started last would otherwise determine the wall time)
    order_hint = _load_case_times(prop)
    jobs.sort(key=lambda j: -order_hint.get(j[1], 1e9))
    known = [k for k in load_known() if k.get("property") == prop]
    from concurrent.futures import ThreadPoolExecutor
    side = ThreadPoolExecutor(1)
    with mp.Pool(args.jobs) as pool:
        # the bounded tier (native subprocesses) and the canary mutants run alongside the proof jobs
        bounded_future = side.submit(run_bounded, prop, cases, tier, known)
        all_res_async = sharded_submit(pool, jobs + also_jobs) if jobs else None
        canaries_started = start_canaries(prop, pool, seed)
        all_res = all_res_async.get() if all_res_async is not None else []
        phase("proof")
        results, also_results = all_res[:len(jobs)], all_res[len(jobs):]
        # ------------------------------------------------------------ finite-scope refutation of undecided VCs
        # (quantifier instantiation is refutation-incomplete: a false quantified VC answers 'unknown', DESIGN 2.9)
        fs_jobs = []
        res_by_name = {r["case"]: r for r in results}
        for (m, c), r in [((m, c), res_by_name[c.name]) for m, c in cases if c.proved]:
            if getattr(c, "scopes", None) and (any(v["status"] == "unknown" for v in r["verdicts"])
                                               or (r["error"] and "unsupported" in r["error"])):
                # also when the general (symbolic block count) run left the executor's subset - typically because the
                # code under contract was rewritten with a construct that is only modelled for concrete lengths: the
                # finite scopes execute the same real code with the block count fixed
                fs_jobs += [(m, c.name, seed, None, n) for n in c.scopes]
        fs_results = sharded_map(pool, fs_jobs) if fs_jobs else []
        phase("finite-scope-fallback")
        # ------------------------------------------------------------ canaries (engine must catch seeded mutants)
        canary_report = finish_canaries(canaries_started)
        # ------------------------------------------------------------ CPython cross-check of the encoding
        phase("canaries(remaining)")
        xcheck = run_crosscheck(cases, pool, seed, tier)
        phase("cpython-crosscheck")
    by_case = {r["case"]: r for r in results}
    fs_by_case = {}
    for r in fs_results:
        fs_by_case.setdefault(r["case"], []).append(r)
    obligations = []
    refuted = []
    confirmed_any = []  # violations reproduced on the real code: they stand whatever else the run reports
    for modname, c in cases:
        if not c.proved:
            continue
        r = by_case[c.name]
        if r["error"]:
            hit = None
            for fr in fs_by_case.get(c.name, []):
                for fv in fr["verdicts"]:
                    if fv["status"] == "refuted" and hit is None:
                        hit = (fr["scope"], fv)
            if hit is not None:
                # the general proof could not be attempted, but the same contract clause is refuted with the block
                # count fixed: reported as a refuted obligation (replayed natively below), not as a checker error
                ob = dict(hit[1])
                ob.update(case=c.name, module=modname, full=f"{prop}/{c.func}/{c.name}/{hit[1]['name']}",
                          backend=f"z3 finite-scope expansion (sequence length {hit[0]})",
                          detail=(f"general proof not attempted ({r['error'][:120]}); refuted with block count fixed to "
                                  f"{hit[0]}: {hit[1]['name']}: {hit[1]['detail'][:200]}"))
                obligations.append(ob)
                refuted.append(ob)
                continue
            lines.append(f"CHECKER-ERROR case={c.name}: {r['error'][:1500]}")
            bump(3)
            continue
        for cov, ok in r["covers"].items():
            if cov.startswith("known:"):
                kf = [k for k in load_known() if k.get("id") == cov[6:]]
                lines.append(f"KNOWN-FINDING: property={prop} " + (kf[0]["what"] if kf else cov[6:]))
                continue
            if not ok and cov not in getattr(c, "allow_uncovered", ()):
                if any(v["status"] == "refuted" for v in r["verdicts"]):
                    continue  # the case already has a refuted obligation: an unreachable outcome is its consequence
                lines.append(f"CHECKER-ERROR case={c.name}: cover '{cov}' unreachable (vacuous contract clause)")
                bump(3)
        verdicts = list(r["verdicts"])
        for ar in also_results:
            if ar["case"] == c.name:
                if ar["error"]:
                    lines.append(f"CHECKER-ERROR case={c.name}[len={ar['scope']}]: {ar['error'][:800]}")
                    bump(3)
                for v in ar["verdicts"]:
                    v2 = dict(v)
                    v2["name"] = f"{v['name']}[len={ar['scope']}]"
                    v2["backend"] = f"z3, sequence length fixed to {ar['scope']} (all integer coordinates)"
                    verdicts.append(v2)
        for v in verdicts:
            ob = dict(v)
            ob["case"] = c.name
            ob["module"] = modname
            ob["full"] = f"{prop}/{c.func}/{c.name}/{v['name']}"
            obligations.append(ob)
            if v["status"] == "refuted":
                refuted.append(ob)
            elif v["status"] == "unknown":
                hit = None
                for fr in fs_by_case.get(c.name, []):
                    for fv in fr["verdicts"]:
                        if fv["status"] == "refuted" and hit is None:
                            hit = (fr["scope"], fv)
                if hit is not None:
                    ob["status"] = "refuted"
                    ob["prims"] = hit[1]["prims"]
                    ob["name"] = hit[1]["name"]
                    ob["backend"] = f"z3 finite-scope expansion (sequence length {hit[0]})"
                    ob["detail"] = (f"undecided in general; refuted with block count fixed to {hit[0]}: "
                                    f"{hit[1]['name']}: {hit[1]['detail'][:200]}")
                    if not any(o2["case"] == c.name and o2.get("name") == ob["name"] for o2 in refuted):
                        refuted.append(ob)
                else:
                    lines.append(f"UNDECIDED obligation={ob['full']} ({v['detail'][:200]})")
                    bump(2)
    # ---------------------------------------------------------------- replay refutations natively
    os.makedirs(os.path.join(HERE, "replays", prop), exist_ok=True)
    # repeat: the call is evaluated twice in the replaying process; a clause that fails only on the SECOND call (state
    # left behind by the first: registries, memo slots) is a failing history of two calls on the real code
    njobs = [dict(module=o["module"], case=o["case"], prims=o["prims"], repeat=True) for o in refuted
             if o["prims"] is not None]
    try:
        nres = run_native(njobs)
    except Exception as ex:
        nres = [{"error": str(ex)} for _ in njobs]
    it = iter(nres)

    def _confirms(o, nat):
        clause = o["name"].split("[len=")[0]
        return bool(nat and not nat.get("skip") and not nat.get("error")
                    and nat.get("checks", {}).get(clause) is False)

    for o in refuted:
        o["native"] = next(it) if o["prims"] is not None else None
        o["confirmed"] = _confirms(o, o["native"])
    # second chance for a failing input: a refutation obtained through a loop invariant or a callee contract gives a
    # model of the ABSTRACTED program, which need not replay; where the case declares finite scopes, the same clause
    # is searched with the real loops unrolled at those block counts and every model found is replayed natively
    case_by_name = {c.name: (m, c) for m, c in cases}
    retry = sorted({o["case"] for o in refuted if not o["confirmed"] and match_known(known, o) is None
                    and getattr(case_by_name[o["case"]][1], "scopes", None)})
    if retry:
        rjobs = [(case_by_name[n][0], n, seed, None, k) for n in retry for k in case_by_name[n][1].scopes]
        with mp.Pool(min(args.jobs, len(rjobs))) as pool2:
            rres = sharded_map(pool2, rjobs)
        cands = []
        for rr in rres:
            for fv in rr["verdicts"]:
                if fv["status"] == "refuted" and fv["prims"] is not None:
                    cands.append((rr["case"], rr["scope"], fv))
        try:
            cnat = run_native([dict(module=case_by_name[cn][0], case=cn, prims=fv["prims"]) for cn, _, fv in cands])
        except Exception:
            cnat = [None] * len(cands)
        for o in refuted:
            if o["confirmed"] or o["case"] not in retry:
                continue
            for (cn, scope, fv), nat in zip(cands, cnat):
                if cn == o["case"] and fv["name"] == o["name"].split("[len=")[0] and _confirms(o, nat):
                    o["detail"] = (f"{o['detail'][:200]} || failing input found with the loops unrolled at block "
                                   f"count {scope}: {fv['detail'][:150]}")
                    o["prims"], o["native"], o["confirmed"] = fv["prims"], nat, True
                    break
    phase("native-replay")
    for o in refuted:
        nat = o["native"]
        confirmed = o["confirmed"]
        rp = write_replay(prop, o, nat)
        kf = match_known(known, o)
        if kf is not None:
            lines.append(f"KNOWN-FINDING: property={prop} {kf['what']}"
                         + ("" if confirmed else " (obligation refuted; stored witness checked separately)"))
            o["known"] = kf["id"]
            continue
        if confirmed:
            lines.append(f"VIOLATION property={prop} replay={rp}")
            confirmed_any.append(rp)
        else:
            lines.append(f"VIOLATION property={prop} replay={rp} no-failing-input-found")
        lines.append(f"  obligation {o['full']} refuted: {o['detail'][:300]}; inputs {json.dumps(o['prims'])}; "
                     f"native: {json.dumps(nat)[:300] if nat else 'n/a'}")
        bump(1)
    # ---------------------------------------------------------------- bounded tier
    bounded_report, blines, bcode = bounded_future.result()
    side.shutdown()
    phase("bounded(remaining)")
    lines += blines
    bump(bcode)
    for l in canary_report["lines"]:
        lines.append(l)
    if canary_report["failed"]:
        bump(3)
    for l in xcheck["lines"]:
        lines.append(l)
    if xcheck["disagreements"]:
        bump(3)
    for h in xcheck.get("history", []):
        o = dict(full=f"{prop}/{h['case']}/answer-independent-of-earlier-calls-in-the-process", module=h["module"],
                 case=h["case"], name="answer-independent-of-earlier-calls-in-the-process", prims=h["prims"],
                 detail=("in a fresh process the real code answers " + json.dumps(h["fresh"].get("obs", h["fresh"].get("outcome")), default=str)[:200]
                         + "; after the earlier sampled calls of this case in the same process it answers "
                         + json.dumps(h["after_history"].get("obs", h["after_history"].get("outcome")), default=str)[:200]))
        rp = write_replay(prop, o, dict(fresh=h["fresh"], after_history=h["after_history"], history=h["history"]))
        lines.append(f"VIOLATION property={prop} replay={rp}")
        lines.append(f"  obligation {o['full']} refuted: {o['detail']}; inputs {json.dumps(h['prims'], default=str)[:300]}")
        confirmed_any.append(rp)
        bump(1)
    # ---------------------------------------------------------------- known findings: stored witnesses
    kf_lines, kf_report = check_known_witnesses(prop, known, obligations, bounded_report)
    lines += kf_lines
    # ---------------------------------------------------------------- evidence
    wall = time.time() - t0
    n_ob = len(obligations)
    n_dis = sum(1 for o in obligations if o["status"] == "discharged")
    n_known = sum(1 for o in obligations if o.get("known"))
    functions = sorted({c.func for _, c in cases if c.proved})
    bounded_functions = sorted({c.func for _, c in cases if not c.proved})
    trusted = sorted({t for r in results for t in r.get("trusted", [])})
    files = {}
    for r in results:
        files.update(r.get("files", {}))
    samples = [dict(obligation=o["full"], status=o["status"], paths=o["paths"], seconds=o["seconds"])
               for o in obligations[:6]]
    evidence = {
        "property_id": prop,
        "tier": tier,
        "seed": seed,
        "level": "proof",
        "coverage": {
            "obligations": n_ob,
            "discharged": n_dis,
            "checker_cmd": f"python3-vt -m pyvc.check {prop} --tier {tier}",
            "trusted_base": TRUSTED_BASE + ["library models used on this run: " + ", ".join(trusted or ["none"])],
            "samples": samples,
            "functions_under_contract": functions,
            "functions_bounded_only": bounded_functions,
            "by_backend": {"z3 (python API, per-path incremental)": n_dis},
            "refuted": [dict(obligation=o["full"], inputs=o["prims"], confirmed_natively=o.get("confirmed"),
                             known_finding=o.get("known")) for o in refuted],
            "undecided": [o["full"] for o in obligations if o["status"] == "unknown"],
            "solver_time_s": round(sum(r.get("solver_seconds", 0) for r in results)
                                   + sum(o["seconds"] for o in obligations), 3),
            "paths_explored": sum(r.get("paths", 0) for r in results),
            "slowest": sorted(((o["seconds"], o["full"]) for o in obligations), reverse=True)[:3],
            "covers": {r["case"]: r["covers"] for r in results},
            "canaries": canary_report["report"],
            "encoding_crosscheck": xcheck["report"],
            "bounded": bounded_report,
            "known_findings": kf_report,
            "file_hashes": files,
            "cases": [c.name for _, c in cases],
            "case_seconds": {r["case"]: r.get("seconds") for r in results},
            "cases_run_only_in_thorough_tier": skipped_thorough,
            "not_covered": NOT_COVERED.get(prop, []),
        },
        "assumptions": ASSUMPTIONS,
        "wall_s": round(wall, 3),
        "phases_s": phases,
        "violations": sum(1 for l in lines if l.startswith("VIOLATION")),
    }
    if not args.no_evidence:
        os.makedirs(os.path.join(HERE, "evidence"), exist_ok=True)
        with open(os.path.join(HERE, "evidence", f"{prop}.json"), "w") as fh:
            json.dump(evidence, fh, indent=1, default=str)
    if confirmed_any:
        status = 1
    for l in lines:
        print(l)
    print(f"{prop}: obligations={n_ob} discharged={n_dis} refuted={len(refuted)} known={n_known} "
          f"functions={len(functions)} bounded_cases={bounded_report.get('cases', 0)} wall={wall:.1f}s exit={status}")
    return status


TRUSTED_BASE = [
    "pyvc symbolic executor (/verif/pyvc): Python-subset semantics A1-A6 of DESIGN 2.2, cross-checked against CPython "
    "on sampled inputs every run",
    "z3 4.x/5.x SMT solver (python API); Python ints are SMT Int (unbounded) - no machine-arithmetic assumption",
    "extraction drops: docstrings, annotations, decorators (lru_cache = identity, A5), the message argument of raise",
    "builtins/library models: len abs min max sum range zip enumerate reversed iter next isinstance type any all "
    "tuple list set dict sorted(stable insertion order, forking on comparisons) functools.reduce itertools.chain/"
    "islice/zip_longest warnings.warn(no-op)",
]
ASSUMPTIONS = [
    "A1 evaluation order and exceptions of the subset follow the CPython data model as encoded",
    "A2 no monkey-patching, __getattr__, threads, signals, MemoryError, RecursionError",
    "A3 distinct parameters of a verified function do not alias mutable state",
    "A4 builtins and library calls satisfy the assumed contracts (trusted_base)",
    "A5 lru_cache / methodtools.lru_cache are identities on values",
    "A6 warnings.warn does not raise",
    "A7 set / dict membership of library objects is decided with __eq__ alone (CPython also consults __hash__): assumes "
    "hash and eq agree - checked statically for the memoised Parent class, and Parent.equals_except_location has its own "
    "contract",
    "meta-lemmas L1 (character-wise percent encoder is inverted by percent decoding, any length), L2 (stable sort by "
    "start keeps a parent row before its child rows, any number of rows) and H (frame + memo invariant => answers "
    "independent of the call history, any history) are machine-checked in Lean 4 (lemmas/Lemmas.lean, run by "
    "MANIFEST.setup_cmd); their hypotheses are the per-character / per-function obligations discharged by this check",
]
NOT_COVERED = {
    "C13": ["collections of more than two variants (induction over the composition lemma)",
            "incorporate_variants on FeatureIntervalCollection / AnnotationCollection (loops over the children: covered "
            "through the per-child contracts and the two-isoform GeneInterval case only)",
            "marshmallow field validation inside Schema().load (third-party; modelled as 'records its argument')"],
    "C18": ["GenBank locus-tag grouping: decided for the two grouping methods on plain record objects carrying the "
            "attributes they read (not on Biopython SeqFeature objects, and not through the conversion of the groups "
            "into gene models: GeneFeature / TranscriptFeature constructors)"],
    "C01": ["CompoundInterval.relative_interval_to_parent_location / parent_to_relative_location / location_relative_to "
            "(block-list rebuild followed by constructor re-sort / optimize_blocks): proved for 1..3 blocks with symbolic "
            "coordinates, no contract for an arbitrary number of blocks",
            "overlapping-block layouts for the interval forms (bounded tier only)"],
    "C02": ["CompoundInterval.intersection / union / minus / has_overlap / contains with compound operands: "
            "proved for fixed block counts (1..3 x 1..2) with symbolic coordinates, no contract for arbitrary block counts",
            "gap_list / gaps_location / extend_absolute / extend_relative / shift_position / reverse / merge_overlapping: "
            "proved for 2 (quick) and 3 (thorough) blocks that may overlap or nest, no contract for arbitrary block counts",
            "random pairs over large genomes (replaced by the unbounded single-interval proofs)"],
    "C03": ["Sequence.append of sequences located on COMPOUND intervals symbolically (single-interval locations and "
            "reverse_complement on two-block locations are proved on symbolic text)"],
    "C08": ["marshmallow schema load/dump through JSON (io/models.py not importable)"],
    "C11": ["parse-back leg: BOUNDED only (natively through gffutils + _parse_genes; the marshmallow schema step and the "
            "re-export of the parsed model need io/models.py, which cannot be imported), FASTA section"],
    "C12": ["not claimed"],
    "C17": ["partial / pseudo flags, feature kinds and locus-tag stepping for SYMBOLIC coordinates and sequences (decided on "
            "complete small domains executed in the verifier; random id strings are stubbed, reproducibility for a fixed "
            "seed is checked natively in the bounded tier)"],
}


def _load_case_times(prop):
    """per-case seconds of the previous run (scheduling hint only; absent on a fresh checkout)."""
    try:
        ev = json.load(open(os.path.join(HERE, "evidence", f"{prop}.json")))
        return {k: v or 0 for k, v in ev["coverage"].get("case_seconds", {}).items()}
    except Exception:
        return {}


def match_known(known, o):
    for k in known:
        if k.get("status") != "known":
            continue
        # carve-outs are applied inside the proof, so a refutation that survives them is a NEW violation; only a
        # refutation on exactly the stored witness is the listed finding
        if k.get("case") == o["case"] and k.get("obligation") == o["name"] and k.get("witness") == o.get("prims"):
            return k
    return None


def write_replay(prop, o, nat):
    fn = hashlib.sha1(o["full"].encode()).hexdigest()[:10]
    safe = "".join(ch if ch.isalnum() or ch in "-_." else "_" for ch in o["case"] + "." + o["name"])[:80]
    path = os.path.join("replays", prop, f"{safe}.{fn}.json")
    with open(os.path.join(HERE, path), "w") as fh:
        json.dump(dict(property=prop, obligation=o["full"], module=o["module"], case=o["case"], clause=o["name"],
                       prims=o["prims"], solver_detail=o["detail"], native=nat,
                       how="python3-vt -m pyvc.check %s --replay %s" % (prop, path)), fh, indent=1, default=str)
    return os.path.join("/verif", path) if HERE == "/verif" else os.path.join(HERE, path)


def replay_file(path):
    d = json.load(open(path))
    if d.get("prims") is None:
        print("no concrete inputs in this replay file (no-failing-input-found); solver output:")
        print(d.get("solver_detail"))
        return 1
    res = run_native([dict(module=d["module"], case=d["case"], prims=d["prims"], repeat=True)])[0]
    print(json.dumps(res, indent=1))
    ok = res.get("checks", {}).get(d["clause"])
    print(f"clause {d['clause']} natively: {ok}")
    return 0 if ok else 1


# ------------------------------------------------------------------------------------------------- canaries
def start_canaries(prop, pool, seed):
    import contracts
    report, lines, failed = [], [], False
    jobs = []
    meta = []
    for modname in contracts.MODULES:
        mod = importlib.import_module("contracts." + modname)
        for can in getattr(mod, "CANARIES", []):
            if prop not in can.get("props", ()):
                continue
            path = can["file"]
            src = open(os.path.join(REPO, path), encoding="utf-8").read()
            if src.count(can["old"]) != 1:
                # the anchored text changed (the tree was edited): a canary that cannot be applied is skipped and
                # reported, it does not fail the run (it says nothing about the property)
                report.append(dict(name=can["name"], applied=False))
                continue
            # 'scope': refute the mutant with the sequence length fixed (false quantified VCs answer 'unknown')
            jobs.append(("contracts." + modname, can["case"], seed, {path: src.replace(can["old"], can["new"])},
                         can.get("scope")))
            meta.append(can)
    handle = sharded_submit(pool, jobs) if jobs else None
    return dict(handle=handle, meta=meta, report=report)


def finish_canaries(started):
    report, lines, failed = started["report"], [], False
    results = started["handle"].get() if started["handle"] is not None else []
    for can, r in zip(started["meta"], results):
        killed = any(v["status"] == "refuted" and v["name"] == can["expect"] for v in r["verdicts"])
        report.append(dict(name=can["name"], applied=True, killed=killed, expect=can["expect"]))
        if not killed:
            failed = True
            lines.append(f"CHECKER-ERROR canary '{can['name']}' not caught: expected {can['expect']} to be refuted "
                         f"({r.get('error')})")
    return dict(report=report, lines=lines, failed=failed)


# ------------------------------------------------------------------------------------------------- cross-check
def run_crosscheck(cases, pool, seed, tier):
    n = 40 if tier == "quick" else 400
    jobs, meta = [], []
    for modname, c in cases:
        if not c.proved or (c.samples is None and c.ground is None):
            continue
        rng = random.Random(f"{seed}:{c.name}")
        if c.samples is not None:
            k = getattr(c, "xcheck_n", None)
            prims = [c.samples(rng) for _ in range(n if k is None else (k if tier == "quick" else 10 * k))]
        else:
            prims = list(c.ground())
            if len(prims) > 6000:
                prims = rng.sample(prims, 6000)
        jobs.append((modname, c.name, prims))
        meta.append((modname, c, prims))
    eng_out = pool.map(_concrete_worker, jobs, chunksize=1) if jobs else []
    native_jobs = [dict(module=m, case=c.name, prims=p) for (m, c, prims) in meta for p in prims]
    try:
        nat = run_native(native_jobs)
    except Exception as ex:
        return dict(report=dict(error=str(ex)), lines=[f"CHECKER-ERROR cross-check native runner: {ex}"],
                    disagreements=1)
    report = {}
    lines = []
    dis = 0
    k = 0
    mism = []  # (module, case, prims, engine outcome, native outcome, index of the native job)
    for (m, c, prims), eouts in zip(meta, eng_out):
        compared = 0
        for p, eo in zip(prims, eouts):
            no = nat[k]
            k += 1
            if eo.get("skip") or no.get("skip"):
                if bool(eo.get("skip")) != bool(no.get("skip")) and not no.get("input_error"):
                    dis += 1
                    lines.append(f"CHECKER-ERROR cross-check {c.name}: requires disagree on {p}")
                continue
            if "unsupported" in eo or "error" in eo:
                dis += 1
                lines.append(f"CHECKER-ERROR cross-check {c.name}: engine failed on {p}: {eo}")
                continue
            compared += 1
            if eo["outcome"] != no.get("outcome"):
                dis += 1
                lines.append(f"CHECKER-ERROR cross-check {c.name}: outcome engine={eo['outcome']} "
                             f"cpython={no.get('outcome')} on {p}")
                mism.append((m, c, p, eo, no, k - 1, len(lines) - 1))
                continue
            if eo["outcome"] == "return":
                nobs = no.get("obs", no.get("result"))
                if _norm(eo["obs"]) != _norm(no.get("obs_native", nobs)):
                    dis += 1
                    lines.append(f"CHECKER-ERROR cross-check {c.name}: value engine={eo['obs']} cpython={nobs} on {p}")
                    mism.append((m, c, p, eo, no, k - 1, len(lines) - 1))
        report[c.name] = compared
    # A disagreement may be the CODE's fault rather than the verifier's: the CPython side evaluates all samples in ONE
    # process, the verifier evaluates each on its own.  Each disagreeing sample (first few) is therefore re-run under
    # CPython in a FRESH process: if CPython then agrees with the verifier, the answer of the real code depends on the
    # calls that came before it in the process - a failing call history, reported as a violation with the history.
    history = []
    drop = set()
    for (m, c, p, eo, no, idx, li) in mism[:6]:
        try:
            fresh = run_native([dict(module=m, case=c.name, prims=p)])[0]
        except Exception:
            continue
        same = fresh.get("outcome") == eo["outcome"] and (
            eo["outcome"] != "return" or _norm(eo["obs"]) == _norm(fresh.get("obs_native", fresh.get("obs", fresh.get("result")))))
        if same:
            history.append(dict(module=m, case=c.name, prims=p, fresh=fresh, after_history=no,
                                history=[j["prims"] for j in native_jobs[:idx] if j["case"] == c.name][-50:]))
            drop.add(li)
    if history:
        # every disagreement of a case with a confirmed history dependence is attributed to it
        bad_cases = {h["case"] for h in history}
        keep = [l for i_, l in enumerate(lines) if not any(f"cross-check {bc}:" in l for bc in bad_cases)]
        dis = len(keep)
        lines = keep
    return dict(report=dict(samples_compared=report, disagreements=dis, history_dependent=[h["case"] for h in history]),
                lines=lines[:20], disagreements=dis, history=history)


def _norm(x):
    return json.loads(json.dumps(x, default=str))


# ------------------------------------------------------------------------------------------------- bounded tier
def run_bounded(prop, cases, tier, known):
    report = {"cases": 0, "functions": [], "label": "bounded (never counted as proved)", "items": []}
    lines = []
    code = 0
    jobs, meta = [], []
    for modname, c in cases:
        if c.domain is None:
            continue
        prims = list(c.domain(tier))
        jobs += [dict(module=modname, case=c.name, prims=p) for p in prims]
        meta.append((modname, c, prims))
    if not jobs:
        return report, lines, code
    try:
        res = run_native(jobs, timeout=3000)
    except Exception as ex:
        return report, [f"CHECKER-ERROR bounded tier native runner: {ex}"], 3
    k = 0
    os.makedirs(os.path.join(HERE, "replays", prop), exist_ok=True)
    # identifiers / answers must not depend on the hash seed: cases with ``hashseeds`` are re-run in separate
    # interpreters with other PYTHONHASHSEED values and the observations compared
    seed_runs = {}
    for modname, c, prims in meta:
        seeds = getattr(c, "hashseeds", None)
        if seeds:
            for sd in seeds[1:]:
                try:
                    seed_runs[(c.name, sd)] = run_native([dict(module=modname, case=c.name, prims=p) for p in prims],
                                                         timeout=3000, hashseed=sd)
                except Exception as ex:
                    return report, [f"CHECKER-ERROR bounded tier (hash seed {sd}): {ex}"], 3
    for modname, c, prims in meta:
        evaluated = 0
        fails = {}
        for pi, p in enumerate(prims):
            r = res[k]
            k += 1
            base_checks = dict(r.get("checks", {}))
            for (cn, sd), rr in seed_runs.items():
                if cn == c.name and not r.get("skip") and not rr[pi].get("skip"):
                    same = (rr[pi].get("obs") == r.get("obs")) and rr[pi].get("checks") == base_checks
                    r.setdefault("checks", {})["same-under-PYTHONHASHSEED-%s" % sd] = same
            if r.get("error"):
                return report, [f"CHECKER-ERROR bounded {c.name}: {r['error']}"], 3
            if r.get("skip"):
                continue
            evaluated += 1
            for label, ok in r["checks"].items():
                if not ok:
                    fails.setdefault(label, []).append((p, r))
        report["cases"] += evaluated
        report["functions"].append(c.func)
        report["items"].append(dict(case=c.name, function=c.func, scope=c.scope, evaluated=evaluated,
                                    failing_clauses={l: len(v) for l, v in fails.items()}))
        for label, fl in fails.items():
            kfs = [kf for kf in known if kf.get("status") == "known" and kf.get("case") == c.name
                   and kf.get("obligation") == label]
            new = []
            for p, r in fl:
                if any(_carved(kf, p) for kf in kfs):
                    continue
                new.append((p, r))
            for kf in kfs:
                if any(_carved(kf, p) for p, r in fl):
                    lines.append(f"KNOWN-FINDING: property={prop} {kf['what']}")
            if new:
                p, r = new[0]
                o = dict(full=f"{prop}/{c.func}/{c.name}/{label}[bounded]", module=modname, case=c.name, name=label,
                         prims=p, detail=f"bounded enumeration: {len(new)} failing inputs; first shown")
                rp = write_replay(prop, o, r)
                lines.append(f"VIOLATION property={prop} replay={rp}")
                lines.append(f"  bounded check {o['full']} fails on {json.dumps(p)}: {json.dumps(r)[:300]}")
                code = 1
    return report, lines, code


def _carved(kf, prims):
    """A known finding lists the failing inputs by a predicate over the primitives (python expression)."""
    expr = kf.get("carve")
    if not expr:
        return kf.get("witness") == prims
    try:
        return bool(eval(expr, {}, dict(prims)))
    except Exception:
        return False


def check_known_witnesses(prop, known, obligations, bounded_report):
    lines, report = [], []
    todo = [k for k in known if k.get("status") == "known" and k.get("witness") is not None]
    if not todo:
        for k in known:
            report.append(dict(id=k.get("id"), status=k.get("status")))
        return lines, report
    res = run_native([dict(module=k["module"], case=k["case"], prims=k["witness"], raw=True) for k in todo])
    printed = set()
    for k, r in zip(todo, res):
        still = r.get("checks", {}).get(k["obligation"]) is False
        report.append(dict(id=k["id"], status="known", witness_still_fails=still))
        if still:
            line = f"KNOWN-FINDING: property={prop} {k['what']}"
        else:
            line = f"NOTE: known finding {k['id']} no longer reproduces on its stored witness"
        if line not in printed:
            printed.add(line)
            lines.append(line)
    for k in known:
        if k.get("status") == "fixed":
            report.append(dict(id=k.get("id"), status="fixed", commit=k.get("commit")))
    return lines, report


if __name__ == "__main__":
    sys.exit(main())
