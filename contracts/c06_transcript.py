"""C06 — chromosome / transcript / CDS coordinate systems of a transcript commute; UTR partition; introns.
Real TranscriptInterval / CDSInterval constructors, 1..3 exons (fixed count, all coordinates), CDS = exons clipped
to [c0, c1) with c0 in the first exon and c1 in the last (so CDS starts/ends at exon boundaries and transcript ends
are included)."""
from pyvc.spec import *  # noqa
from pyvc.sources import NS
from .common import *  # noqa
from .gene_common import *  # noqa
from .c02_single import covers_pos, blocks_of
from .lib import LIB  # noqa


def coding_tx(S, n, chunk=False, start_frame=False):
    """start_frame: the 5'-most CDS block carries ANY frame (a 5'-partial CDS) - coordinate conversions and the
    amino-acid index are functions of positions only and may not depend on it."""
    starts, ends = block_lists(S, "tx", n)
    strand = strand_of(S, "strand")
    cds_s, cds_e, c0, c1 = cds_in_exons(S, starts, ends)
    zero = S.enum_const(FRAME, "ZERO")
    frames = [zero] * n
    if start_frame:
        f = S.enum(FRAME, "frame")
        S.assume(Not(enum_name_is(f, "NONE")))
        if S.mode == "sym":
            f = S.e.enum_concretize(f)
        is_plus = (strand.members[strand.idx][0] if hasattr(strand, "members") else strand.name) == "PLUS"
        frames = ([f] + [zero] * (n - 1)) if is_plus else ([zero] * (n - 1) + [f])
    cp = None
    if chunk == "cuts":
        # a chunk window that may cut the transcript anywhere (at least one exon base on it): chromosome-level
        # conversions may not notice the chunk at all
        from .c04_liftover import chunk_parent
        cp, cs, ce = chunk_parent(S)
        S.assume(Or(*[Max(starts[k], cs) < Min(ends[k], ce) for k in range(n)]))
    elif chunk:
        from .c04_liftover import chunk_parent
        cp, cs, ce = chunk_parent(S)
        S.assume(And(cs <= starts[0], ends[-1] <= ce))  # the chunk contains the whole transcript
    tx = S.new(TRANSCRIPT, starts, ends, strand, cds_starts=cds_s, cds_ends=cds_e, cds_frames=frames,
               parent_or_seq_chunk_parent=cp)
    plus = (strand.members[strand.idx][0] if hasattr(strand, "members") else strand.name) == "PLUS"
    return NS(tx=tx, starts=starts, ends=ends, cds_s=cds_s, cds_e=cds_e, c0=c0, c1=c1, plus=plus, n=n)


def sample_tx(rng, n):
    d = sample_blocks(rng, "tx", n, length=(1, 2, 3, 5))
    d["strand"] = rng.choice(["PLUS", "MINUS"])
    return sample_cds(rng, d)


def rel_pos(i, bs, be, p):
    """relative position of chromosome position p in the location with blocks (bs, be), 5'->3' (strand of i)."""
    n = len(bs)
    order = list(range(n)) if i.plus else list(range(n - 1, -1, -1))
    expr = -1
    pre = 0
    parts = []
    for k in order:
        off = (p - bs[k]) if i.plus else (be[k] - 1 - p)
        parts.append((And(bs[k] <= p, p < be[k]), pre + off))
        pre = pre + (be[k] - bs[k])
    for cond, val in reversed(parts):
        expr = If(cond, val, expr)
    return expr


def in_blocks(bs, be, p):
    return Or(*[And(bs[k] <= p, p < be[k]) for k in range(len(bs))])


class PosCommute(Case):
    props = ("C06",)
    func = TRANSCRIPT + ".transcript_pos_to_cds"

    def __init__(self, n, chunk=False):
        self.n, self.chunk = n, chunk
        self.tier = "thorough" if (n >= 3 or (chunk and n >= 2)) else "quick"
        self.name = (f"TranscriptInterval position conversions commute[{n} exons, any start frame"
                     f"{', on a sequence chunk CUTTING the transcript' if chunk == 'cuts' else ', on a sequence chunk' if chunk else ''}]")
        if chunk == "cuts":
            self.shard_depth = 5
        self.call = ("(tx.sequence_pos_to_cds(p), tx.transcript_pos_to_cds(tx.sequence_pos_to_transcript(p)), "
                     "tx.cds_pos_to_sequence(tx.sequence_pos_to_cds(p)), "
                     "tx.transcript_pos_to_sequence(tx.sequence_pos_to_transcript(p)), "
                     "tx.cds_pos_to_transcript(tx.sequence_pos_to_cds(p)), tx.sequence_pos_to_transcript(p), "
                     "tx.cds.sequence_pos_to_amino_acid(p))")
        self.raises = {"InvalidPositionException": lambda i: Not(in_blocks(i.cds_s, i.cds_e, i.p))}
        self.ensures = {
            "chromosome-to-cds-value": lambda i, r: r[0] == rel_pos(i, i.cds_s, i.cds_e, i.p),
            "both-paths-agree": lambda i, r: r[0] == r[1],
            "cds-roundtrip": lambda i, r: r[2] == i.p,
            "transcript-roundtrip": lambda i, r: r[3] == i.p,
            "cds-to-transcript-consistent": lambda i, r: And(r[4] == r[5], r[5] == rel_pos(i, i.starts, i.ends, i.p)),
            "amino-acid-is-cds-pos-div-3": lambda i, r: r[6] == Div(rel_pos(i, i.cds_s, i.cds_e, i.p), 3),
        }

    def inputs(self, S):
        i = coding_tx(S, self.n, self.chunk, start_frame=True)
        i.p = S.int("p")
        return i

    def samples(self, rng):
        d = sample_tx(rng, self.n)
        d["p"] = rng.randint(d["tx_starts"][0] - 1, d["tx_ends"][-1] + 1)
        d["frame"] = rng.choice(["ZERO", "ONE", "TWO"])
        if self.chunk == "cuts":
            cs = rng.randint(0, d["tx_ends"][-1] - 1)
            ce = rng.randint(cs + 1, d["tx_ends"][-1] + 3)
            d.update(chunk_start=cs, chunk_end=ce, chunk_seq="".join(rng.choice("ACGT") for _ in range(ce - cs)))
        elif self.chunk:
            cs = rng.randint(0, d["tx_starts"][0])
            ce = d["tx_ends"][-1] + rng.randint(0, 3)
            d.update(chunk_start=cs, chunk_end=ce, chunk_seq="".join(rng.choice("ACGT") for _ in range(ce - cs)))
        return d


def chrom_pos(i, bs, be, t):
    """chromosome position of relative position t of the location with blocks (bs, be), 5'->3' (strand of i)."""
    n = len(bs)
    order = list(range(n)) if i.plus else list(range(n - 1, -1, -1))
    expr = -1
    pre = 0
    parts = []
    for k in order:
        ln = be[k] - bs[k]
        val = (bs[k] + (t - pre)) if i.plus else (be[k] - 1 - (t - pre))
        parts.append((And(pre <= t, t < pre + ln), val))
        pre = pre + ln
    for cond, val in reversed(parts):
        expr = If(cond, val, expr)
    return expr


def total_len(bs, be):
    return sum((e - s for s, e in zip(bs, be)), 0)


class IntervalConversions(Case):
    """interval forms of the chromosome <-> transcript / CDS conversions = the point-wise maps, base by base, also when
    the transcript was built on a sequence chunk that cuts it (chromosome-level answers do not depend on the chunk)."""
    props = ("C06", "C07")
    func = "gene.interval.AbstractFeatureInterval.feature_interval_to_sequence"

    def __init__(self, n, chunk):
        self.n, self.chunk = n, chunk
        self.shard_depth = 7 if (n >= 2 and chunk) else 4
        self.name = (f"TranscriptInterval interval conversions = point-wise maps[{n} exons"
                     + (", chunk cutting the transcript" if chunk == "cuts" else "") + "]")
        self.call = ("(tx.transcript_interval_to_sequence(a, b, rs), "
                     "tx.sequence_interval_to_transcript(x, y, rs), "
                     "tx.cds_interval_to_sequence(ca, cb, rs), tx.chromosome_location)")
        self.ensures = {
            # the strand argument: an interval on the MINUS strand of the transcript / CDS lies on the opposite
            # chromosome strand (also when it is the WHOLE transcript / CDS); a chromosome interval on strand rs lies on
            # the transcript's PLUS strand iff rs is the transcript's own strand
            "strand-argument-honoured": lambda i, r: And(
                _strand_is(r[0], i.plus == i.rs_plus), _strand_is(r[2], i.plus == i.rs_plus),
                _strand_is(r[1], i.plus == i.rs_plus)),
            "transcript-interval-to-sequence-is-the-point-wise-image": lambda i, r: Iff(
                covers_pos(r[0], i.q), And(in_blocks(i.starts, i.ends, i.q),
                                           i.a <= rel_pos(i, i.starts, i.ends, i.q),
                                           rel_pos(i, i.starts, i.ends, i.q) < i.b)),
            "sequence-interval-to-transcript-is-the-point-wise-preimage": lambda i, r: Iff(
                covers_pos(r[1], i.t), And(0 <= i.t, i.t < total_len(i.starts, i.ends),
                                           i.x <= chrom_pos(i, i.starts, i.ends, i.t),
                                           chrom_pos(i, i.starts, i.ends, i.t) < i.y)),
            "cds-interval-to-sequence-is-the-point-wise-image": lambda i, r: Iff(
                covers_pos(r[2], i.q), And(in_blocks(i.cds_s, i.cds_e, i.q),
                                           i.ca <= rel_pos(i, i.cds_s, i.cds_e, i.q),
                                           rel_pos(i, i.cds_s, i.cds_e, i.q) < i.cb)),
            "chromosome-location-is-the-exon-list": lambda i, r: Iff(covers_pos(r[3], i.q),
                                                                      in_blocks(i.starts, i.ends, i.q)),
        }

    def inputs(self, S):
        i = coding_tx(S, self.n, self.chunk)
        i.a, i.b, i.x, i.y, i.ca, i.cb = S.int("a"), S.int("b"), S.int("x"), S.int("y"), S.int("ca"), S.int("cb")
        i.q, i.t = S.int("q"), S.int("t")
        S.assume(And(0 <= i.a, i.a < i.b, i.b <= total_len(i.starts, i.ends)))
        S.assume(And(0 <= i.ca, i.ca < i.cb, i.cb <= total_len(i.cds_s, i.cds_e)))
        S.assume(And(0 <= i.x, i.x < i.y, Or(*[Max(i.x, s) < Min(i.y, e) for s, e in zip(i.starts, i.ends)])))
        i.rs = strand_of(S, "rel_strand")
        i.rs_plus = (i.rs.members[i.rs.idx][0] if hasattr(i.rs, "members") else i.rs.name) == "PLUS"
        return i

    def samples(self, rng):
        d = sample_tx(rng, self.n)
        d["rel_strand"] = rng.choice(["PLUS", "MINUS"])
        L = sum(e - s for s, e in zip(d["tx_starts"], d["tx_ends"]))
        a = rng.randint(0, L - 1)
        d.update(a=a, b=rng.randint(a + 1, L))
        cs_ = [d["cds_c0"]] + d["tx_starts"][1:]
        ce_ = d["tx_ends"][:-1] + [d["cds_c1"]]
        CL = sum(e - s for s, e in zip(cs_, ce_))
        ca = rng.randint(0, CL - 1)
        d.update(ca=ca, cb=rng.randint(ca + 1, CL))
        x = rng.randint(max(0, d["tx_starts"][0] - 2), d["tx_ends"][-1] - 1)
        d.update(x=x, y=rng.randint(x + 1, d["tx_ends"][-1] + 2), q=rng.randint(0, d["tx_ends"][-1] + 1), t=rng.randint(0, L))
        if self.chunk:
            cs = rng.randint(0, d["tx_ends"][-1] - 1)
            ce = rng.randint(cs + 1, d["tx_ends"][-1] + 3)
            d.update(chunk_start=cs, chunk_end=ce, chunk_seq="".join(rng.choice("ACGT") for _ in range(ce - cs)))
        return d

    def observe(self, r):
        from .c02_single import obs_loc
        return [obs_loc(x)[:3] for x in r]


def _strand_is(loc, plus):
    st = loc.strand
    name = st.members[st.idx][0] if hasattr(st, "members") else st.name
    return name == ("PLUS" if plus else "MINUS")


class TxOutsideCds(Case):
    """positions of the transcript outside the CDS: transcript conversions defined, CDS conversions refused."""
    props = ("C06",)
    func = TRANSCRIPT + ".sequence_pos_to_transcript"

    def __init__(self, n):
        self.n = n
        self.name = f"TranscriptInterval.sequence_pos_to_transcript[{n} exons]"
        self.call = "tx.sequence_pos_to_transcript(p)"
        self.raises = {"InvalidPositionException": lambda i: Not(in_blocks(i.starts, i.ends, i.p))}
        self.ensures = {"value": lambda i, r: r == rel_pos(i, i.starts, i.ends, i.p)}

    def inputs(self, S):
        i = coding_tx(S, self.n)
        i.p = S.int("p")
        return i

    def samples(self, rng):
        d = sample_tx(rng, self.n)
        d["p"] = rng.randint(d["tx_starts"][0] - 1, d["tx_ends"][-1] + 1)
        return d


class UtrPartition(Case):
    """5' UTR, CDS and 3' UTR are disjoint, in that order along the transcript, and together cover the exons exactly;
    either UTR is empty (not an error) when the CDS reaches that end."""
    props = ("C06", "C19")
    func = TRANSCRIPT + ".get_3p_interval"

    def __init__(self, n):
        self.n = n
        self.tier = "thorough" if n >= 3 else "quick"
        self.name = f"TranscriptInterval UTR partition[{n} exons]"
        self.call = "(tx.get_5p_interval(), tx.get_3p_interval())"
        up = lambda i: (i.p < i.c0) if i.plus else (i.p >= i.c1)  # noqa: p lies 5' of the CDS
        down = lambda i: (i.p >= i.c1) if i.plus else (i.p < i.c0)  # noqa
        self.ensures = {
            "5p-is-exon-part-upstream-of-cds": lambda i, r: Iff(covers_pos(r[0], i.p),
                                                                And(in_blocks(i.starts, i.ends, i.p), up(i))),
            "3p-is-exon-part-downstream-of-cds": lambda i, r: Iff(covers_pos(r[1], i.p),
                                                                  And(in_blocks(i.starts, i.ends, i.p), down(i))),
            "partition": lambda i, r: Iff(in_blocks(i.starts, i.ends, i.p),
                                          Or(covers_pos(r[0], i.p), in_blocks(i.cds_s, i.cds_e, i.p),
                                             covers_pos(r[1], i.p))),
            "disjoint": lambda i, r: And(Not(And(covers_pos(r[0], i.p), covers_pos(r[1], i.p))),
                                         Not(And(covers_pos(r[0], i.p), in_blocks(i.cds_s, i.cds_e, i.p))),
                                         Not(And(covers_pos(r[1], i.p), in_blocks(i.cds_s, i.cds_e, i.p)))),
        }

    def inputs(self, S):
        i = coding_tx(S, self.n)
        i.p = S.int("p")
        return i

    def samples(self, rng):
        d = sample_tx(rng, self.n)
        if rng.random() < 0.3:
            d["cds_c1"] = d["tx_ends"][-1]
        if rng.random() < 0.3:
            d["cds_c0"] = d["tx_starts"][0]
        if d["cds_c0"] >= d["cds_c1"]:
            d["cds_c1"] = d["tx_ends"][-1]
        d["p"] = rng.randint(d["tx_starts"][0] - 1, d["tx_ends"][-1] + 1)
        return d

    def observe(self, r):
        from .c02_single import obs_loc
        return [obs_loc(r[0])[:2], obs_loc(r[1])[:2]]


class UtrFrameshift(Case):
    """UTRs of a transcript whose CDS carries an internal frameshift INSIDE an exon (two CDS blocks that overlap by one
    base: -1 frameshift, or skip one exonic base: +1): the CDS is then not one gap-free run of the transcript, and the
    UTRs are still exactly the exon parts upstream of the CDS start / downstream of the CDS end."""
    props = ("C06",)
    func = TRANSCRIPT + ".get_3p_interval"

    def __init__(self, delta):
        self.delta = delta
        self.name = f"TranscriptInterval UTRs with an internal {'+1' if delta > 0 else '-1'} frameshift in the CDS[1 exon]"
        self.call = "(tx.get_5p_interval(), tx.get_3p_interval())"
        up = lambda i: (i.p < i.c0) if i.plus else (i.p >= i.c1)  # noqa
        down = lambda i: (i.p >= i.c1) if i.plus else (i.p < i.c0)  # noqa
        self.ensures = {
            "5p-is-exon-part-upstream-of-cds": lambda i, r: Iff(covers_pos(r[0], i.p),
                                                                And(in_blocks(i.starts, i.ends, i.p), up(i))),
            "3p-is-exon-part-downstream-of-cds": lambda i, r: Iff(covers_pos(r[1], i.p),
                                                                  And(in_blocks(i.starts, i.ends, i.p), down(i))),
        }

    def inputs(self, S):
        starts, ends = block_lists(S, "tx", 1)
        strand = strand_of(S, "strand")
        c0, m, c1 = S.int("cds_c0"), S.int("cds_m"), S.int("cds_c1")
        m2 = m + self.delta
        S.assume(And(starts[0] <= c0, c0 < m, c0 < m2, m2 < c1, m < c1, c1 <= ends[0]))
        zero = S.enum_const(FRAME, "ZERO")
        tx = S.new(TRANSCRIPT, starts, ends, strand, cds_starts=[c0, m2], cds_ends=[m, c1], cds_frames=[zero, zero])
        plus = (strand.members[strand.idx][0] if hasattr(strand, "members") else strand.name) == "PLUS"
        return NS(tx=tx, starts=starts, ends=ends, c0=c0, c1=c1, plus=plus, p=S.int("p"))

    def samples(self, rng):
        s = rng.randint(0, 5)
        c0 = s + rng.randint(0, 3)
        m = c0 + rng.randint(2, 5)
        c1 = m + rng.randint(2, 5)
        e = c1 + rng.randint(0, 3)
        return dict(tx_starts=[s], tx_ends=[e], strand=rng.choice(["PLUS", "MINUS"]), cds_c0=c0, cds_m=m, cds_c1=c1,
                    p=rng.randint(s - 1, e + 1))

    def observe(self, r):
        from .c02_single import obs_loc
        return [obs_loc(r[0])[:2], obs_loc(r[1])[:2]]


class PosCommuteFrameshift(Case):
    """position conversions of a transcript whose CDS has an internal -1 / +1 frameshift inside one exon (two CDS
    blocks overlapping by one base / skipping one base): chromosome -> CDS equals chromosome -> transcript -> CDS, and
    both equal the point-wise map over the CDS blocks walked 5'->3' (a base covered twice answers with its FIRST
    occurrence); CDS -> transcript is consistent with chromosome -> transcript."""
    props = ("C06",)
    func = TRANSCRIPT + ".transcript_pos_to_cds"

    def __init__(self, delta):
        self.delta = delta
        self.name = f"TranscriptInterval position conversions with an internal {'+1' if delta > 0 else '-1'} frameshift in the CDS[1 exon]"
        self.call = ("(tx.sequence_pos_to_cds(p), tx.transcript_pos_to_cds(tx.sequence_pos_to_transcript(p)), "
                     "tx.cds_pos_to_transcript(tx.sequence_pos_to_cds(p)), tx.sequence_pos_to_transcript(p))")
        self.raises = {"InvalidPositionException": lambda i: Not(in_blocks(i.cds_s, i.cds_e, i.p))}
        self.ensures = {
            "chromosome-to-cds-value": lambda i, r: r[0] == rel_pos(i, i.cds_s, i.cds_e, i.p),
            "both-paths-agree": lambda i, r: r[0] == r[1],
            "cds-to-transcript-consistent": lambda i, r: r[2] == r[3],
        }

    def inputs(self, S):
        starts, ends = block_lists(S, "tx", 1)
        strand = strand_of(S, "strand")
        c0, m, c1 = S.int("cds_c0"), S.int("cds_m"), S.int("cds_c1")
        m2 = m + self.delta
        S.assume(And(starts[0] <= c0, c0 < m, c0 < m2, m2 < c1, m < c1, c1 <= ends[0]))
        zero = S.enum_const(FRAME, "ZERO")
        tx = S.new(TRANSCRIPT, starts, ends, strand, cds_starts=[c0, m2], cds_ends=[m, c1], cds_frames=[zero, zero])
        plus = (strand.members[strand.idx][0] if hasattr(strand, "members") else strand.name) == "PLUS"
        return NS(tx=tx, starts=starts, ends=ends, cds_s=[c0, m2], cds_e=[m, c1], plus=plus, p=S.int("p"))

    samples = UtrFrameshift.samples


class Introns(Case):
    props = ("C06",)
    func = "gene.interval.AbstractFeatureInterval.chromosome_gaps_location"

    def __init__(self, n):
        self.n = n
        self.name = f"TranscriptInterval introns = span minus exons[{n} exons]"
        self.call = "(tx.chromosome_gaps_location, tx.chromosome_span)"
        self.ensures = {
            "introns": lambda i, r: Iff(covers_pos(r[0], i.p), And(i.starts[0] <= i.p, i.p < i.ends[-1],
                                                                   Not(in_blocks(i.starts, i.ends, i.p)))),
            "span": lambda i, r: And(r[1].start == i.starts[0], r[1].end == i.ends[-1]),
        }

    def inputs(self, S):
        i = coding_tx(S, self.n)
        i.p = S.int("p")
        return i

    def samples(self, rng):
        d = sample_tx(rng, self.n)
        d["p"] = rng.randint(d["tx_starts"][0] - 1, d["tx_ends"][-1] + 1)
        return d

    def observe(self, r):
        from .c02_single import obs_loc
        return [obs_loc(r[0])[:2], obs_loc(r[1])[:2]]


class IntronsOverlap(Case):
    """Introns of a (non-coding) transcript whose exons may overlap, nest or share a start (the constructors accept such
    layouts): a position is intronic iff it lies inside the span and in NO exon; the span is min(start) .. max(end)."""
    props = ("C06",)
    func = "gene.interval.AbstractFeatureInterval.chromosome_gaps_location"

    def __init__(self, n):
        self.n = n
        self.name = f"TranscriptInterval introns = span minus exons[{n} exons that may overlap or nest, non-coding]"
        self.call = "(tx.chromosome_gaps_location, tx.chromosome_span)"
        self.ensures = {
            "introns": lambda i, r: Iff(covers_pos(r[0], i.p), And(i.starts[0] <= i.p, i.p < i.hi,
                                                                   Not(in_blocks(i.starts, i.ends, i.p)))),
            "span": lambda i, r: And(r[1].start == i.starts[0], r[1].end == i.hi),
        }

    def inputs(self, S):
        starts, ends = block_lists(S, "tx", self.n, allow_overlap=True)
        strand = strand_of(S, "strand")
        tx = S.new(TRANSCRIPT, starts, ends, strand, sequence_name="chr1", transcript_id="tx1")
        hi = ends[0]
        for e in ends[1:]:
            hi = Max(hi, e)
        return NS(tx=tx, starts=starts, ends=ends, hi=hi, p=S.int("p"))

    def samples(self, rng):
        bl = sorted((lambda a: (a, a + rng.randint(1, 5)))(rng.randint(0, 9)) for _ in range(self.n))
        return {"tx_starts": [b[0] for b in bl], "tx_ends": [b[1] for b in bl], "strand": rng.choice(["PLUS", "MINUS"]),
                "p": rng.randint(0, 15)}

    observe = Introns.observe


CASES = [PosCommute(1), PosCommute(2), PosCommute(3), PosCommute(1, True), PosCommute(2, True), PosCommute(1, "cuts"), TxOutsideCds(2), UtrPartition(1), UtrPartition(2),
         UtrPartition(3), Introns(2), Introns(3), IntronsOverlap(2), IntronsOverlap(3), IntervalConversions(1, "cuts"), IntervalConversions(2, "cuts"),
         IntervalConversions(2, False), UtrFrameshift(-1), UtrFrameshift(1), PosCommuteFrameshift(-1),
         PosCommuteFrameshift(1)]
