"""C09 — AnnotationCollection._subset_parent: the re-chunked parent of a position query carries exactly the source text
of the queried range, at the queried chromosome coordinates (symbolic text of any length; the collection has explicit
bounds inside a sequence-chunk parent, so collection-relative, chunk-relative and chromosome coordinates all differ)."""
from pyvc.spec import *  # noqa
from pyvc.sources import NS
from .common import *  # noqa
from .gene_common import *  # noqa
from .lib import LIB  # noqa
from .c09_queries import AC, GENE
from .c13_variants import _charat, _refat
from .c03_sequence import _comp_code


class SubsetParent(Case):
    props = ("C09",)
    func = AC + "._subset_parent"
    call = ("(lambda p: (len(p.sequence), p.sequence, p.parent.location.start, p.parent.location.end, "
            "p.sequence.parent.location.parent.id, p.parent.location.strand))(col._subset_parent(a, b))")
    module = "gene.collections"
    ensures = {
        "length": lambda i, r: r[0] == i.b - i.a,
        # a reverse-strand source chunk holds the reverse complement of the chromosome stretch: chromosome base p is
        # the complement of chunk character ce-1-p; the re-cut chunk is always plus-oriented chromosome text
        "k-th-character-is-the-source-base": lambda i, r: Implies(
            And(0 <= i.k, i.k < i.b - i.a),
            _charat(r[1], i.k) == (_comp_code(_refat(i.ref, i.ce - 1 - (i.a + i.k))) if i.minus
                                   else _refat(i.ref, i.a - i.cs + i.k))),
        "re-cut-chunk-is-on-the-plus-strand": lambda i, r: enum_name_is(r[5], "PLUS"),
        "chromosome-coordinates": lambda i, r: And(r[2] == i.a, r[3] == i.b),
        "same-chromosome-id": lambda i, r: r[4] == "chr1",
    }

    def __init__(self, at_end):
        self.at_end = at_end
        self.name = ("AnnotationCollection._subset_parent[sequence-chunk parent on either strand, explicit collection "
                     "bounds, " + ("range ends at the collection end]" if at_end else "range ends before the collection end]"))

    def inputs(self, S):
        from .c04_liftover import chunk_parent_stranded
        cp, cs, ce, minus = chunk_parent_stranded(S)
        strand = strand_of(S, "strand")
        s, e = S.int("s0"), S.int("e0")
        lo, hi = S.int("col_start"), S.int("col_end")
        a, b, k = S.int("a"), S.int("b"), S.int("k")
        S.assume(And(cs <= lo, lo <= s, s < e, e <= hi, hi <= ce, lo <= a, a < b, b <= hi,
                     Not(And(a == lo, b == hi)), (b == hi) if self.at_end else (b < hi)))
        tx = S.new(TRANSCRIPT, [s], [e], strand, transcript_id="tx0", parent_or_seq_chunk_parent=cp)
        gene = S.new(GENE, [tx], gene_id="g0", parent_or_seq_chunk_parent=cp)
        col = S.new(AC, genes=[gene], start=lo, end=hi, parent_or_seq_chunk_parent=cp)
        return NS(col=col, a=a, b=b, k=k, cs=cs, ce=ce, minus=minus, ref=S.symstr("chunk_seq"))

    def samples(self, rng):
        cs = rng.randint(0, 6)
        L = rng.randint(6, 12)
        lo = cs + rng.randint(0, 2)
        hi = cs + L - rng.randint(0, 2)
        s = rng.randint(lo, hi - 1)
        e = rng.randint(s + 1, hi)
        a = rng.randint(lo, hi - 1)
        b = hi if self.at_end else rng.randint(a + 1, hi)
        return dict(chunk_start=cs, chunk_end=cs + L, chunk_seq="".join(rng.choice("ACGT") for _ in range(L)),
                    strand=rng.choice(["PLUS", "MINUS"]), chunk_strand=rng.choice(["PLUS", "MINUS"]), s0=s, e0=e, col_start=lo, col_end=hi, a=a, b=b,
                    k=rng.randint(0, 8))

    def observe(self, r):
        from pyvc.check import default_observe as o
        text = r[1].sequence if hasattr(r[1], "attrs") else str(r[1])
        return [o(r[0]), text if isinstance(text, str) else None, o(r[2]), o(r[3]), r[4], o(r[5])]


CASES = [SubsetParent(False), SubsetParent(True)]
