"""Summaries (callee contracts / trusted stubs) and loop invariants shared by the contract modules."""
from pyvc.values import Obj, FuncVal, PyExc, Unsupported


def codon_new(interp, cls, args, kwargs):
    """Codon.__new__: singleton per upper-cased string (the real __new__ does exactly this with a class dict);
    __init__ then runs on the instance, as CPython does after __new__."""
    s = interp.to_str(args[0])
    if not isinstance(s, str):
        raise Unsupported("Codon of a symbolic string")
    clean = s.upper()
    d = interp.__dict__.setdefault("_codon_singletons", {})
    if clean not in d:
        d[clean] = Obj(cls)
    o = d[clean]
    init = cls.find_method(interp.repo, "__init__")
    interp.call_function(FuncVal(init, self_val=o), list(args), kwargs)
    return o


SUMMARIES = {
    "gene.codon.Codon.__new__": codon_new,
}
LOOPS = {}
LIB = {"summaries": SUMMARIES, "loops": LOOPS, "attr_hooks": {}, "externals": {}}
