"""C18 — io/features/__init__.py: identifier / qualifier extraction.  The qualifier dict is iterated in insertion order,
so "every order" is every insertion order: the domain (all subsets up to a size and ALL their orderings, recognised keys
in several spellings plus look-alike keys, distinct values) is finite and decided completely by executing the real
code in the verifier's interpreter on every element (each element is also re-run under CPython and compared)."""
import itertools

from pyvc.spec import *  # noqa
from pyvc.sources import NS
from .lib import LIB  # noqa

F = "io.features."
# documented priority lists (specification; lower rank wins)
NAME_RANK = {"feature_name": 0, "standard_name": 10, "name": 15, "gene": 20, "gene_name": 30, "label": 40, "operon": 50}
ID_RANK = {"feature_id": 0, "id": 255}
LOOKALIKES = ["names", "gene_id", "xname", "feature_name_", "idx", "note_", "operons", "locus_tag"]


def spell(k, style):
    return {0: k, 1: k.upper(), 2: k.title()}[style]


def spec_name_id(pairs):
    """pairs: list of (key, [values]) in iteration order -> expected (name, id) by the documented priorities."""
    names = [(NAME_RANK[k.lower()], v[0]) for k, v in pairs if k.lower() in NAME_RANK]
    ids = [(ID_RANK[k.lower()], v[0]) for k, v in pairs if k.lower() in ID_RANK]
    name = min(names)[1] if names else None
    fid = min(ids)[1] if ids else None
    if not name and not fid:
        for k, v in pairs:
            if k == "note":
                toks = v[0].split() if v else []
                if toks:
                    import string
                    name = fid = toks[0].strip(string.punctuation)
    return name, fid


def rank0_first(pairs):
    """carve-out of known finding F-C18-1: a rank-0 key (feature_name / feature_id) is followed, later in iteration
    order, by another recognised key of the same family."""
    for fam in (NAME_RANK, ID_RANK):
        seen0 = False
        for k, _v in pairs:
            kl = k.lower()
            if kl in fam:
                if seen0:
                    return True
                if fam[kl] == 0:
                    seen0 = True
    return False


class ExtractNameId(Case):
    known = {"priority-decides-regardless-of-order": dict(id="F-C18-1", carve=lambda i: rank0_first(i.pairs))}
    props = ("C18",)
    func = F + "extract_feature_name_id"
    call = "extract_feature_name_id(dict(pairs))"
    ensures = {
        "priority-decides-regardless-of-order": lambda i, r: tuple(r) == spec_name_id(i.pairs),
    }

    def __init__(self, name, gen):
        self.name = name
        self._gen = gen

    def inputs(self, S):
        pairs = [(k, list(v)) for k, v in S.const("pairs")]
        return NS(pairs=pairs, extract_feature_name_id=S.fn(F + "extract_feature_name_id"))

    def ground(self):
        for pairs in self._gen():
            if pairs and isinstance(pairs[0], (list, tuple)):
                yield {"pairs": [[k, list(v)] for k, v in pairs]}  # the generator supplies the values itself
            else:
                yield {"pairs": [[k, [f"v{j}_{k}", f"w{j}"]] for j, k in enumerate(pairs)]}

    def observe(self, r):
        return list(r)


def _all_orderings_small():
    keys = list(NAME_RANK) + list(ID_RANK)
    universe = [spell(k, s) for k in keys for s in (0, 1)] + LOOKALIKES[:4] + ["note"]
    seen = set()
    for n in range(0, 4):
        for combo in itertools.permutations(universe, n):
            low = [c.lower() for c in combo]
            if len(set(low)) != len(low):
                continue  # one spelling per key in a dict
            yield list(combo)


def _all_orderings_name_keys():
    for perm in itertools.permutations(list(NAME_RANK)):
        yield list(perm)
    for perm in itertools.permutations(list(NAME_RANK)[:4] + list(ID_RANK) + ["Names"]):
        yield list(perm)


def _orderings_with_empty_values():
    """all orderings of 2-3 name / id keys (no rank-0 key: known finding F-C18-1) whose first value may be the EMPTY
    string: an empty name on the winning key is still the answer (the priority list decides, not truthiness)."""
    keys = ["standard_name", "name", "gene", "operon", "id"]
    for n in (2, 3):
        for combo in itertools.permutations(keys, n):
            for vals in itertools.product(["", "x"], repeat=n):
                yield [[k, [v + (str(j) if v else ""), "w"]] for j, (k, v) in enumerate(zip(combo, vals))]


class NoteFallback(Case):
    props = ("C18",)
    name = "extract_feature_name_id[/note fallback]"
    func = F + "extract_feature_name_id"
    call = "extract_feature_name_id(dict(pairs))"
    ensures = {"note-fallback": lambda i, r: tuple(r) == spec_name_id(i.pairs)}

    def inputs(self, S):
        pairs = [(k, list(v)) for k, v in S.const("pairs")]
        return NS(pairs=pairs, extract_feature_name_id=S.fn(F + "extract_feature_name_id"))

    def ground(self):
        notes = [["(abc) def"], ["  x,  y"], [""], ["   "], ["...;"], ["geneA."]]
        for nv in notes:
            yield {"pairs": [["note", nv]]}
            yield {"pairs": [["other", ["q"]], ["note", nv]]}
            yield {"pairs": [["note", nv], ["gene", ["G"]]]}
            yield {"pairs": [["id", ["I"]], ["note", nv]]}

    def observe(self, r):
        return list(r)


class ExtractTypes(Case):
    props = ("C18",)
    name = "extract_feature_types[all small qualifier dicts]"
    func = F + "extract_feature_types"
    call = "(extract_feature_types(types, dict(pairs)), types)"
    ensures = {
        "union-of-type-like-qualifiers": lambda i, r: _sorted(r[1]) == sorted(
            set(i.initial) | {v for k, vals in i.pairs for v in vals
                              if any(t in k.lower() for t in ("_class", "gbkey", "_type"))}),
        "returns-none": lambda i, r: r[0] is None,
    }

    def inputs(self, S):
        pairs = [(k, list(v)) for k, v in S.const("pairs")]
        initial = list(S.const("initial"))
        types = set(initial) if S.mode == "native" else S.e.make_set(list(initial))
        return NS(pairs=pairs, initial=initial, types=types, extract_feature_types=S.fn(F + "extract_feature_types"))

    def ground(self):
        keys = ["gbkey", "GBKEY", "feature_class", "my_type", "TYPE", "type_", "so_type_x", "class", "gb_key", "note"]
        for n in range(0, 3):
            for combo in itertools.permutations(keys, n):
                yield {"pairs": [[k, [f"T{j}", "shared"]] for j, k in enumerate(combo)], "initial": ["gene"]}

    def observe(self, r):
        return _sorted(r[1])


def _sorted(s):
    if hasattr(s, "items") and hasattr(s, "ranges"):
        return sorted(s.items)
    return sorted(s)


class MergeQualifiers(Case):
    props = ("C18",)
    name = "merge_qualifiers[all pairs of small dicts]"
    func = F + "merge_qualifiers"
    call = "merge_qualifiers(dict(a), dict(b))"
    ensures = {
        "keywise-set-union-sorted-values": lambda i, r: {k: list(v) for k, v in r.items()} == {
            k: sorted(set(dict(i.a).get(k, [])) | set(dict(i.b).get(k, []))) for k in
            list(dict(i.a)) + [k for k in dict(i.b) if k not in dict(i.a)]},
    }

    def inputs(self, S):
        a = [(k, list(v)) for k, v in S.const("a")]
        b = [(k, list(v)) for k, v in S.const("b")]
        return NS(a=a, b=b, merge_qualifiers=S.fn(F + "merge_qualifiers"))

    def ground(self):
        shapes = [[], ["a"], ["b", "a"], ["a", "a"], ["c", "a", "b"]]
        keys = ["k1", "k2"]
        dicts = [[]]
        for v1 in shapes:
            dicts.append([["k1", v1]])
            for v2 in shapes[:4]:
                dicts.append([["k1", v1], ["k2", v2]])
                dicts.append([["k2", v2], ["k1", v1]])
        for a in dicts:
            for b in dicts:
                yield {"a": a, "b": b}

    def observe(self, r):
        return {k: list(v) for k, v in r.items()}


class MergeQualifiersMethod(Case):
    """AbstractFeatureInterval._merge_qualifiers(other): key-wise set union of the interval's own qualifiers and the
    parent's; the result owns its value sets (editing one - as every export_qualifiers does when it adds the child's
    name / id - may change neither the interval's nor the parent's sets), and both operands are left unchanged.
    Complete finite domain of small qualifier dictionaries, two siblings merged with the same parent dictionary in
    sequence (the way GeneInterval.to_gff / FeatureIntervalCollection.to_gff export their children)."""
    props = ("C18", "C11", "C10")
    name = "AbstractFeatureInterval._merge_qualifiers[all small dictionaries, two siblings sharing the parent dictionary]"
    func = "gene.interval.AbstractFeatureInterval._merge_qualifiers"
    module = "gene.feature"
    call = ("(lambda f1, f2, par: (lambda m1: (lambda _e, m2: ({k: sorted(v) for k, v in m1.items()}, "
            "{k: sorted(v) for k, v in m2.items()}, {k: sorted(v) for k, v in par.items()}, "
            "{k: sorted(v) for k, v in f1.qualifiers.items()}))"
            "([m1[k].add('EDIT') for k in list(m1)], f2._merge_qualifiers(par)))(f1._merge_qualifiers(par)))"
            "(FeatureInterval([1], [5], Strand.PLUS, qualifiers=dict(q1)), "
            "FeatureInterval([1], [5], Strand.PLUS, qualifiers=dict(q2)), {k: set(v) for k, v in pq})")
    ensures = {
        "first-result-is-the-keywise-union": lambda i, r: r[0] == _union(i.q1, i.pq, extra="EDIT"),
        "second-sibling-unaffected-by-edits-of-the-first-result": lambda i, r: r[1] == _union(i.q2, i.pq),
        "parent-dictionary-unchanged": lambda i, r: r[2] == {k: sorted(set(v)) for k, v in i.pq},
        "own-qualifiers-unchanged": lambda i, r: r[3] == {k: sorted(set(v)) for k, v in i.q1},
    }

    def inputs(self, S):
        q1 = [(k, list(v)) for k, v in S.const("q1")]
        q2 = [(k, list(v)) for k, v in S.const("q2")]
        pq = [(k, list(v)) for k, v in S.const("pq")]
        return NS(q1=q1, q2=q2, pq=pq, FeatureInterval=S.cls("gene.feature.FeatureInterval"), Strand=S.cls("location.strand.Strand"))

    def ground(self):
        ds = [[], [["k1", ["a"]]], [["k2", ["b", "a"]]], [["k1", ["c"]], ["k2", ["a"]]]]
        for q1 in ds:
            for q2 in ds[:3]:
                for pq in ds:
                    yield {"q1": q1, "q2": q2, "pq": pq}

    def observe(self, r):
        return [dict(x) for x in r]


def _union(own, parent, extra=None):
    out = {}
    for k, v in list(own) + list(parent):
        out.setdefault(k, set()).update(v)
    if extra is not None:
        for k in out:
            out[k].add(extra)
    return {k: sorted(v) for k, v in out.items()}


class ExportQualifiers(Case):
    """export_qualifiers of a feature / transcript / gene / feature collection: the key-wise set union of the
    object's own qualifiers, the qualifiers handed down by the parent (where the method takes them) and the object's
    own top-level identifiers under their BioCantor keys - also when one of those keys is ALREADY present in the own
    or parent qualifiers with another value (a collision keeps both values).  Complete finite domain; executed twice
    on the same object (the second call must see the same inputs: nothing is written back)."""
    props = ("C18", "C11")
    module = "gene.collections"

    KINDS = {
        # kind: (func, constructor call with {q}/{a}/{b}, takes parent qualifiers, keys of the two identifiers, fixed extras)
        "feature": ("gene.feature.FeatureInterval.export_qualifiers",
                    "FeatureInterval([1], [5], Strand.PLUS, qualifiers=dict(q), feature_name=a, feature_id=b, feature_types=ft)",
                    True, ("feature_name", "feature_id"), {}),
        "transcript": ("gene.transcript.TranscriptInterval.export_qualifiers",
                       "TranscriptInterval([1], [5], Strand.PLUS, qualifiers=dict(q), transcript_symbol=a, transcript_id=b)",
                       True, ("transcript_name", "transcript_id"), {"transcript_biotype": "unspecified"}),
        "gene": ("gene.gene.GeneInterval.export_qualifiers",
                 "GeneInterval([TranscriptInterval([1], [5], Strand.PLUS)], qualifiers=dict(q), gene_symbol=a, gene_id=b)",
                 False, ("gene_name", "gene_id"), {"gene_biotype": "unspecified"}),
        "feature collection": ("gene.feature.FeatureIntervalCollection.export_qualifiers",
                               "FeatureIntervalCollection([FeatureInterval([1], [5], Strand.PLUS)], qualifiers=dict(q), "
                               "feature_collection_name=a, feature_collection_id=b)",
                               False, ("feature_collection_name", "feature_collection_id"), {}),
    }

    def __init__(self, kind):
        self.kind = kind
        self.func, ctor, self.takes_parent, self.keys, self.extras = self.KINDS[kind]
        self.name = f"export_qualifiers[{kind}: own / parent qualifiers colliding with the identifier keys]"
        arg = "{k: set(v) for k, v in pq}" if self.takes_parent else ""
        self.call = ("(lambda o, par: (lambda r1, r2: ({k: sorted(v) for k, v in r1.items()}, "
                     "{k: sorted(v) for k, v in r2.items()}, {k: sorted(v) for k, v in par.items()}))"
                     f"(o.export_qualifiers({'par' if self.takes_parent else ''}), "
                     f"o.export_qualifiers({'par' if self.takes_parent else ''})))"
                     f"({ctor}, {{k: set(v) for k, v in pq}})")
        self.ensures = {
            "keywise-union-of-own-parent-and-identifiers": lambda i, r: r[0] == self._spec(i),
            "second-call-gives-the-same": lambda i, r: r[1] == r[0],
            "parent-dictionary-unchanged": lambda i, r: r[2] == {k: sorted(set(v)) for k, v in i.pq},
        }

    def _spec(self, i):
        out = {}
        for k, v in list(i.q) + (list(i.pq) if self.takes_parent else []):
            out.setdefault(k, set()).update(str(x) for x in v)
        for key, val in list(zip(self.keys, (i.a, i.b))) + list(self.extras.items()):
            if val:
                out.setdefault(key, set()).add(val)
        if self.kind == "feature" and i.ft:
            # a feature's row states ITS OWN types (the parent collection's union of all siblings' types is replaced)
            out["feature_type"] = set(i.ft)
        return {k: sorted(v) for k, v in out.items()}

    def inputs(self, S):
        q = [(k, list(v)) for k, v in S.const("q")]
        pq = [(k, list(v)) for k, v in S.const("pq")]
        return NS(q=q, pq=pq, a=S.const("a"), b=S.const("b"), ft=list(S.const("ft")) if S.const("ft") is not None else None,
                  FeatureInterval=S.cls("gene.feature.FeatureInterval"),
                  FeatureIntervalCollection=S.cls("gene.feature.FeatureIntervalCollection"),
                  TranscriptInterval=S.cls("gene.transcript.TranscriptInterval"),
                  GeneInterval=S.cls("gene.gene.GeneInterval"), Strand=S.cls("location.strand.Strand"))

    def ground(self):
        k1, k2 = self.keys
        own = [[], [[k1, ["own"]]], [[k2, ["x", "own"]]], [["note", ["n"]], [k1, ["N"]]], [["note", ["n"]]]]
        par = [[], [[k1, ["parent"]]], [[k2, ["N"]], ["note", ["m"]]]] if self.takes_parent else [[]]
        fts = [None]
        if self.kind == "feature":
            fts = [None, ["promoter"]]
            par = par + [[["feature_type", ["operator", "promoter"]]]]  # union of the siblings' types, handed down
        for q in own:
            for pq in par:
                for a in (None, "N", ""):
                    for b in (None, "I"):
                        for ft in fts:
                            yield {"q": q, "pq": pq, "a": a, "b": b, "ft": ft}

    def observe(self, r):
        return [dict(x) for x in r]


class LocusTagGrouping(Case):
    """io/genbank/parser.py (LocusTagGenBankParser._extract_seqfeatures_from_seqrecords + _group_features_by_locus_tag):
    'GenBank features grouped by locus tag produce the same genes whatever the order of records in the file'.
    The module cannot be imported here (io.vcf.parser / io.models drift): the verifier reads its AST as usual; for
    the CPython cross-check / replay the file is loaded mechanically with its two failing imports bound to inert
    placeholders (pyvc.sources.tolerant_module).  Biopython SeqFeature / SeqRecord objects are plain records carrying
    exactly the attributes the two methods read (type, qualifiers, location, strand).
    Complete domain: ALL orderings of the features of a locus-tag-complete record with three genes, two of whose tags
    differ only in case (gene + CDS each; one also an mRNA): one group per exact tag, holding that tag's gene feature,
    transcripts and CDS features (members in file order), groups ordered by tag."""
    props = ("C18",)
    name = "LocusTagGenBankParser: grouping by locus tag[all orderings of the features of three genes, two tags differing in case]"
    func = "io.genbank.parser.BaseGenBankParser._group_features_by_locus_tag"
    module = "gene.feature"
    call = ("(lambda p: (p._extract_seqfeatures_from_seqrecords(), p._group_gene_features_by_locus_tag(), "
            "[(g.gene_feature.id if g.gene_feature is not None else None, [t.id for t in g.transcript_features], "
            "[c.id for c in g.cds_features]) for g in p.grouped_gene_features[0]])[2])(parser)")
    FEATURES = [("gene", "b0001"), ("CDS", "b0001"), ("gene", "B0001"), ("CDS", "B0001"), ("mRNA", "B0001"),
                ("gene", "c0002"), ("CDS", "c0002")]
    ensures = {
        "one-group-per-exact-tag-with-its-own-features": lambda i, r: _groups(r) == _expected_groups(i.order),
        "same-genes-whatever-the-order": lambda i, r: sorted(map(repr, _groups(r))) == sorted(
            map(repr, _expected_groups(list(range(7))))),
    }

    def inputs(self, S):
        order = list(S.const("order"))
        feats = [S.facade(type=self.FEATURES[k][0], qualifiers={"locus_tag": [self.FEATURES[k][1]]}, location="1..9",
                          strand=1, id=k) for k in order]
        rec = S.facade(features=feats, id="rec")
        if S.mode == "native":
            parser = S.tolerant_module("io.genbank.parser").LocusTagGenBankParser([rec], {}, None, None)
        else:
            parser = S.new("io.genbank.parser.LocusTagGenBankParser", [rec], {}, None, None)
        return NS(parser=parser, order=order)

    def ground(self):
        import random
        perms = list(itertools.permutations(range(7)))
        rng = random.Random(18)
        # every ordering of the 4 features of the two case-twin genes (others fixed), plus a fixed sample of full orderings
        for p4 in itertools.permutations(range(4)):
            yield {"order": list(p4) + [4, 5, 6]}
            yield {"order": [5] + list(p4) + [6, 4]}
        for p in rng.sample(perms, 150):
            yield {"order": list(p)}

    def observe(self, r):
        return [[a, list(b), list(c)] for a, b, c in r]


def _groups(r):
    return [(a, tuple(b), tuple(c)) for a, b, c in r]


def _expected_groups(order):
    """plain grouping on the EXACT tag: gene feature, transcript features, CDS features (file order), by tag order."""
    F = LocusTagGrouping.FEATURES
    out = []
    for tag in sorted({t for _, t in F}):
        ids = [k for k in order if F[k][1] == tag]
        gene = [k for k in ids if F[k][0] == "gene"]
        out.append((gene[0] if gene else None, tuple(k for k in ids if F[k][0] == "mRNA"),
                    tuple(k for k in ids if F[k][0] == "CDS")))
    return out


class FilterAndSort(Case):
    """io/gff3/parser.py:filter_and_sort_qualifiers (module not importable here: AST in the verifier, mechanically
    extracted FunctionDef under CPython): the qualifiers that ARE BioCantor identifier terms or GFF3 reserved terms are
    dropped, every other key is kept with its values sorted; None for an empty result.  Order-independent."""
    props = ("C18", "C11")
    name = "filter_and_sort_qualifiers[all orderings of small key sets: reserved terms, look-alikes, ordinary keys]"
    func = "io.gff3.parser.filter_and_sort_qualifiers"
    module = "gene.feature"
    call = "fs(dict(q))"
    ensures = {
        "reserved-terms-dropped-others-kept-sorted": lambda i, r: (
            (r is None) if not _kept(i.q) else (r is not None and {k: list(v) for k, v in r.items()} == _kept(i.q))),
    }
    # known finding: re.match anchors only at the START, so every key that merely BEGINS with a reserved term
    # ("identity", "names", "parental", "producto") is silently dropped as well
    known = {"reserved-terms-dropped-others-kept-sorted": dict(
        id="F-C18-2", carve=lambda i: any(_prefix_only(k) for k, _ in i.q))}

    def inputs(self, S):
        q = [(k, list(v)) for k, v in S.const("q")]
        import re
        if S.mode == "native":
            from inscripta.biocantor.io.gff3.constants import BIOCANTOR_QUALIFIERS_REGEX
            fs = S.extracted_fn("io.gff3.parser.filter_and_sort_qualifiers",
                                dict(BIOCANTOR_QUALIFIERS_REGEX=BIOCANTOR_QUALIFIERS_REGEX))
        else:
            fs = S.fn("io.gff3.parser.filter_and_sort_qualifiers")
        return NS(q=q, fs=fs)

    def ground(self):
        keys = ["gene_id", "Name", "ID", "Parent", "product", "locus_tag", "note", "colour", "identity", "names",
                "db_xref", "GENE_ID"]
        for n in (0, 1, 2):
            for combo in itertools.permutations(keys, n):
                yield {"q": [[k, ["b", "a"] if j == 0 else ["z"]] for j, k in enumerate(combo)]}

    def observe(self, r):
        return None if r is None else {k: list(v) for k, v in r.items()}


# the reserved vocabulary, written out from the documentation of the two enums (specification, not read from the code)
RESERVED_TERMS = {
    "gene_id", "gene_name", "gene_symbol", "gene_biotype", "gene_type", "transcript_id", "transcript_name",
    "transcript_biotype", "transcript_type", "protein_id", "product", "feature_id", "feature_name", "feature_symbol",
    "feature_collection_name", "feature_collection_id", "feature_collection_type", "feature_colletion_type",
    "feature_type", "locus_tag", "id", "name", "parent", "ID", "Name", "Parent",
}


def _is_reserved(k):
    return k in RESERVED_TERMS


def _prefix_only(k):
    return not _is_reserved(k) and any(k.startswith(t) for t in RESERVED_TERMS)


def _kept(q):
    return {k: sorted(v) for k, v in q if not _is_reserved(k)}


CASES = [LocusTagGrouping(), FilterAndSort(), MergeQualifiersMethod(), *[ExportQualifiers(k) for k in ExportQualifiers.KINDS], ExtractNameId("extract_feature_name_id[all orderings of all subsets <= 3 keys, 2 spellings + look-alikes]",
                       _all_orderings_small),
         ExtractNameId("extract_feature_name_id[all 7! orderings of the name keys; 7! of mixed name/id/look-alike]",
                       _all_orderings_name_keys),
         ExtractNameId("extract_feature_name_id[all orderings of 2-3 keys, values possibly empty strings]",
                       _orderings_with_empty_values),
         NoteFallback(), ExtractTypes(), MergeQualifiers()]

CANARIES = [
    dict(name="name priority: < -> <=", props=("C18",), file="inscripta/biocantor/io/features/__init__.py",
         old="this_feature_key < feature_key:", new="this_feature_key <= feature_key or this_feature_key == 40:",
         case="extract_feature_name_id[all orderings of all subsets <= 3 keys, 2 spellings + look-alikes]",
         expect="post:priority-decides-regardless-of-order"),
]
