"""Input builders shared by the contract modules.  Objects are built by the REAL constructors (symbolically in the
engine, natively under CPython) under the class invariant as assumption, so the field layout is the code's own."""
from pyvc.spec import *  # noqa
from pyvc.sources import NS

# properties whose cases run THROUGH the location layer: the unbounded location contracts (point maps, constructor,
# _combine_blocks) are re-proved under each of them, so that a change inside one of these callees fails the property
# being checked and not only C01 / C02 (verification is modular: a caller is only as good as its callee's contract)
GENE_LAYER = ("C03", "C04", "C05", "C06", "C07", "C09", "C11", "C13", "C14", "C17", "C20")
STRAND = "location.strand.Strand"
SINGLE = "location.location_impl.SingleInterval"
COMPOUND = "location.location_impl.CompoundInterval"
PARENT = "parent.parent.Parent"
SEQUENCE = "sequence.sequence.Sequence"
ALPHABET = "sequence.alphabet.Alphabet"


def parent_with_sequence(S, name="seq", pid="chr1"):
    """Parent(id=pid, sequence=Sequence(<symbolic text over ACGT>, NT_STRICT)); returns (parent, length)."""
    text = S.symstr(name)
    seq = S.new(SEQUENCE, text, S.enum_const(ALPHABET, "NT_STRICT"), validate_alphabet=False)
    par = S.new(PARENT, id=pid, sequence=seq)
    return par, slen(text)


def slen(text):
    return text.length if hasattr(text, "length") and not isinstance(text, str) else len(text)


def single(S, name, parent=None, seqlen=None, directed=False):
    """A well-formed SingleInterval (0 <= start <= end [<= len(parent sequence)])."""
    start, end = S.int(name + "_start"), S.int(name + "_end")
    strand = S.enum(STRAND, name + "_strand")
    S.assume(And(0 <= start, start <= end))
    if seqlen is not None:
        S.assume(end <= seqlen)
    if directed:
        S.assume(Not(enum_name_is(strand, "UNSTRANDED")))
    return S.new(SINGLE, start, end, strand, parent)


def strand_product(a, b):
    """Integer value of a.relative_to(b): the product of the strand signs."""
    return enum_value(a) * enum_value(b)


def is_plus(x):
    return enum_name_is(x, "PLUS")


def is_minus(x):
    return enum_name_is(x, "MINUS")


def is_unstranded(x):
    return enum_name_is(x, "UNSTRANDED")


def same_parent_stripped(result_parent, src_parent):
    """The result carries the source's parent with the location information removed (or no parent)."""
    if src_parent is None:
        return result_parent is None
    if result_parent is None:
        return False
    return And(result_parent.id == src_parent.id, result_parent.sequence is src_parent.sequence)


# ------------------------------------------------------------------------------------------------ compound intervals
class CompoundView:
    """Uniform read access to the stored blocks of a CompoundInterval (engine Obj or real object)."""

    def __init__(self, obj, cum=None, pre_fn=None):
        self.obj = obj
        self.cum = cum  # z3 function (symbolic mode) or None: prefix sums in storage order
        self.pre_fn = pre_fn  # z3 function: prefix sums in 5'->3' order

    @property
    def n(self):
        s = self.obj._starts
        return s.length if hasattr(s, "length") and hasattr(s, "get") else len(s)

    def S(self, j):
        s = self.obj._starts
        return s.get(j) if hasattr(s, "get") else s[j]

    def E(self, j):
        s = self.obj._ends
        return s.get(j) if hasattr(s, "get") else s[j]

    def cumlen(self, j):
        """Sum of the lengths of stored blocks 0..j-1."""
        if self.cum is not None:
            return self.cum(j)
        return sum(self.obj._ends[t] - self.obj._starts[t] for t in range(j))

    # 5'->3' order
    def ord(self, k):
        return If(is_plus(self.obj.strand), k, self.n - 1 - k)

    def pre(self, k):
        """Number of bases in the first k blocks in 5'->3' order."""
        if self.pre_fn is not None:
            return self.pre_fn(k)
        return If(is_plus(self.obj.strand), self.cumlen(k), self.cumlen(self.n) - self.cumlen(self.n - k))

    def unfold(self, k):
        """Instance of the defining axiom of pre at k (valid fact, 0 <= k < n): pre(k+1) = pre(k) + len(ord(k)).
        Used as an explicit instantiation hint; it follows from the axioms, so assuming it is sound."""
        return Implies(And(0 <= k, k < self.n), self.pre(k + 1) == self.pre(k) + self.E(self.ord(k)) - self.S(self.ord(k)))

    def mono(self, a, b):
        """Instance of the monotonicity axiom of pre."""
        return Implies(And(0 <= a, a <= b, b <= self.n), self.pre(a) <= self.pre(b))

    def covers(self, j, p):
        return And(self.S(j) <= p, p < self.E(j))

    def offset(self, j, p):
        """Relative offset of parent position p inside stored block j, in strand direction."""
        return If(is_plus(self.obj.strand), p - self.S(j), self.E(j) - 1 - p)


def compound(S, name, directed=True, min_blocks=1):
    """A well-formed CompoundInterval with a symbolic number of blocks (class invariant wf_compound, DESIGN 2.4):
    n >= 1, 0 <= s_j <= e_j, blocks sorted by (start, end) on PLUS and (start, -end) otherwise, length = sum of block
    lengths, start = s_0, end = e_{n-1}.  Natively built by the real constructor from already-sorted lists."""
    if S.mode == "native" or S.mode == "concrete":
        starts, ends = list(S.intlist(name + "_starts")), list(S.intlist(name + "_ends"))
        strand = S.enum(STRAND, name + "_strand")
        n = len(starts)
        S.assume(n == len(ends) and n >= min_blocks)
        S.assume(all(0 <= starts[j] <= ends[j] for j in range(n)))
        plus = enum_name_is(strand, "PLUS")
        S.assume(all((starts[j], ends[j] if plus else -ends[j]) <= (starts[j + 1], ends[j + 1] if plus else -ends[j + 1])
                     for j in range(n - 1)))
        if directed:
            S.assume(not enum_name_is(strand, "UNSTRANDED"))
        obj = S.new(COMPOUND, starts, ends, strand)
        return obj, CompoundView(obj)
    import z3
    from pyvc.values import Obj
    e = S.e
    if S.scope is not None:
        # finite-scope refutation mode: n fixed, elements symbolic, object built by the real constructor
        starts, ends = S.intlist(name + "_starts"), S.intlist(name + "_ends")
        strand = e.enum_concretize(S.enum(STRAND, name + "_strand"))
        n = len(starts)
        if n < min_blocks:
            from pyvc.values import PathAbort
            raise PathAbort()
        plus = strand.name == "PLUS"
        if directed:
            S.assume(strand.name != "UNSTRANDED")
        S.assume(And(*[And(0 <= starts[t], starts[t] <= ends[t]) for t in range(n)]))
        for t in range(n - 1):
            S.assume(Or(starts[t] < starts[t + 1],
                        And(starts[t] == starts[t + 1],
                            (ends[t] <= ends[t + 1]) if plus else (ends[t] >= ends[t + 1]))))
        obj = S.new(COMPOUND, list(starts), list(ends), strand)
        return obj, CompoundView(obj)
    starts = S.intlist(name + "_starts")
    ends = S.intlist(name + "_ends", length=starts.length)  # one length term for both lists
    strand = e.enum_concretize(S.enum(STRAND, name + "_strand"))  # case split: quantified facts depend on it
    n = starts.length
    S.assume(And(n == ends.length, n >= min_blocks))
    if directed:
        S.assume(Not(is_unstranded(strand)))
    obj = mk_compound_obj(e, starts, ends, strand, None, name)
    return obj, view(obj)


_uid = [0]


def mk_compound_obj(e, starts, ends, strand, parent, name=None, sorted_fact=True):
    """Engine Obj of class CompoundInterval over the SLists ``starts``/``ends`` (same length term) with the class
    invariant assumed: 0 <= s_j <= e_j, sortedness (if ``sorted_fact``), length = sum of block lengths (spec functions
    cum / pre with their recursive axioms), start = s_0, end = max_j e_j."""
    import z3
    from pyvc.values import Obj
    if name is None:
        _uid[0] += 1
        name = f"ci{_uid[0]}"
    n = starts.length
    j = z3.Int(name + "!j")
    Sa, Ea = starts.arrs[0], ends.arrs[0]
    e.assume(z3.ForAll([j], z3.Implies(z3.And(j >= 0, j < n), z3.And(0 <= Sa[j], Sa[j] <= Ea[j]))))
    plus = strand.name == "PLUS"
    if sorted_fact:
        e.assume(z3.ForAll([j], z3.Implies(
            z3.And(j >= 0, j < n - 1),
            z3.Or(Sa[j] < Sa[j + 1], z3.And(Sa[j] == Sa[j + 1], (Ea[j] <= Ea[j + 1]) if plus else (Ea[j] >= Ea[j + 1]))))))
    cum = z3.Function(name + "_cum", z3.IntSort(), z3.IntSort())
    e.assume(cum(0) == 0)
    e.assume(z3.ForAll([j], z3.Implies(z3.And(j >= 0, j < n), cum(j + 1) == cum(j) + Ea[j] - Sa[j]),
                       patterns=[cum(j + 1)]))
    # monotonicity of the prefix sums (consequence of s_j <= e_j by induction on j)
    i2 = z3.Int(name + "!i2")
    e.assume(z3.ForAll([j, i2], z3.Implies(z3.And(0 <= j, j <= i2, i2 <= n), cum(j) <= cum(i2)),
                       patterns=[z3.MultiPattern(cum(j), cum(i2))]))
    if strand.name == "MINUS":
        # prefix sums in 5'->3' order (storage order reversed): same recursive definition over ord(k) = n-1-k;
        # both functions sum all block lengths, so pre(n) = cum(n)
        pre = z3.Function(name + "_pre", z3.IntSort(), z3.IntSort())
        e.assume(pre(0) == 0)
        e.assume(z3.ForAll([j], z3.Implies(z3.And(j >= 0, j < n), pre(j + 1) == pre(j) + Ea[n - 1 - j] - Sa[n - 1 - j]),
                           patterns=[pre(j + 1)]))
        e.assume(z3.ForAll([j, i2], z3.Implies(z3.And(0 <= j, j <= i2, i2 <= n), pre(j) <= pre(i2)),
                           patterns=[z3.MultiPattern(pre(j), pre(i2))]))
        e.assume(pre(n) == cum(n))
    else:
        pre = cum
    cls = e.repo.find(COMPOUND)
    # end = the LARGEST block end (blocks may nest, so this need not be the end of the last block in sort order):
    # an upper bound of every end that is attained (witness index $endw)
    end = z3.Int(name + "_end")
    endw = z3.Int(name + "_endw")
    e.assume(z3.ForAll([j], z3.Implies(z3.And(j >= 0, j < n), Ea[j] <= end), patterns=[Ea[j]]))
    e.assume(z3.And(0 <= endw, endw < n, Ea[endw] == end))
    obj = Obj(cls, dict(_starts=starts, _ends=ends, strand=strand, parent=parent, _single_interval_store=None,
                        _is_overlapping=None, length=cum(n), start=Sa[0], end=end))
    obj.attrs["$endw"] = endw
    obj.attrs["$cum"] = cum
    obj.attrs["$pre"] = pre
    return obj


def view(obj):
    """CompoundView of an engine Obj built by ``compound`` or of a real CompoundInterval."""
    if hasattr(obj, "attrs"):
        return CompoundView(obj, obj.attrs.get("$cum"), obj.attrs.get("$pre"))
    return CompoundView(obj)
