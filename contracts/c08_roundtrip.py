"""C08 — dictionary export / import round trip (field mapping, parent passed through) and identifiers as functions of
content.  Symbolic: from_dict(to_dict(x)) of the real classes with symbolic coordinates rebuilds every constructor
argument.  BOUNDED: dict / pickle round trips and identifier stability over generated objects under a sweep of
PYTHONHASHSEED values (separate interpreter per seed) and qualifier insertion orders."""
import itertools

from pyvc.spec import *  # noqa
from pyvc.sources import NS
from .common import *  # noqa
from .gene_common import *  # noqa
from .c04_liftover import chunk_parent
from .lib import LIB  # noqa

VAR = "gene.variants.VariantInterval"


def _same_enum(a, b):
    return enum_eq(a, b) if hasattr(a, "idx") else a is b


def _lists_equal(a, b):
    a, b = list(a), list(b)
    return And(len(a) == len(b), *[x == y for x, y in zip(a, b)])


class TranscriptRoundTrip(Case):
    props = ("C08",)
    func = TRANSCRIPT + ".from_dict"

    def __init__(self, n, parent):
        self.n, self.parent = n, parent
        self.name = f"TranscriptInterval.from_dict(to_dict(x))[{n} exons, {'chunk parent' if parent else 'no parent'}]"
        self.call = "TranscriptInterval.from_dict(tx.to_dict(), par)"
        self.module = "gene.transcript"
        self.ensures = {
            "coordinates": lambda i, r: And(_lists_equal(r._genomic_starts, i.starts),
                                            _lists_equal(r._genomic_ends, i.ends)),
            "strand": lambda i, r: _same_enum(r._strand, i.strand),
            "cds": lambda i, r: And(_lists_equal(r.cds._genomic_starts, i.cs), _lists_equal(r.cds._genomic_ends, i.ce),
                                    all(_same_enum(a, b) for a, b in zip(r.cds.frames, i.tx.cds.frames))),
            "identifiers-and-flags": lambda i, r: And(r.transcript_id == "t1", r.transcript_symbol == "sym",
                                                      r.protein_id == "p1", r.product == "prod",
                                                      r.sequence_name == "chr1", r._is_primary_feature is True),
            "same-guid": lambda i, r: r.guid is i.tx.guid,
            "qualifiers": lambda i, r: _quals(r) == [("k", ["a", "b"]), ("z", ["1"])],
            "parent-passed-through": lambda i, r: r._parent_or_seq_chunk_parent is i.par,
            "type": lambda i, r: _same_enum(r.transcript_type, i.tx.transcript_type),
        }

    def inputs(self, S):
        n = self.n
        starts, ends = block_lists(S, "tx", n)
        strand = strand_of(S, "strand")
        cs, ce, c0, c1 = cds_in_exons(S, starts, ends)
        par = None
        if self.parent:
            par, ps, pe = chunk_parent(S)
            S.assume(And(ps <= starts[0], ends[-1] <= pe))
        zero = S.enum_const(FRAME, "ZERO")
        if S.mode == "native":
            from inscripta.biocantor.gene.biotype import Biotype
            bt = Biotype["protein_coding"]
        else:
            mod = S.e.repo.module("gene.biotype")
            B = S.e.global_value(S.e.repo.resolve_global(mod, "Biotype"), mod)
            bt = S.e.getattr(B, "protein_coding")
        tx = S.new(TRANSCRIPT, starts, ends, strand, cds_starts=cs, cds_ends=ce, cds_frames=[zero] * n,
                   qualifiers={"z": ["1"], "k": ["b", "a"]}, is_primary_tx=True, transcript_id="t1",
                   transcript_symbol="sym", transcript_type=bt, sequence_name="chr1", protein_id="p1", product="prod",
                   parent_or_seq_chunk_parent=par)
        return NS(tx=tx, par=par, starts=starts, ends=ends, cs=cs, ce=ce, strand=strand,
                  TranscriptInterval=S.cls(TRANSCRIPT))

    def samples(self, rng):
        d = sample_blocks(rng, "tx", self.n, lo=2)
        d["strand"] = rng.choice(["PLUS", "MINUS"])
        sample_cds(rng, d)
        if self.parent:
            cs = rng.randint(0, d["tx_starts"][0])
            ce = d["tx_ends"][-1] + rng.randint(0, 3)
            d.update(chunk_start=cs, chunk_end=ce, chunk_seq="".join(rng.choice("ACGT") for _ in range(ce - cs)))
        return d

    def observe(self, r):
        from pyvc.check import default_observe as o
        return [[o(x) for x in r._genomic_starts], [o(x) for x in r._genomic_ends], _quals(r)]


def _quals(r):
    q = r.qualifiers
    out = []
    for k in sorted(q):
        v = q[k]
        items = v.items if hasattr(v, "ranges") else v
        out.append((k, sorted(items)))
    return out


class CdsGuidContent(Case):
    """The CDS identifier is a function of CONTENT: a CDS described by GFF3 phases has the same identifier as the
    same CDS described by the corresponding frames (same to_dict()), and survives the dict round trip."""
    props = ("C08",)
    name = "CDSInterval.guid[phases vs frames, 2 blocks]: equal content => equal identifier; round trip"
    func = CDS + ".__init__"
    module = "gene.cds"
    call = ("(lambda a, b: (a.guid, b.guid, CDSInterval.from_dict(a.to_dict()).guid, "
            "[x.name for x in a.frames], [x.name for x in b.frames]))"
            "(CDSInterval(starts, ends, strand, phases), CDSInterval(starts, ends, strand, frames))")
    ensures = {
        "same-frames": lambda i, r: list(r[3]) == list(r[4]),
        "equal-content-equal-identifier": lambda i, r: _same_digest(r[0], r[1]),
        "identifier-survives-round-trip": lambda i, r: _same_digest(r[0], r[2]),
    }

    def inputs(self, S):
        starts, ends = block_lists(S, "cds", 2)
        strand = strand_of(S, "strand")
        names = [S.const("p0"), S.const("p1")] if S.mode != "sym" else None
        if S.mode == "sym":
            # the four phase values are a finite domain: fork over them
            ph = []
            for k in range(2):
                e = S.enum("gene.cds_frame.CDSPhase", f"p{k}")
                S.assume(Not(enum_name_is(e, "NONE")))
                ph.append(S.e.enum_concretize(e))
        else:
            ph = [S.enum("gene.cds_frame.CDSPhase", f"p{k}") for k in range(2)]
        if S.mode == "native":
            fr = [p.to_frame() for p in ph]
        else:
            fr = [S.e.call(S.e.getattr(p, "to_frame"), [], {}) for p in ph]
        return NS(starts=starts, ends=ends, strand=strand, phases=ph, frames=fr, CDSInterval=S.cls(CDS))

    def samples(self, rng):
        d = sample_blocks(rng, "cds", 2)
        d.update(strand=rng.choice(["PLUS", "MINUS"]), p0=rng.choice(["ZERO", "ONE", "TWO"]), p1=rng.choice(["ZERO", "ONE", "TWO"]))
        return d

    def observe(self, r):
        return [list(r[3]), list(r[4])]


class TranscriptPhases(CdsGuidContent):
    """A transcript whose CDS was described by GFF3 PHASES serialises the same as one described by the corresponding
    FRAMES: to_dict() lists frame names (what from_dict reads them as), and the copy rebuilt from the dictionary -
    which is what the NCBI table writer works on - has the same frames (C17: codon_start, partial marks)."""
    props = ("C08", "C17")
    name = "TranscriptInterval.to_dict[CDS given as phases vs frames, 2 exons]: same dictionary, frames survive the round trip"
    func = TRANSCRIPT + ".to_dict"
    module = "gene.transcript"
    call = ("(lambda a, b: (a.to_dict()['cds_frames'], b.to_dict()['cds_frames'], [x.name for x in b.cds.frames], "
            "[x.name for x in TranscriptInterval.from_dict(a.to_dict()).cds.frames], a.guid, b.guid))"
            "(TranscriptInterval(starts, ends, strand, cds_starts=starts, cds_ends=ends, cds_frames=phases), "
            "TranscriptInterval(starts, ends, strand, cds_starts=starts, cds_ends=ends, cds_frames=frames))")
    ensures = {
        "dictionary-lists-frame-names": lambda i, r: list(r[0]) == list(r[2]) and list(r[1]) == list(r[2]),
        "frames-survive-the-round-trip": lambda i, r: list(r[3]) == list(r[2]),
        "equal-content-equal-identifier": lambda i, r: _same_digest(r[4], r[5]),
    }

    def inputs(self, S):
        i = super().inputs(S)
        i.TranscriptInterval = S.cls(TRANSCRIPT)
        return i

    def observe(self, r):
        return [list(r[0]), list(r[1]), list(r[2]), list(r[3])]


def _same_digest(a, b):
    """two identifiers computed by digest_object are the same value: natively equal UUIDs; in the engine the digest
    is an uninterpreted function of its arguments, so 'same' means the arguments are equal term by term."""
    if hasattr(a, "attrs") and "$digest_args" in a.attrs:
        if not (hasattr(b, "attrs") and "$digest_args" in b.attrs):
            return False
        return _deep_eq(a.attrs["$digest_args"], b.attrs["$digest_args"])
    return a == b


def _deep_eq(x, y):
    if isinstance(x, (list, tuple)) and isinstance(y, (list, tuple)):
        if len(x) != len(y):
            return False
        return And(*[_deep_eq(a, b) for a, b in zip(x, y)])
    if isinstance(x, dict) and isinstance(y, dict):
        if sorted(x) != sorted(y):
            return False
        return And(*[_deep_eq(x[k], y[k]) for k in x])
    if hasattr(x, "idx") and hasattr(y, "idx"):
        return enum_eq(x, y)
    if hasattr(x, "attrs") and hasattr(y, "attrs") and "$digest_args" in x.attrs and "$digest_args" in y.attrs:
        return _deep_eq(x.attrs["$digest_args"], y.attrs["$digest_args"])  # a digest inside a digest (child identifier)
    if hasattr(x, "cls") and hasattr(y, "cls") and hasattr(x, "attrs") and hasattr(y, "attrs"):
        # two objects of the verifier (locations inside a digest): same class, equal public fields
        if x.cls.name != y.cls.name:
            return False
        keys = [k for k in x.attrs if not k.startswith("_") and k in y.attrs]
        return And(*[_deep_eq(x.attrs[k], y.attrs[k]) for k in keys])
    if x is None or y is None:
        return x is y
    if hasattr(x, "items") and hasattr(x, "ranges") and hasattr(y, "items"):
        return sorted(map(str, x.items)) == sorted(map(str, y.items))
    if hasattr(x, "length") and hasattr(x, "get") and hasattr(y, "get"):
        return And(x.length == y.length, *[x.get(k) == y.get(k) for k in range(x.length)]) if isinstance(x.length, int) else False
    try:
        r = x == y
    except Exception:
        return False
    return r


class ParentToDict(Case):
    """AbstractInterval._parent_to_dict for a collection with EXPLICIT bounds strictly inside its sequence chunk: the
    exported parent is the WHOLE chunk (its text, its chromosome coordinates, its strand), so that importing it
    rebuilds the same chunk-relative coordinates, identifier and member sequences."""
    props = ("C08", "C09")
    name = "AbstractInterval._parent_to_dict[collection with explicit bounds inside a chunk on either strand]"
    func = "gene.interval.AbstractInterval._parent_to_dict"
    module = "gene.collections"
    call = "(lambda d: (d['seq'], d['start'], d['end'], d['strand'], d['sequence_name'], d['type'], d['alphabet']))(col._parent_to_dict())"
    ensures = {
        "text-is-the-whole-chunk": lambda i, r: And(_tlen(r[0]) == i.ce - i.cs, Implies(
            And(0 <= i.k, i.k < i.ce - i.cs), _tchar(r[0], i.k) == _tchar(i.ref, i.k))),
        "chunk-coordinates-and-strand": lambda i, r: And(r[1] == i.cs, r[2] == i.ce,
                                                         r[3] == ("MINUS" if i.minus else "PLUS")),
        "names": lambda i, r: And(r[4] == "chr1", r[5] == "SEQUENCE_CHUNK", r[6] == "NT_EXTENDED_GAPPED"),
    }

    def inputs(self, S):
        from .c04_liftover import chunk_parent_stranded
        from .c09_queries import AC, GENE
        cp, cs, ce, minus = chunk_parent_stranded(S)
        strand = strand_of(S, "strand")
        s, e, lo, hi = S.int("s0"), S.int("e0"), S.int("col_start"), S.int("col_end")
        S.assume(And(cs <= lo, lo <= s, s < e, e <= hi, hi <= ce))
        tx = S.new(TRANSCRIPT, [s], [e], strand, transcript_id="tx0", parent_or_seq_chunk_parent=cp)
        gene = S.new(GENE, [tx], gene_id="g0", parent_or_seq_chunk_parent=cp)
        col = S.new(AC, genes=[gene], start=lo, end=hi, parent_or_seq_chunk_parent=cp)
        return NS(col=col, cs=cs, ce=ce, minus=minus, k=S.int("k"), ref=S.symstr("chunk_seq"))

    def samples(self, rng):
        cs = rng.randint(0, 6)
        L = rng.randint(4, 12)
        lo = cs + rng.randint(0, 2)
        hi = cs + L - rng.randint(0, 1)
        s = rng.randint(lo, hi - 1)
        return dict(chunk_start=cs, chunk_end=cs + L, chunk_seq="".join(rng.choice("ACGT") for _ in range(L)),
                    chunk_strand=rng.choice(["PLUS", "MINUS"]), strand=rng.choice(["PLUS", "MINUS"]), s0=s,
                    e0=rng.randint(s + 1, hi), col_start=lo, col_end=hi, k=rng.randint(0, 10))

    def observe(self, r):
        from pyvc.check import default_observe as o
        return [r[0] if isinstance(r[0], str) else None, o(r[1]), o(r[2]), r[3], r[4], r[5], r[6]]


def _tlen(t):
    return t.length if hasattr(t, "arr") else len(t)


def _tchar(t, k):
    if hasattr(t, "arr"):
        import z3
        return z3.Select(t.arr, k)
    return ord(t[k]) if 0 <= k < len(t) else -1


class VariantRoundTrip(Case):
    props = ("C08",)
    name = "VariantInterval.from_dict(to_dict(x), parent)"
    func = VAR + ".from_dict"
    module = "gene.variants"
    call = "VariantInterval.from_dict(v.to_dict(), par)"
    ensures = {
        "fields": lambda i, r: And(r.start == i.vs, r.end == i.ve, r.variant_type == "ins", r.variant_name == "vn",
                                   r.variant_id == "vi", r.phase_block == i.pb),  # ANY phase-set number, 0 included
        "same-guid": lambda i, r: r.guid is i.v.guid,
        "parent-passed-through": lambda i, r: r._parent_or_seq_chunk_parent is i.par,
        "alt-sequence": lambda i, r: str(r.sequence) == "ACG" if not hasattr(r, "attrs") else r.sequence.sequence == "ACG",
    }

    def inputs(self, S):
        vs, ve = S.int("vs"), S.int("ve")
        S.assume(And(0 <= vs, vs < ve))
        par, ps, pe = chunk_parent(S)
        S.assume(And(ps <= vs, ve <= pe))
        pb = S.int("pb")
        S.assume(pb >= 0)
        v = S.new(VAR, vs, ve, "ACG", "ins", pb, variant_name="vn", variant_id="vi", parent_or_seq_chunk_parent=par)
        return NS(v=v, par=par, vs=vs, ve=ve, pb=pb, VariantInterval=S.cls(VAR))

    def samples(self, rng):
        vs = rng.randint(2, 8)
        ve = vs + rng.randint(1, 3)
        cs = rng.randint(0, vs)
        ce = ve + rng.randint(0, 3)
        return dict(vs=vs, ve=ve, chunk_start=cs, chunk_end=ce, chunk_seq="".join(rng.choice("ACGT") for _ in range(ce - cs)),
                    pb=rng.choice([0, 0, 1, 3, 18]))

    def observe(self, r):
        from pyvc.check import default_observe as o
        return [o(r.start), o(r.end), r._parent_or_seq_chunk_parent is None, o(r.phase_block)]


# ---- bounded: native round trips under a hash-seed sweep ----------------------------------------------------------
class CollectionParentRoundTrip(Case):
    """AnnotationCollection.from_dict(col.to_dict(export_parent=True)) restores the parent the collection was built on,
    for every KIND of parent: an untyped sequence-less Parent(id), a typed sequence-less chromosome, a whole chromosome
    with sequence (seq_to_parent), a sequence chunk of either strand (seq_chunk_to_parent) - id, sequence type, text
    (symbolic), chunk coordinates and strand - and the collection keeps its bounds."""
    props = ("C08", "C09")
    func = "gene.collections.AnnotationCollection.from_dict"
    module = "gene.collections"
    shard_depth = 3

    def __init__(self, kind, via="to_dict"):
        self.kind, self.via = kind, via
        # via 'pickle state': the state handed to pickle (__getstate__) must rebuild the same collection, parent
        # included (__setstate__ re-initialises the object from from_dict(state))
        src = "col.to_dict(export_parent=True)" if via == "to_dict" else "col.__getstate__()"
        self.name = (f"AnnotationCollection.from_dict(to_dict(export_parent=True))[parent: {kind}]" if via == "to_dict"
                     else f"AnnotationCollection pickle state (__getstate__) rebuilds the collection[parent: {kind}]")
        self.call = ("(lambda c: (c._parent_or_seq_chunk_parent, c.start, c.end, "
                     "[g.gene_id for g in c.genes], c.chunk_relative_location))"
                     f"(AnnotationCollection.from_dict({src}))")
        self.ensures = {
            "parent-restored": lambda i, r: _parent_same(i, r[0]),
            "bounds-and-members": lambda i, r: And(r[1] == i.lo, r[2] == i.hi, list(r[3]) == ["g0"]),
            "same-chunk-relative-location": lambda i, r: _loc_same(r[4], i.col_loc),
        }

    def inputs(self, S):
        from .c09_queries import AC, GENE
        strand = strand_of(S, "strand")
        s, e, lo, hi = S.int("s0"), S.int("e0"), S.int("col_start"), S.int("col_end")
        S.assume(And(0 <= lo, lo <= s, s < e, e <= hi))
        text, cs, ce, minus = None, None, None, False
        if self.kind == "untyped id only":
            par = S.new(PARENT, id="chr1")
        elif self.kind == "typed chromosome, no sequence":
            par = S.new(PARENT, id="chr1", sequence_type="chromosome")
        elif self.kind == "whole chromosome with sequence":
            text = S.symstr("seq")
            S.assume(hi <= slen(text))
            f = S.fn("io.parser.seq_to_parent")
            par = f(text, seq_id="chr1") if S.mode == "native" else S.e.call(f, [text], {"seq_id": "chr1"})
        else:
            from .c04_liftover import chunk_parent_stranded
            par, cs, ce, minus = chunk_parent_stranded(S)
            S.assume(And(cs <= lo, hi <= ce))
            text = S.symstr("chunk_seq")
        tx = S.new(TRANSCRIPT, [s], [e], strand, transcript_id="tx0", parent_or_seq_chunk_parent=par)
        gene = S.new(GENE, [tx], gene_id="g0", parent_or_seq_chunk_parent=par)
        col = S.new(AC, genes=[gene], start=lo, end=hi, parent_or_seq_chunk_parent=par)
        col_loc = col.chunk_relative_location if S.mode == "native" else S.e.getattr(col, "chunk_relative_location")
        return NS(col=col, par=par, lo=lo, hi=hi, text=text, cs=cs, ce=ce, minus=minus, k=S.int("k"), col_loc=col_loc,
                  AnnotationCollection=S.cls(AC))

    def samples(self, rng):
        lo = rng.randint(0, 4)
        s = lo + rng.randint(0, 3)
        e = s + rng.randint(1, 5)
        hi = e + rng.randint(0, 3)
        d = dict(strand=rng.choice(["PLUS", "MINUS"]), s0=s, e0=e, col_start=lo, col_end=hi, k=rng.randint(0, 12))
        if self.kind == "whole chromosome with sequence":
            d["seq"] = "".join(rng.choice("ACGT") for _ in range(hi + rng.randint(0, 3)))
        elif self.kind.startswith("sequence chunk"):
            cs = rng.randint(0, lo)
            ce = hi + rng.randint(0, 3)
            d.update(chunk_start=cs, chunk_end=ce, chunk_strand=rng.choice(["PLUS", "MINUS"]),
                     chunk_seq="".join(rng.choice("ACGT") for _ in range(ce - cs)))
        return d

    def observe(self, r):
        from pyvc.check import default_observe as o
        from .c02_single import obs_loc
        p = r[0]
        seq = None
        if p is not None and p.sequence is not None:
            t = p.sequence.sequence if hasattr(p.sequence, "attrs") else str(p.sequence)
            seq = t if isinstance(t, str) else None
        st = None if p is None else p.sequence_type
        if st is not None:  # str-valued enum: compare by value in both worlds
            st = st.members[st.idx][1] if hasattr(st, "members") else str(getattr(st, "value", st))
        return [None if p is None else [o(p.id), st, seq], o(r[1]), o(r[2]), list(r[3]), obs_loc(r[4])[:3]]


def _seq_text(p):
    if p is None or p.sequence is None:
        return None
    return p.sequence.sequence if hasattr(p.sequence, "attrs") else str(p.sequence)


def _parent_same(i, p):
    if p is None:
        return False
    q = i.par
    conds = [p.id == q.id if not hasattr(p.id, "tag") else same_text(p.id, q.id) is not False]
    conds.append(_enum_or_none_eq(p.sequence_type, q.sequence_type))
    tp, tq = _seq_text(p), _seq_text(q)
    if (tp is None) != (tq is None):
        return False
    if tq is not None:
        conds.append(_tlen(tp) == _tlen(tq))
        conds.append(Implies(And(0 <= i.k, i.k < _tlen(tq)), _tchar(tp, i.k) == _tchar(tq, i.k)))
    if i.cs is not None:
        loc = p.sequence.parent.location
        conds.append(And(loc.start == i.cs, loc.end == i.ce, enum_name_is(loc.strand, "MINUS" if i.minus else "PLUS")))
    return And(*conds)


def _enum_or_none_eq(a, b):
    """SequenceType is a str-valued enum: 'chromosome' and SequenceType.CHROMOSOME are the same type."""
    if a is None or b is None:
        return a is None and b is None

    def val(x):
        if hasattr(x, "members") and hasattr(x, "idx"):
            return x.members[x.idx][1] if isinstance(x.idx, int) else None
        return getattr(x, "value", x)
    return val(a) == val(b)


def _loc_same(a, b):
    from .c02_single import blocks_of
    if class_name(a) != class_name(b):
        return False
    if class_name(a) == "_EmptyLocation":
        return True
    ba, bb = blocks_of(a), blocks_of(b)
    if len(ba) != len(bb):
        return False
    return And(*[And(x[0] == y[0], x[1] == y[1]) for x, y in zip(ba, bb)],
               enum_eq(a.strand, b.strand) if hasattr(a.strand, "idx") else a.strand is b.strand)


class DigestOrderIndependence(Case):
    """util.hashing._encode_object_for_digest (what digest_object feeds to md5): the encoding of a qualifier dictionary
    is a function of its CONTENT - the same for every insertion order of the keys (keys that differ only in case
    included) and every order of the value sets; complete domain of small dictionaries over such keys."""
    props = ("C08",)
    name = "digest encoding of qualifier dictionaries[all insertion orders, keys differing only in case]"
    func = "util.hashing._encode_object_for_digest"
    module = "util.hashing"
    call = "list(_encode_object_for_digest('x', {k: set(v) for k, v in pairs}, q={k: set(v) for k, v in pairs}))"
    ensures = {"function-of-content-only": lambda i, r: list(r) == _spec_encoding(i.pairs)}

    def inputs(self, S):
        pairs = [(k, list(v)) for k, v in S.const("pairs")]
        return NS(pairs=pairs, _encode_object_for_digest=S.fn("util.hashing._encode_object_for_digest"))

    def ground(self):
        keys = ["Note", "note", "NOTE", "a", "B"]
        for n in (1, 2, 3):
            for combo in itertools.permutations(keys, n):
                yield {"pairs": [[k, ["y", "X"] if j == 0 else ["v"]] for j, k in enumerate(combo)]}


def _spec_encoding(pairs):
    """specification: the positional pieces in order, a dictionary as key / rendered value in plain lexicographic key
    order (case-SENSITIVE: 'B' < 'NOTE' < 'Note' < 'a' < 'note'), a set as the str() of its lexicographically sorted
    members; keyword arguments likewise, by keyword."""
    d = {k: set(v) for k, v in pairs}

    def enc_dict(dd):
        out = []
        for k in sorted(dd):
            out.append(str(k))
            v = dd[k]
            if isinstance(v, dict):
                out += enc_dict(v)
            elif isinstance(v, (set, frozenset)):
                out.append(str(sorted(str(x) for x in v)))
            else:
                out.append(str(v))
        return out
    return ["x"] + enc_dict(d) + ["q"] + enc_dict(d)


class GuidSensitivity(Case):
    """'changing a coordinate ... changes the identifier' on the real md5-based digest (the verifier models the digest
    as a function of its ARGUMENT TUPLE, so it cannot see that digest_object feeds the pieces to md5 without any
    separator): all pairs of single-block VariantInterval / FeatureInterval objects with different coordinates from a
    small grid that contains digit-concatenation twins must have different identifiers."""
    props = ("C08",)
    proved = False
    name = "bounded: different coordinates => different identifier (digit-concatenation twins included)"
    func = "util.hashing.digest_object"
    scope = "VariantInterval(s, e, 'A', 'snv') and FeatureInterval([s], [e], +) for all 0 <= s < e in {1, 2, 11, 12, 13, 112, 113, 213}: every pair of distinct (s, e)"
    call = "_pair()"
    ensures = {"distinct-coordinates-distinct-identifier": lambda i, r: r[0] != r[1]}
    # known finding F-C08-2: the string pieces are concatenated without a separator before hashing
    known = {"distinct-coordinates-distinct-identifier": dict(
        id="F-C08-2", carve=lambda i: i.kind == "variant" and f"{i.a[0]}{i.a[1]}" == f"{i.b[0]}{i.b[1]}")}

    def inputs(self, S):
        from inscripta.biocantor.gene.variants import VariantInterval
        from inscripta.biocantor.gene.feature import FeatureInterval
        from inscripta.biocantor.location import Strand
        a, b, kind = tuple(S.const("a")), tuple(S.const("b")), S.const("kind")

        def _pair():
            if kind == "variant":
                return (str(VariantInterval(a[0], a[1], "A", "snv").guid), str(VariantInterval(b[0], b[1], "A", "snv").guid))
            return (str(FeatureInterval([a[0]], [a[1]], Strand.PLUS).guid), str(FeatureInterval([b[0]], [b[1]], Strand.PLUS).guid))

        return NS(_pair=_pair, a=a, b=b, kind=kind)

    def domain(self, tier):
        grid = [1, 2, 11, 12, 13, 112, 113, 213]
        spans = [(s, e) for s in grid for e in grid if s < e]
        for kind in ("variant", "feature"):
            for x in range(len(spans)):
                for y in range(x + 1, len(spans)):
                    yield dict(a=list(spans[x]), b=list(spans[y]), kind=kind)


class NativeRoundTrips(Case):
    props = ("C08",)
    proved = False
    name = "bounded: dict / pickle round trips and identifier stability under PYTHONHASHSEED sweep"
    func = "util.hashing.digest_object"
    scope = "one collection per spec (3 specs from the C09 tier) x 6 qualifier sets (incl. values differing only by " \
            "case, an empty value list, and 3 insertion orders) x whole chromosome / chunk / no sequence; every class's " \
            "from_dict(to_dict(x)); pickle of the collection; run under PYTHONHASHSEED 0, 1, 7 and compared"
    hashseeds = (0, 1, 7)
    call = "_probe(col)"
    ensures = {
        "members-round-trip-equal": lambda i, r: r["members_equal"],
        "same-guids-after-round-trip": lambda i, r: r["guids_equal"],
        "pickle-round-trip": lambda i, r: r["pickle_equal"],
        "qualifiers-survive": lambda i, r: r["qualifiers_equal"],
        "identifier-changes-with-content": lambda i, r: r["content_sensitive"],
    }

    def inputs(self, S):
        import pickle
        from .bounded_collections import build_collection, SPECS
        from inscripta.biocantor.gene import (AnnotationCollection, GeneInterval, TranscriptInterval, FeatureInterval,
                                              FeatureIntervalCollection)
        spec = SPECS[S.const("spec")]
        mode = S.const("mode")
        chunk = (1, 40) if mode == "chunk" else None
        quals = dict(S.const("quals"))
        col = build_collection(spec, with_seq=(mode != "none"), chunk=chunk)
        # re-build with the qualifier set on every transcript / feature
        genes, fcs = [], []
        parent = col._parent_or_seq_chunk_parent
        for g in col.genes:
            txs = []
            for t in g.transcripts:
                d = t.to_dict()
                d["qualifiers"] = {k: list(v) for k, v in quals.items()}
                d["transcript_interval_guid"] = None
                txs.append(TranscriptInterval.from_dict(d, parent))
            genes.append(GeneInterval(txs, gene_id=g.gene_id, sequence_name="chr1", qualifiers=quals,
                                      parent_or_seq_chunk_parent=parent))
        for f in col.feature_collections:
            feats = []
            for x in f.feature_intervals:
                d = x.to_dict()
                d["qualifiers"] = {k: list(v) for k, v in quals.items()}
                d["feature_interval_guid"] = None
                feats.append(FeatureInterval.from_dict(d, parent))
            fcs.append(FeatureIntervalCollection(feats, feature_collection_id=f.feature_collection_id,
                                                 sequence_name="chr1", parent_or_seq_chunk_parent=parent))
        col2 = AnnotationCollection(genes=genes, feature_collections=fcs, sequence_name="chr1",
                                    parent_or_seq_chunk_parent=parent)

        def _probe(col):
            out = {}
            members_equal = True
            guids_equal = True
            quals_equal = True
            for m in col.iter_children():
                cls = type(m)
                m2 = cls.from_dict(m.to_dict(), parent)
                members_equal &= (m2.to_dict() == m.to_dict())
                guids_equal &= (str(m2.guid) == str(m.guid))
                for c, c2 in zip(m.iter_children(), m2.iter_children()):
                    c3 = type(c).from_dict(c.to_dict(), parent)
                    members_equal &= (c3 == c) and (c2.to_dict() == c.to_dict())
                    guids_equal &= str(c3.guid) == str(c.guid) == str(c2.guid)
                    quals_equal &= ({k: sorted(v) for k, v in c3.qualifiers.items()} ==
                                    {k: sorted(set(str(x) for x in v)) for k, v in quals.items()})
            p = pickle.loads(pickle.dumps(col))
            out["pickle_equal"] = (p.to_dict() == col.to_dict()) and str(p.guid) == str(col.guid)
            out["members_equal"] = bool(members_equal)
            out["guids_equal"] = bool(guids_equal)
            out["qualifiers_equal"] = bool(quals_equal)
            # changing a coordinate changes the identifier
            sens = True
            for m in col.genes:
                t = m.transcripts[0]
                d = t.to_dict()
                d["transcript_interval_guid"] = None
                d2 = dict(d)
                d2["exon_ends"] = list(d["exon_ends"])
                d2["exon_ends"][-1] += 1
                a = TranscriptInterval.from_dict(d)
                b = TranscriptInterval.from_dict(d2)
                d3 = dict(d)
                d3["strand"] = "MINUS" if d["strand"] == "PLUS" else "PLUS"
                c = TranscriptInterval.from_dict(d3)
                sens &= len({str(a.guid), str(b.guid), str(c.guid)}) == 3
            out["content_sensitive"] = bool(sens)
            out["guids"] = sorted(str(x.guid) for m in col.iter_children() for x in list(m.iter_children()) + [m]) + [
                str(col.guid)]
            return out

        return NS(col=col2, _probe=_probe)

    def domain(self, tier):
        qsets = [
            [],
            [["note", ["x"]]],
            [["product", ["Kinase", "kinase", "KINASE"]], ["note", ["b", "a"]]],
            [["note", ["a", "b"]], ["product", ["KINASE", "Kinase", "kinase"]]],
            [["pseudo", []], ["note", ["x"]]],
            [["z", ["1", "2", "3"]], ["a", ["3", "1", "2"]], ["m", ["q"]]],
        ]
        for k in range(3):
            for mode in ("chromosome", "chunk", "none"):
                for q in qsets:
                    yield dict(spec=k, mode=mode, quals=q)

    def observe(self, r):
        return r["guids"]


CASES = [TranscriptRoundTrip(1, False), TranscriptRoundTrip(2, False), TranscriptRoundTrip(1, True), VariantRoundTrip(),
         NativeRoundTrips(), CdsGuidContent(), TranscriptPhases(), ParentToDict(), GuidSensitivity(), DigestOrderIndependence()]
CASES += [CollectionParentRoundTrip(k) for k in ("untyped id only", "typed chromosome, no sequence",
                                                 "whole chromosome with sequence", "sequence chunk of either strand")]
CASES += [CollectionParentRoundTrip(k, via="pickle state") for k in ("untyped id only", "typed chromosome, no sequence",
                                                                      "whole chromosome with sequence")]


class PickleSetState(Case):
    """Unpickling (__setstate__ on a blank object with the state __getstate__ produced) rebuilds EVERY constructor
    field of an AnnotationCollection - bounds, members, name / id, qualifiers, and the completely_within flag that
    query results carry - so the rebuilt object has the same identifier."""
    props = ("C08",)
    func = "gene.collections.AnnotationCollection.__setstate__"
    module = "gene.collections"

    def __init__(self, cw):
        self.cw = cw
        self.name = f"AnnotationCollection.__setstate__(__getstate__())[completely_within={cw}]"
        self.call = ("(lambda o: (o.__setstate__(col.__getstate__()), (o.completely_within, o.start, o.end, "
                     "[g.gene_id for g in o.genes], o.name, o.id, sorted(o.qualifiers), o.guid, col.guid))[1])(blank)")
        self.ensures = {
            "flag-bounds-members-names-qualifiers": lambda i, r: And(
                r[0] is self.cw, r[1] == i.lo, r[2] == i.hi, list(r[3]) == ["g0"], r[4] == "nm", r[5] == "ident",
                list(r[6]) == ["k"]),
            "same-identifier": lambda i, r: _same_digest(r[7], r[8]),
        }

    def inputs(self, S):
        from .c09_queries import AC, GENE
        strand = strand_of(S, "strand")
        s, e, lo, hi = S.int("s0"), S.int("e0"), S.int("col_start"), S.int("col_end")
        S.assume(And(0 <= lo, lo <= s, s < e, e <= hi))
        tx = S.new(TRANSCRIPT, [s], [e], strand, transcript_id="tx0")
        gene = S.new(GENE, [tx], gene_id="g0")
        col = S.new(AC, genes=[gene], start=lo, end=hi, name="nm", id="ident", qualifiers={"k": ["v"]},
                    completely_within=self.cw)
        blank = S.new(AC, sequence_name="blank")
        return NS(col=col, blank=blank, lo=lo, hi=hi)

    def samples(self, rng):
        lo = rng.randint(0, 4)
        s = lo + rng.randint(0, 3)
        e = s + rng.randint(1, 5)
        return dict(strand=rng.choice(["PLUS", "MINUS"]), s0=s, e0=e, col_start=lo, col_end=e + rng.randint(0, 3))

    def observe(self, r):
        from pyvc.check import default_observe as o
        return [r[0], o(r[1]), o(r[2]), list(r[3]), r[4], r[5], list(r[6])]


CASES += [PickleSetState(True), PickleSetState(False), PickleSetState(None)]
