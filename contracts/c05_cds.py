"""C05 / C07 — CDS codon windows, frame bookkeeping (DESIGN 5/C05, 5/C07, Appendix A.11)."""
from pyvc.spec import *  # noqa
from pyvc.sources import NS
from .common import *  # noqa
from .gene_common import *  # noqa
from .c04_liftover import chunk_parent, sample_chunk
from .lib import LIB  # noqa

LOC = "location.location.Location"


class ScanWindowsSingle(Case):
    """Location.scan_windows(w, step, start) on a SingleInterval: exactly the windows [start+i*step, +w) that fit,
    in 5'->3' order; refused exactly on the documented argument errors."""
    props = ("C05", "C19")
    func = LOC + ".scan_windows"

    def __init__(self, step):
        self.step = step
        self.name = f"Location.scan_windows[SingleInterval, step {step}]"
        self.call = f"(lambda ws: (len(ws), ws[k]))(list(self.scan_windows(w, {step}, start)))"
        valid = lambda i: And(0 <= i.start, i.start < i.L, i.w >= 1, i.w <= i.L, i.start + i.w <= i.L)  # noqa
        count = lambda i: Div(i.L - i.w - i.start, step) + 1  # noqa
        self.raises = {
            "ValueError": lambda i: Not(valid(i)),
            "InvalidStrandException": lambda i: And(valid(i), is_unstranded(i.self.strand)),
            # k beyond the last window (only reached for valid arguments on a directed interval)
            "IndexError": lambda i: And(valid(i), Not(is_unstranded(i.self.strand)), i.k >= count(i)),
        }
        self.ensures = {
            "number-of-windows": lambda i, r: r[0] == count(i),
            "k-th-window": lambda i, r: _window_is(r[1], i.self, i.start + i.k * step, i.start + i.k * step + i.w),
        }

    def inputs(self, S):
        itv = single(S, "self")
        k = S.int("k")
        S.assume(k >= 0)
        return NS(self=itv, L=itv.end - itv.start, w=S.int("w"), step=self.step, start=S.int("start"), k=k)

    def samples(self, rng):
        s = rng.randint(0, 6)
        return dict(self_start=s, self_end=s + rng.randint(0, 12), self_strand=rng.choice(["PLUS", "MINUS", "UNSTRANDED"]),
                    w=rng.randint(0, 4), start=rng.randint(-1, 5), k=rng.randint(0, 3))

    def observe(self, r):
        from .c02_single import obs_loc
        from pyvc.check import default_observe as o
        return [o(r[0]), obs_loc(r[1])]


def _len(r):
    return r.length if hasattr(r, "get") else len(r)


def _get(r, k):
    return r.get(k) if hasattr(r, "get") else r[k]


def _items(r):
    if hasattr(r, "get"):
        return [r.get(j) for j in range(r.length)] if isinstance(r.length, int) else []
    return list(r)


def _window_is(win, itv, a, b):
    """win is the parent location of relative interval [a,b) of the single interval itv."""
    if class_name(win) != "SingleInterval":
        return False
    s, e = itv.start, itv.end
    return And(win.start == If(is_plus(itv.strand), s + a, e - b), win.end == If(is_plus(itv.strand), s + b, e - a),
               enum_eq(win.strand, itv.strand) if hasattr(win.strand, "idx") else win.strand is itv.strand)


def cds_single(S, chunk):
    """single-exon CDSInterval [s,e), start frame f (ZERO/ONE/TWO), optionally on a sequence chunk that it overlaps."""
    starts, ends = block_lists(S, "cds", 1)
    strand = strand_of(S, "strand")
    f = S.enum(FRAME, "frame")
    S.assume(Not(enum_name_is(f, "NONE")))
    if S.mode == "sym":
        f = S.e.enum_concretize(f)
    cp, cs, ce = (None, None, None)
    if chunk:
        cp, cs, ce = chunk_parent(S)
        S.assume(Max(starts[0], cs) < Min(ends[0], ce))  # at least one CDS base on the chunk
    cds = S.new(CDS, starts, ends, strand, [f], parent_or_seq_chunk_parent=cp)
    fv = f.value if not hasattr(f, "members") else f.members[f.idx][1]
    return NS(cds=cds, s=starts[0], e=ends[0], strand=strand, f=fv, cs=cs, ce=ce, plus=_is_plus(strand))


def _blocks(r):
    from .c02_single import blocks_of
    return blocks_of(r)


def _is_plus(strand):
    return (strand.members[strand.idx][0] if hasattr(strand, "members") else strand.name) == "PLUS"


def sample_cds_single(rng, chunk):
    s = rng.randint(0, 8)
    e = s + rng.randint(1, 14)
    d = dict(cds_starts=[s], cds_ends=[e], strand=rng.choice(["PLUS", "MINUS"]), frame=rng.choice(["ZERO", "ONE", "TWO"]))
    if chunk:
        cs = rng.randint(max(0, s - 3), e - 1)
        ce = rng.randint(max(cs, s) + 1, e + 3)
        d.update(chunk_start=cs, chunk_end=ce, chunk_seq="".join(rng.choice("ACGT") for _ in range(ce - cs)))
    return d


class PrepSingleExon(Case):
    """(location, offset) handed to the codon iterator for a single-exon CDS."""
    props = ("C05", "C07")
    func = CDS + "._prepare_single_exon_window_for_scan_codon_locations"

    def __init__(self, chunk):
        self.chunk = chunk
        self.name = f"CDSInterval._prepare_single_exon_window_for_scan_codon_locations[{'chunk' if chunk else 'chromosome'}]"
        self.call = f"cds._prepare_single_exon_window_for_scan_codon_locations(None, {chunk})"
        if chunk:
            lo = lambda i: Max(i.s, i.cs)  # noqa
            hi = lambda i: Min(i.e, i.ce)  # noqa
            d5 = lambda i: (lo(i) - i.s) if i.plus else (i.e - hi(i))  # noqa: 5' CDS bases outside the chunk
            # known finding F-C07-1: start frame and cut offset are added without reduction modulo 3
            self.known = {"offset-range": dict(id="F-C07-1", carve=lambda i: i.f + Mod(-d5(i), 3) >= 3),
                          "offset-keeps-frame": dict(id="F-C07-1", carve=lambda i: False)}
            self.ensures = {
                "location-is-restriction-to-chunk": lambda i, r: And(
                    len(_blocks(r[0])) == 1, _blocks(r[0])[0][0] == lo(i) - i.cs, _blocks(r[0])[0][1] == hi(i) - i.cs),
                "offset-range": lambda i, r: And(0 <= r[1], r[1] < 3),
                "offset-keeps-frame": lambda i, r: Mod(r[1] - (i.f - d5(i)), 3) == 0,
            }
        else:
            self.ensures = {
                "location-is-cds": lambda i, r: And(r[0].start == i.s, r[0].end == i.e),
                "offset-is-start-frame": lambda i, r: r[1] == i.f,
            }

    def inputs(self, S):
        return cds_single(S, self.chunk)

    def samples(self, rng):
        return sample_cds_single(rng, self.chunk)

    def observe(self, r):
        from .c02_single import obs_loc
        from pyvc.check import default_observe as o
        return [obs_loc(r[0])[1:3], o(r[1])]


class ConstructFrames(Case):
    """construct_frames_from_location: one uninterrupted reading frame.  With blocks in 5'->3' order,
    frame_0 = f and frame_k = (bases before block k - f) mod 3; the list is in + orientation."""
    props = ("C05",)
    func = CDS + ".construct_frames_from_location"

    def __init__(self, n):
        self.n = n
        self.name = f"CDSInterval.construct_frames_from_location[{n} blocks]"
        self.call = "[x.value for x in CDSInterval.construct_frames_from_location(loc, frame)]"
        self.ensures = {"uninterrupted-reading-frame": lambda i, r: And(
            len(r) == n, *[r[_stored(i, k)] == (i.f if k == 0 else Mod(_pre(i, k) - i.f, 3)) for k in range(n)])}

    def inputs(self, S):
        starts, ends = block_lists(S, "loc", self.n)
        strand = strand_of(S, "strand")
        f = S.enum(FRAME, "frame")
        S.assume(Not(enum_name_is(f, "NONE")))
        if S.mode == "sym":
            f = S.e.enum_concretize(f)
        loc = S.new(COMPOUND, starts, ends, strand) if self.n > 1 else S.new(SINGLE, starts[0], ends[0], strand)
        fv = f.value if not hasattr(f, "members") else f.members[f.idx][1]
        return NS(loc=loc, frame=f, f=fv, starts=starts, ends=ends, plus=_is_plus(strand),
                  CDSInterval=S.cls(CDS))

    def samples(self, rng):
        d = sample_blocks(rng, "loc", self.n)
        d.update(strand=rng.choice(["PLUS", "MINUS"]), frame=rng.choice(["ZERO", "ONE", "TWO"]))
        return d


def _stored(i, k):
    """index in + orientation of the k-th block in 5'->3' order."""
    n = len(i.starts)
    return k if i.plus else n - 1 - k


def _pre(i, k):
    n = len(i.starts)
    idx = [(_stored(i, t)) for t in range(k)]
    return sum((i.ends[t] - i.starts[t] for t in idx), 0)


class CodonsSingleExonChunk(Case):
    """chunk-relative codons of a single-exon CDS, lifted back to the chromosome, are whole-chromosome codons
    (same reading frame) lying inside the chunk, starting with the first one that fits."""
    props = ("C05", "C07")
    shard_depth = 5
    name = "CDSInterval chunk-relative codons = chromosome codons inside the chunk[single exon]"
    func = CDS + "._scan_codon_locations"
    call = ("(lambda ws: (len(ws), ws[k].lift_over_to_first_ancestor_of_type(SequenceType.CHROMOSOME)))"
            "(list(cds._scan_codon_locations(None, True)))")
    module = "gene.cds"
    # inputs inside the carve-out of known finding F-C07-1 (start frame + cut offset >= 3, not reduced modulo 3; see
    # PrepSingleExon) are excluded by the precondition of this case: it proves the complement.
    raises = {"IndexError": lambda i: i.k >= _ncod(i)}
    ensures = {
        "in-reading-frame": lambda i, r: Mod(_five_prime_dist(i, r[1]) - i.f, 3) == 0,
        "three-bases-inside-chunk": lambda i, r: And(r[1].end - r[1].start == 3, Max(i.s, i.cs) <= r[1].start,
                                                     r[1].end <= Min(i.e, i.ce)),
        "first-codon-is-first-that-fits": lambda i, r: Implies(i.k == 0, _five_prime_dist(i, r[1]) == _first(i)),
        "consecutive": lambda i, r: _five_prime_dist(i, r[1]) == _five_prime_dist_k0(i, r) + 3 * i.k,
        "number-of-codons": lambda i, r: r[0] == _ncod(i),
    }

    def inputs(self, S):
        i = cds_single(S, True)
        i.k = S.int("k")
        S.assume(i.k >= 0)
        S.assume(i.f + Mod(-_d5(i), 3) < 3)
        return i

    def samples(self, rng):
        d = sample_cds_single(rng, True)
        d["k"] = rng.randint(0, 3)
        return d

    def observe(self, r):
        from .c02_single import obs_loc
        from pyvc.check import default_observe as o
        return [o(r[0]), obs_loc(r[1])[1:3]]


def _d5(i):
    return (Max(i.s, i.cs) - i.s) if i.plus else (i.e - Min(i.e, i.ce))


def _five_prime_dist(i, codon):
    """distance of the codon's 5' base from the 5' end of the CDS."""
    return (codon.start - i.s) if i.plus else (i.e - codon.end)


def _first(i):
    """5' distance of the first whole-chromosome codon that starts at or after the chunk's 5' cut."""
    d = _d5(i)
    return If(d <= i.f, i.f, d + Mod(i.f - d, 3))


def _five_prime_dist_k0(i, r):
    return _first(i) if True else 0


def _ncod(i):
    avail = (Min(i.e, i.ce) - Max(i.s, i.cs)) - (_first(i) - _d5(i))
    return If(avail >= 3, Div(avail, 3), 0)


class PrepTwoExons(Case):
    """frame cleaning for a two-exon CDS on the whole chromosome, ALL start frames and annotated second frames
    (consistent or frameshifted): the window handed to the codon iterator consists of complete codons only.
    With L0, L1 the exon lengths in 5'->3' order: the first block skips f0 bases; if the second exon's annotated
    frame f1 equals the running frame (L0 - f0) mod 3 the blocks are kept whole, otherwise the incomplete codon at
    the end of block 0 is dropped and block 1 starts f1 bases into exon 1.  Offset is 0."""
    props = ("C05",)
    name = "CDSInterval._prepare_multi_exon_window_for_scan_codon_locations[2 exons, chromosome, any frames]"
    func = CDS + "._prepare_multi_exon_window_for_scan_codon_locations"
    call = "cds._prepare_multi_exon_window_for_scan_codon_locations(None, False)"
    # nothing survives the cleaning: CompoundInterval.from_single_intervals([]) refuses the empty list
    raises = {"ValueError": lambda i: And(*[Not(t[2]) for t in _expected_two(i)])}
    ensures = {
        "offset-zero": lambda i, r: r[1] == 0,
        "cleaned-blocks": lambda i, r: _same_blocks(_blocks(r[0]), _expected_two(i)),
        "complete-codons-before-resync": lambda i, r: Implies(
            And(i.f0 < i.L0, i.f1 != Mod(i.L0 - i.f0, 3), Not(_b1_empty(i))),
            Mod(_blocklen(_expected_two(i)[0 if i.plus else -1]), 3) == 0),
    }

    def inputs(self, S):
        starts, ends = block_lists(S, "cds", 2)
        strand = strand_of(S, "strand")
        fr = []
        for nm in ("frame0", "frame1"):
            f = S.enum(FRAME, nm)
            S.assume(Not(enum_name_is(f, "NONE")))
            if S.mode == "sym":
                f = S.e.enum_concretize(f)
            fr.append(f)
        plus = _is_plus(strand)
        stored = fr if plus else fr[::-1]  # frames are listed in + orientation
        cds = S.new(CDS, starts, ends, strand, stored)
        val = lambda f: f.value if not hasattr(f, "members") else f.members[f.idx][1]  # noqa
        five = (0, 1) if plus else (1, 0)
        return NS(cds=cds, starts=starts, ends=ends, plus=plus, f0=val(fr[0]), f1=val(fr[1]),
                  L0=ends[five[0]] - starts[five[0]], L1=ends[five[1]] - starts[five[1]], five=five)

    def samples(self, rng):
        d = sample_blocks(rng, "cds", 2, length=(1, 2, 3, 4, 7))
        d.update(strand=rng.choice(["PLUS", "MINUS"]), frame0=rng.choice(["ZERO", "ONE", "TWO"]),
                 frame1=rng.choice(["ZERO", "ONE", "TWO"]))
        return d

    def observe(self, r):
        from .c02_single import obs_loc
        from pyvc.check import default_observe as o
        return [obs_loc(r[0])[1:3], o(r[1])]


def _b1_empty(i):
    """block 1 vanishes: a frameshift at exon 1 whose annotated frame is not smaller than the exon."""
    mismatch = If(i.f0 < i.L0, i.f1 != Mod(i.L0 - i.f0, 3), i.f1 != 0)
    return And(mismatch, i.f1 >= i.L1)


def _rel_to_chrom(i, exon5, a, b):
    """relative interval [a,b) inside the exon5-th exon (5'->3'), a and b measured from the exon's 5' end."""
    k = i.five[exon5]
    s, e = i.starts[k], i.ends[k]
    return (s + a, s + b) if i.plus else (e - b, e - a)


def _expected_two(i):
    """list of expected chromosome blocks (stored order), as (start, end, present) triples."""
    kept0 = i.f0 < i.L0
    mismatch = If(kept0, i.f1 != Mod(i.L0 - i.f0, 3), i.f1 != 0)
    trim = If(And(kept0, mismatch), Mod(i.L0 - i.f0, 3), 0)
    b0 = _rel_to_chrom(i, 0, i.f0, i.L0 - trim)
    b0_present = And(kept0, i.L0 - trim > i.f0)
    skip1 = If(mismatch, i.f1, 0)
    b1 = _rel_to_chrom(i, 1, skip1, i.L1)
    b1_present = skip1 < i.L1
    out = [(b0[0], b0[1], b0_present), (b1[0], b1[1], b1_present)]
    return out if i.plus else out[::-1]


def _blocklen(t):
    return t[1] - t[0]


def _same_blocks(actual, expected):
    """actual: [(s,e)] concrete length; expected: [(s,e,present)] -- equal as block lists after dropping absent ones."""
    conds = []
    n = len(expected)
    import itertools as _it
    for mask in _it.product([False, True], repeat=n):
        exp = [expected[k] for k in range(n) if mask[k]]
        guard = And(*[(expected[k][2] if mask[k] else Not(expected[k][2])) for k in range(n)])
        if len(exp) != len(actual):
            conds.append(Not(guard))
        else:
            conds.append(Implies(guard, And(*[And(a[0] == x[0], a[1] == x[1]) for a, x in zip(actual, exp)])))
    return And(*conds)


def clean_model(P, frames):
    """Reference model of the statement: walk the exons 5'->3' (exon k occupies relative [P[k], P[k+1])), skip the
    annotated offset where the annotated frame disagrees with the running frame and drop the incomplete codon
    accumulated so far.  Returns [(a, b, present)] in 5'->3' order."""
    n = len(frames)
    nf = 0
    a_, b_, app = [], [], []
    for k in range(n):
        mismatch = (nf != frames[k]) if isinstance(nf, int) and isinstance(frames[k], int) else Not(nf == frames[k])
        total = sum((If(app[j], b_[j] - a_[j], 0) for j in range(k)), 0)
        shift = If(mismatch, Mod(total, 3), 0)
        for j in range(k - 1, -1, -1):
            later = [app[t] for t in range(j + 1, k)]
            is_last = And(app[j], *[Not(x) for x in later]) if later else app[j]
            b_[j] = If(is_last, b_[j] - shift, b_[j])
        a = P[k] + If(mismatch, frames[k], 0)
        b = P[k + 1]
        nf1 = If(mismatch, 0, nf)
        ap = a < b
        nf = If(ap, Mod(nf1 + b - a, 3), nf1)
        a_.append(a)
        b_.append(b)
        app.append(ap)
    return [(a_[k], b_[k], And(app[k], a_[k] < b_[k]), app[k]) for k in range(n)]


class PrepExons(Case):
    """n-exon frame cleaning on the whole chromosome against the reference model (all frame vectors)."""
    props = ("C05",)
    func = CDS + "._prepare_multi_exon_window_for_scan_codon_locations"

    def __init__(self, n):
        self.n = n
        self.tier = "thorough" if n >= 3 else "quick"
        if n >= 3:
            self.shard_depth = 7  # ~4400 paths
        self.name = f"CDSInterval._prepare_multi_exon_window_for_scan_codon_locations[{n} exons, reference model]"
        self.call = "cds._prepare_multi_exon_window_for_scan_codon_locations(None, False)"
        # known finding F-C05-1: at a frameshift only the LAST kept block is trimmed; when the incomplete codon is
        # longer than that block its end moves before its start and the lift-over refuses the interval
        # (only a block that WAS kept can be over-trimmed: a block whose annotated offset already exceeds its length
        # is skipped, not refused)
        over_trim = lambda i: Or(*[And(t[3], t[0] > t[1]) for t in i.model])  # noqa
        self.known_raises = {"InvalidPositionException": "F-C05-1"}
        self.raises = {"InvalidPositionException": over_trim,
                       "ValueError": lambda i: And(Not(over_trim(i)), *[Not(t[2]) for t in i.model])}
        self.ensures = {
            "offset-zero": lambda i, r: r[1] == 0,
            "cleaned-blocks-match-model": lambda i, r: _same_blocks(_blocks(r[0]), i.expected),
        }

    def inputs(self, S):
        n = self.n
        starts, ends = block_lists(S, "cds", n)
        strand = strand_of(S, "strand")
        fr = []
        for k in range(n):
            f = S.enum(FRAME, f"frame{k}")
            S.assume(Not(enum_name_is(f, "NONE")))
            if S.mode == "sym":
                f = S.e.enum_concretize(f)
            fr.append(f)
        plus = _is_plus(strand)
        cds = S.new(CDS, starts, ends, strand, fr if plus else fr[::-1])
        val = lambda f: f.value if not hasattr(f, "members") else f.members[f.idx][1]  # noqa
        order = list(range(n)) if plus else list(range(n - 1, -1, -1))  # stored index of the k-th exon 5'->3'
        lens = [ends[t] - starts[t] for t in order]
        P = [sum(lens[:k], 0) for k in range(n + 1)]
        model = clean_model(P, [val(f) for f in fr])
        expected = []
        for k, (a, b, pres, _kept) in enumerate(model):
            t = order[k]
            if plus:
                expected.append((starts[t] + (a - P[k]), starts[t] + (b - P[k]), pres))
            else:
                expected.append((ends[t] - (b - P[k]), ends[t] - (a - P[k]), pres))
        if not plus:
            expected = expected[::-1]
        return NS(cds=cds, model=model, expected=expected)

    def samples(self, rng):
        d = sample_blocks(rng, "cds", self.n, length=(1, 2, 3, 4, 7))
        d["strand"] = rng.choice(["PLUS", "MINUS"])
        for k in range(self.n):
            d[f"frame{k}"] = rng.choice(["ZERO", "ONE", "TWO"])
        return d

    observe = PrepTwoExons.observe


class ChunkRelativeFrames(Case):
    """chunk_relative_frames: the frame of the first CDS base kept on the chunk continues the chromosome reading
    frame (start offset minus the number of CDS bases cut at the 5' end, modulo 3); the remaining entries are the
    uninterrupted frames of the chunk-relative location (construct_frames_from_location, proved above)."""
    props = ("C07", "C05", "C11")  # the phase column of chunk-relative GFF rows
    func = CDS + ".chunk_relative_frames"

    def __init__(self, n, stranded=False):
        self.n, self.stranded = n, stranded
        self.tier = "thorough" if n >= 3 else "quick"
        self.shard_depth = 7 if n >= 2 else 3
        self.name = f"CDSInterval.chunk_relative_frames[{n} exons{', chunk on either strand' if stranded else ''}]"
        self.call = ("([x.value for x in cds.chunk_relative_frames], [x.value for x in "
                     "CDSInterval.construct_frames_from_location(cds.chunk_relative_location, CDSFrame(fexp))])")
        self.ensures = {"continues-chromosome-reading-frame": lambda i, r: And(
            len(r[0]) == len(r[1]), *[a == b for a, b in zip(r[0], r[1])])}

    def inputs(self, S):
        n = self.n
        starts, ends = block_lists(S, "cds", n)
        strand = strand_of(S, "strand")
        f = S.enum(FRAME, "frame")
        S.assume(Not(enum_name_is(f, "NONE")))
        if S.mode == "sym":
            f = S.e.enum_concretize(f)
        fv = f.value if not hasattr(f, "members") else f.members[f.idx][1]
        if self.stranded:
            from .c04_liftover import chunk_parent_stranded
            cp, cs, ce, _minus = chunk_parent_stranded(S)
        else:
            cp, cs, ce = chunk_parent(S)
        plus = _is_plus(strand)
        S.assume(Or(*[Max(starts[k], cs) < Min(ends[k], ce) for k in range(n)]))  # some CDS base on the chunk
        frames = S.fn(CDS + ".construct_frames_from_location")
        loc = S.new(COMPOUND, starts, ends, strand) if n > 1 else S.new(SINGLE, starts[0], ends[0], strand)
        fl = frames(loc, f) if S.mode == "native" else S.e.call(frames, [loc, f], {})
        cds = S.new(CDS, starts, ends, strand, fl, parent_or_seq_chunk_parent=cp)
        if plus:
            cut = sum((Max(0, Min(ends[k], cs) - starts[k]) for k in range(n)), 0)
        else:
            cut = sum((Max(0, ends[k] - Max(starts[k], ce)) for k in range(n)), 0)
        return NS(cds=cds, fexp=Mod(fv - cut, 3), CDSInterval=S.cls(CDS), CDSFrame=S.cls(FRAME))

    def samples(self, rng):
        d = sample_blocks(rng, "cds", self.n, length=(1, 2, 3, 4, 7))
        d.update(strand=rng.choice(["PLUS", "MINUS"]), frame=rng.choice(["ZERO", "ONE", "TWO"]))
        cs = rng.randint(0, d["cds_ends"][-1] - 1)
        ce = rng.randint(cs + 1, d["cds_ends"][-1] + 2)
        d.update(chunk_start=cs, chunk_end=ce, chunk_seq="".join(rng.choice("ACGT") for _ in range(ce - cs)),
                 chunk_strand=rng.choice(["PLUS", "MINUS"]))
        return d


class CdsOptimize(Case):
    """CDSInterval.optimize_blocks / optimize_and_combine_blocks: the new CDS covers the same bases (adjacent blocks
    merged) and ALWAYS carries freshly derived frames - one uninterrupted reading frame continuing the frame of the
    5'-most block - whatever (possibly frameshifted) frames the source listed, also when no block had to be merged
    (the documented 'internal frameshifts will be lost'; the .tbl writer relies on it for pseudo / partial flags)."""
    props = ("C05", "C17")
    func = CDS + ".optimize_and_combine_blocks"

    def __init__(self, method):
        self.method = method
        self.name = f"CDSInterval.{method}[2 blocks, any listed frames]"
        self.call = (f"(lambda r: (r.chromosome_location, [x.value for x in r.frames], r.strand))(cds.{method}())")
        self.ensures = {
            "same-bases": lambda i, r: Iff(_cov(r[0], i.q), Or(*[And(s <= i.q, i.q < e) for s, e in zip(i.starts, i.ends)])),
            "adjacent-blocks-merged": lambda i, r: len(_blocks(r[0])) == (1 if _concrete_true(i.adjacent) else 2)
            if isinstance(i.adjacent, bool) else Or(And(i.adjacent, len(_blocks(r[0])) == 1),
                                                    And(Not(i.adjacent), len(_blocks(r[0])) == 2)),
            "frames-rederived-from-the-5p-frame": lambda i, r: _rederived(i, r),
        }

    def inputs(self, S):
        starts, ends = block_lists(S, "cds", 2)
        strand = strand_of(S, "strand")
        fs = []
        for k in range(2):
            f = S.enum(FRAME, f"frame{k}")
            S.assume(Not(enum_name_is(f, "NONE")))
            if S.mode == "sym":
                f = S.e.enum_concretize(f)
            fs.append(f)
        cds = S.new(CDS, starts, ends, strand, fs)
        plus = _is_plus(strand)
        f5 = fs[0] if plus else fs[1]
        fv = f5.value if not hasattr(f5, "members") else f5.members[f5.idx][1]
        return NS(cds=cds, starts=starts, ends=ends, plus=plus, f5=fv, q=S.int("q"), adjacent=ends[0] == starts[1])

    def samples(self, rng):
        d = sample_blocks(rng, "cds", 2, gap=(0, 1, 3), length=(1, 2, 3, 4, 7))
        d.update(strand=rng.choice(["PLUS", "MINUS"]), frame0=rng.choice(["ZERO", "ONE", "TWO"]),
                 frame1=rng.choice(["ZERO", "ONE", "TWO"]), q=rng.randint(0, 20))
        return d

    def observe(self, r):
        from .c02_single import obs_loc
        from pyvc.check import default_observe as o
        return [obs_loc(r[0])[:2], [o(x) for x in r[1]], o(r[2])]


def _cov(loc, q):
    from .c02_single import covers_pos
    return covers_pos(loc, q)


def _concrete_true(x):
    return x is True


def _rederived(i, r):
    bl = _blocks(r[0])
    fr = list(r[1])
    if len(fr) != len(bl):
        return False
    if len(bl) == 1:
        return fr[0] == i.f5
    first, second = (0, 1) if i.plus else (1, 0)
    return And(fr[first] == i.f5, fr[second] == Mod((bl[first][1] - bl[first][0]) - i.f5, 3))


class CdsSequenceText(Case):
    """CDSInterval.extract_sequence on symbolic text (CDS built on a sequence chunk of either strand that contains
    it, frames forming one reading frame from the start frame f): the coding sequence is the reading-frame model
    read off the chromosome - its length is 3 * floor((L - f) / 3), a multiple of three, and its k-th base is the
    chromosome base (of the CDS strand) at CDS position f + k: exactly the concatenation of the complete codons."""
    props = ("C05", "C03", "C07")
    func = CDS + ".extract_sequence"
    shard_depth = 6

    def __init__(self, n):
        self.n = n
        self.tier = "thorough" if n > 1 else "quick"
        self.name = f"CDSInterval.extract_sequence[{n} exons, one reading frame, symbolic text, chunk of either strand]"
        self.call = "(lambda s: (len(s), s, cds.num_codons))(cds.extract_sequence())"
        # known finding F-C05-2: a 5'-most exon SHORTER than the start offset (the skipped bases run into the second
        # exon) - the frame cleaning then drops a whole extra codon
        kf = dict(id="F-C05-2", carve=lambda i: i.first5 < i.f)
        self.known = {"length-is-the-number-of-complete-codons-times-three": kf,
                      "k-th-base-is-the-chromosome-base-at-cds-position-f-plus-k": kf} if n > 1 else {}
        self.ensures = {
            "length-is-the-number-of-complete-codons-times-three": lambda i, r: And(
                r[0] == 3 * Div(i.L - i.f, 3), Mod(r[0], 3) == 0, r[2] == Div(i.L - i.f, 3)),
            "k-th-base-is-the-chromosome-base-at-cds-position-f-plus-k": lambda i, r: Implies(
                And(0 <= i.k, i.k < r[0]),
                _tchar(r[1], i.k) == _chrom_base(i, _cds_pos(i, i.f + i.k))),
        }

    def inputs(self, S):
        from .c04_liftover import chunk_parent_stranded
        n = self.n
        starts, ends = block_lists(S, "cds", n)
        strand = strand_of(S, "strand")
        f = S.enum(FRAME, "frame")
        S.assume(Not(enum_name_is(f, "NONE")))
        if S.mode == "sym":
            f = S.e.enum_concretize(f)
        fv = f.value if not hasattr(f, "members") else f.members[f.idx][1]
        cp, cs, ce, minus = chunk_parent_stranded(S)
        S.assume(And(cs <= starts[0], ends[-1] <= ce))
        L = sum((e - s for s, e in zip(starts, ends)), 0)
        S.assume(L - fv >= 3)  # at least one complete codon
        # the start offset lies inside the 5'-most exon (an exon shorter than the offset is the corner of the known
        # findings on frame cleaning, F-C05-1 / 'tiny first exon' of the bounded twin case)
        first5 = (ends[0] - starts[0]) if _is_plus(strand) else (ends[-1] - starts[-1])
        self._first5 = first5
        frames = S.fn(CDS + ".construct_frames_from_location")
        loc = S.new(COMPOUND, starts, ends, strand) if n > 1 else S.new(SINGLE, starts[0], ends[0], strand)
        fl = frames(loc, f) if S.mode == "native" else S.e.call(frames, [loc, f], {})
        cds = S.new(CDS, starts, ends, strand, fl, parent_or_seq_chunk_parent=cp)
        return NS(cds=cds, f=fv, L=L, k=S.int("k"), starts=starts, ends=ends, plus=_is_plus(strand), cs=cs, ce=ce,
                  minus=minus, text=S.symstr("chunk_seq"), first5=first5)

    def samples(self, rng):
        d = sample_blocks(rng, "cds", self.n, lo=2, length=(3, 4, 5, 7))
        cs = rng.randint(0, d["cds_starts"][0])
        ce = d["cds_ends"][-1] + rng.randint(0, 3)
        d.update(strand=rng.choice(["PLUS", "MINUS"]), frame=rng.choice(["ZERO", "ONE", "TWO"]), k=rng.randint(0, 9),
                 chunk_start=cs, chunk_end=ce, chunk_strand=rng.choice(["PLUS", "MINUS"]),
                 chunk_seq="".join(rng.choice("ACGT") for _ in range(ce - cs)))
        return d

    def observe(self, r):
        from pyvc.check import default_observe as o
        text = r[1].sequence if hasattr(r[1], "attrs") else str(r[1])
        return [o(r[0]), text if isinstance(text, str) else None, o(r[2])]


class CdsSequenceTextCut(Case):
    """single-exon CDS on a sequence chunk of EITHER strand that CUTS it (any window holding at least one complete
    codon of the chromosome reading frame): the chunk-built CDS reads exactly the whole-chromosome codons that lie
    fully inside the chunk - its coding sequence starts at the first such codon (offset (f - d5) mod 3 into the visible
    part, d5 = CDS bases cut at the 5' end), has 3 * floor((V - offset) / 3) bases, base k = chromosome base at CDS
    position d5 + offset + k; the chromosome-level codon count is unchanged (C07)."""
    props = ("C05", "C07", "C03")
    func = CDS + ".extract_sequence"
    shard_depth = 5
    name = "CDSInterval.extract_sequence[1 exon, chunk of either strand CUTTING the CDS, symbolic text]"
    call = "(lambda s: (len(s), s, cds.num_codons, cds.num_chunk_relative_codons))(cds.extract_sequence())"
    # known finding F-C07-1: start frame + cut offset >= 3 is not reduced modulo 3 (one codon lost)
    _kf = dict(id="F-C07-1", carve=lambda i: i.f + Mod(-i.d5, 3) >= 3)
    known = {"visible-complete-codons": _kf, "k-th-base-is-the-chromosome-base": _kf, "codon-counts": _kf}
    ensures = {
        "visible-complete-codons": lambda i, r: And(r[0] == 3 * Div(i.V - i.o, 3), Mod(r[0], 3) == 0),
        "k-th-base-is-the-chromosome-base": lambda i, r: Implies(
            And(0 <= i.k, i.k < r[0]), _tchar(r[1], i.k) == _chrom_base(i, _cds_pos(i, i.d5 + i.o + i.k))),
        "codon-counts": lambda i, r: And(r[2] == Div(i.L - i.f, 3), r[3] == Div(i.V - i.o, 3)),
    }

    def inputs(self, S):
        from .c04_liftover import chunk_parent_stranded
        starts, ends = block_lists(S, "cds", 1)
        strand = strand_of(S, "strand")
        f = S.enum(FRAME, "frame")
        S.assume(Not(enum_name_is(f, "NONE")))
        if S.mode == "sym":
            f = S.e.enum_concretize(f)
        fv = f.value if not hasattr(f, "members") else f.members[f.idx][1]
        cp, cs, ce, minus = chunk_parent_stranded(S)
        s, e = starts[0], ends[0]
        vs, ve = Max(s, cs), Min(e, ce)
        V = ve - vs
        plus = _is_plus(strand)
        d5 = (vs - s) if plus else (e - ve)
        o = Mod(fv - d5, 3)
        S.assume(And(V > 0, V - o >= 3, (e - s) - fv >= 3))  # at least one complete codon visible
        cds = S.new(CDS, starts, ends, strand, [f], parent_or_seq_chunk_parent=cp)
        return NS(cds=cds, f=fv, L=e - s, V=V, o=o, d5=d5, k=S.int("k"), starts=starts, ends=ends, plus=plus, cs=cs,
                  ce=ce, minus=minus, text=S.symstr("chunk_seq"))

    def samples(self, rng):
        s = rng.randint(2, 8)
        e = s + rng.randint(6, 16)
        cs = rng.randint(max(0, s - 2), e - 4)
        ce = rng.randint(cs + 4, e + 2)
        return dict(cds_starts=[s], cds_ends=[e], strand=rng.choice(["PLUS", "MINUS"]), frame=rng.choice(["ZERO", "ONE", "TWO"]),
                    k=rng.randint(0, 9), chunk_start=cs, chunk_end=ce, chunk_strand=rng.choice(["PLUS", "MINUS"]),
                    chunk_seq="".join(rng.choice("ACGT") for _ in range(ce - cs)))

    def observe(self, r):
        from pyvc.check import default_observe as o
        text = r[1].sequence if hasattr(r[1], "attrs") else str(r[1])
        return [o(r[0]), text if isinstance(text, str) else None, o(r[2]), o(r[3])]


def _tchar(seq, k):
    t = seq.sequence if hasattr(seq, "attrs") else str(seq)
    if hasattr(t, "arr"):
        import z3
        return z3.Select(t.arr, k)
    return ord(t[k]) if 0 <= k < len(t) else -1


def _cds_pos(i, t):
    from .c03_sequence import _pos
    return _pos(i, t)


def _chrom_base(i, p):
    from .c03_sequence import _chrom_base as cb
    return cb(i, p)


CASES = [CdsSequenceTextCut(), CdsSequenceText(1), CdsSequenceText(2), CdsOptimize("optimize_and_combine_blocks"), CdsOptimize("optimize_blocks"), ScanWindowsSingle(3), ScanWindowsSingle(1), PrepSingleExon(False), PrepSingleExon(True), PrepTwoExons(),
         PrepExons(3), ChunkRelativeFrames(1, True), ChunkRelativeFrames(2, True), ChunkRelativeFrames(3, True),
         ConstructFrames(1), ConstructFrames(2), ConstructFrames(3), CodonsSingleExonChunk()]


class InFrameStop(Case):
    """CDSInterval.has_in_frame_stop / translate on the complete domain of 1..3-codon coding sequences over
    {ATG, AAA, TAA, TGA, TAG} (single exon, both strands): the protein is the codon-wise translation, and an in-frame
    stop is reported iff some codon BEFORE the last one is a stop - a run of stops at the end still counts."""
    props = ("C05", "C17")
    name = "CDSInterval.translate / has_in_frame_stop[all 1..3-codon sequences over 5 codons, both strands]"
    func = CDS + ".has_in_frame_stop"
    module = "gene.cds"
    call = "(lambda c: (str(c.translate()), c.has_in_frame_stop, c.num_codons))(cds)"
    ensures = {
        "protein-is-codon-wise-translation": lambda i, r: r[0] == "".join(_AA[c] for c in i.codons),
        "in-frame-stop-iff-a-stop-before-the-last-codon": lambda i, r: r[1] == any(_AA[c] == "*" for c in i.codons[:-1]),
        "codon-count": lambda i, r: r[2] == len(i.codons),
    }

    def inputs(self, S):
        codons = list(S.const("codons"))
        plus = S.const("plus")
        text = "".join(codons)
        if not plus:
            text = "".join({"A": "T", "C": "G", "G": "C", "T": "A"}[ch] for ch in reversed(text))
        genome = "CC" + text + "GG"
        f = S.fn("io.parser.seq_to_parent")
        par = f(genome, seq_id="chr1") if S.mode == "native" else S.e.call(f, [genome], {"seq_id": "chr1"})
        cds = S.new(CDS, [2], [2 + len(text)], S.enum_const(STRAND, "PLUS" if plus else "MINUS"),
                    [S.enum_const(FRAME, "ZERO")], parent_or_seq_chunk_parent=par)
        return NS(cds=cds, codons=codons)

    def ground(self):
        import itertools
        for n in (1, 2, 3):
            for cs in itertools.product(("ATG", "AAA", "TAA", "TGA", "TAG"), repeat=n):
                for plus in (True, False):
                    yield dict(codons=list(cs), plus=plus)


_AA = {"ATG": "M", "AAA": "K", "TAA": "*", "TGA": "*", "TAG": "*"}
CASES.append(InFrameStop())


class StartStopFlags(Case):
    """the flags the NCBI table writer derives its partial marks from, on the complete domain of single-exon CDS with
    start frame 0 / 1 / 2 (that many leading bases skipped), 2 codons over {ATG, TTG, AAA, TAA} and 0-1 trailing
    bases, both strands, translation tables DEFAULT (ATG only) and PROKARYOTE: the start flag looks at the FIRST
    IN-FRAME codon (not at the raw first triplet), has_valid_stop at the last complete codon; translate agrees."""
    props = ("C05", "C17")
    name = "CDSInterval start / stop flags[all frames x 2-codon sequences over 4 codons x trailing bases, both strands]"
    func = CDS + ".has_start_codon_in_specific_translation_table"
    module = "gene.cds"
    call = ("(lambda c: (c.has_start_codon_in_specific_translation_table(TranslationTable[table]), c.has_valid_stop, "
            "str(c.translate(translation_table=TranslationTable[table])), c.num_codons))(cds)")
    ensures = {
        "start-flag-is-about-the-first-in-frame-codon": lambda i, r: r[0] == (i.codons[0] in _STARTS[i.table]),
        "valid-stop-iff-last-complete-codon-is-a-stop": lambda i, r: r[1] == (i.codons[-1] == "TAA"),
        "protein-is-codon-wise-translation-with-the-start-rule": lambda i, r: r[2] == (
            ("M" if i.codons[0] in _STARTS[i.table] else _AA2[i.codons[0]]) + "".join(_AA2[c] for c in i.codons[1:])),
        "codon-count": lambda i, r: r[3] == len(i.codons),
    }

    def inputs(self, S):
        codons = list(S.const("codons"))
        plus, f, trail, table = S.const("plus"), S.const("frame"), S.const("trail"), S.const("table")
        text = "G" * f + "".join(codons) + "C" * trail
        if not plus:
            text = "".join({"A": "T", "C": "G", "G": "C", "T": "A"}[ch] for ch in reversed(text))
        genome = "CC" + text + "GG"
        fn = S.fn("io.parser.seq_to_parent")
        par = fn(genome, seq_id="chr1") if S.mode == "native" else S.e.call(fn, [genome], {"seq_id": "chr1"})
        cds = S.new(CDS, [2], [2 + len(text)], S.enum_const(STRAND, "PLUS" if plus else "MINUS"),
                    [S.enum_const(FRAME, ["ZERO", "ONE", "TWO"][f])], parent_or_seq_chunk_parent=par)
        return NS(cds=cds, codons=codons, table=table, TranslationTable=S.cls("gene.codon.TranslationTable"))

    def ground(self):
        import itertools
        for cs in itertools.product(("ATG", "TTG", "AAA", "TAA"), repeat=2):
            for plus in (True, False):
                for f in (0, 1, 2):
                    for trail in (0, 1):
                        for table in ("DEFAULT", "PROKARYOTE"):
                            yield dict(codons=list(cs), plus=plus, frame=f, trail=trail, table=table)


_AA2 = {"ATG": "M", "TTG": "L", "AAA": "K", "TAA": "*"}
_STARTS = {"DEFAULT": {"ATG"}, "PROKARYOTE": {"ATG", "TTG"}}
CASES.append(StartStopFlags())


class ExpandToCodons(Case):
    """CDSInterval._expand_coordinates_to_codons (what scan_*_codon_locations(..., expand_window_to_partial_codons=True)
    widens the window with): the smallest window of whole codons - counted from the 5' END of the CDS, on either
    strand - that contains the part of the requested window lying on the CDS.  Complete domain: single-exon CDS of
    length 9 / 10 / 11 (frame ZERO), both strands, every window [a, b) around it."""
    props = ("C05",)
    name = "CDSInterval._expand_coordinates_to_codons[single exon of length 9..11, both strands, all windows]"
    func = CDS + "._expand_coordinates_to_codons"
    module = "gene.cds"
    call = "cds._expand_coordinates_to_codons(a, b)"
    # known finding F-C05-3: when the CDS length is not a multiple of three and the window reaches into the trailing
    # incomplete codon, the widened CDS interval runs past the end of the CDS and the conversion back raises
    _tail = staticmethod(lambda i: (i.L % 3 != 0) and ((i.b2 > i.s + 3 * (i.L // 3)) if i.plus else (i.a2 < i.e - 3 * (i.L // 3))))
    raises = {"LocationOverlapException": lambda i: not (i.a2 < i.b2),
              "InvalidPositionException": lambda i: (i.a2 < i.b2) and ExpandToCodons._tail(i)}
    known_raises = {"InvalidPositionException": "F-C05-3"}
    ensures = {
        "contains-the-window-part-on-the-cds": lambda i, r: r[0] <= i.a2 and i.b2 <= r[1],
        "codon-boundaries-counted-from-the-5p-end": lambda i, r: (
            ((r[0] - i.s) % 3 == 0 and (r[1] - i.s) % 3 == 0) if i.plus else ((i.e - r[1]) % 3 == 0 and (i.e - r[0]) % 3 == 0)),
        "smallest-such-window": lambda i, r: r[0] > i.a2 - 3 and r[1] < i.b2 + 3,
    }

    def inputs(self, S):
        plus, L, a, b = S.const("plus"), S.const("L"), S.const("a"), S.const("b")
        s, e = 10, 10 + L
        cds = S.new(CDS, [s], [e], S.enum_const(STRAND, "PLUS" if plus else "MINUS"), [S.enum_const(FRAME, "ZERO")])
        return NS(cds=cds, plus=plus, L=L, s=s, e=e, a=a, b=b, a2=max(a, s), b2=min(b, e))

    def ground(self):
        for plus in (True, False):
            for L in (9, 10, 11):
                for a in range(9, 10 + L):
                    for b in range(a + 1, 12 + L):
                        yield dict(plus=plus, L=L, a=a, b=b)

    def observe(self, r):
        return list(r)


CASES.append(ExpandToCodons())
