"""C14 — BED12 export of FeatureInterval / TranscriptInterval in chromosome and chunk-relative mode (DESIGN A.7)."""
from pyvc.spec import *  # noqa
from pyvc.sources import NS
from .common import *  # noqa
from .gene_common import *  # noqa
from .c04_liftover import chunk_parent, sample_chunk
from .lib import LIB  # noqa


def bed_invariants(b, n_expected=None):
    """the format's own invariants on a BED12 record with a concrete number of blocks."""
    sizes, starts = list(b.block_sizes), list(b.block_starts)
    k = len(sizes)
    parts = [b.block_count == k, len(starts) == k]
    if k > 0:
        parts.append(starts[0] == 0)
        for a in range(k - 1):
            parts.append(starts[a] < starts[a + 1])
        parts.append(starts[-1] + sizes[-1] == b.end - b.start)
        parts += [sz > 0 for sz in sizes]
    return And(*parts)


def _spec_bin(start, end):
    from .c16_bins import spec_bin
    return spec_bin(start, end, 0)


def decoded_blocks(b):
    return [(b.start + s, b.start + s + z) for s, z in zip(list(b.block_starts), list(b.block_sizes))]


class FeatureBed(Case):
    props = ("C14", "C16")
    func = FEATURE + ".to_bed12"

    def __init__(self, n, chunk, overlap=False):
        self.n, self.chunk, self.overlap = n, chunk, overlap
        mode = "chunk-relative" if chunk else "chromosome"
        self.name = f"FeatureInterval.to_bed12[{n} blocks{', blocks may overlap or nest' if overlap else ''}, {mode}]"
        self.call = f"f.to_bed12(chromosome_relative_coordinates={not chunk})"
        self.ensures = {
            "format-invariants": lambda i, r: bed_invariants(r),
            "decodes-to-exported-blocks": lambda i, r: And(
                len(decoded_blocks(r)) == len(i.expected),
                *[And(a[0] == b[0], a[1] == b[1]) for a, b in zip(decoded_blocks(r), i.expected)]),
            "bounds": lambda i, r: And(r.start == i.expected[0][0], r.end == i.expected[-1][1]),
            "strand-name-chrom": lambda i, r: And(_same_enum(r.strand, i.strand), r.name == "feat1", r.chrom == "chr1"),
            "thick-zero-for-features": lambda i, r: And(r.thick_start == 0, r.thick_end == 0),
            # C16: the bin stored at construction is the UCSC bin of the CHROMOSOME span (also on a chunk parent)
            "stored-bin-is-bin-of-chromosome-span": lambda i, r: i.f.bin == _spec_bin(i.span[0], i.span[1]),
        }
        if overlap:
            # blocks that overlap / nest are not a valid BED layout (the format's own invariants need disjoint
            # ascending blocks); what the property still demands is that decoding returns exactly the given blocks,
            # each start with ITS end
            self.ensures = {k: v for k, v in self.ensures.items() if k in ("decodes-to-exported-blocks",
                                                                           "strand-name-chrom")}

    def inputs(self, S):
        starts, ends = block_lists(S, "f", self.n, allow_overlap=self.overlap)
        strand = strand_of(S, "strand")
        if self.chunk:
            cp, cs, ce = chunk_parent(S)
            # the chunk window contains the whole interval (the statement's quantifier)
            S.assume(And(cs <= starts[0], ends[-1] <= ce))
            expected = [(s - cs, e - cs) for s, e in zip(starts, ends)]
        else:
            cp = None
            expected = list(zip(starts, ends))
        f = S.new(FEATURE, starts, ends, strand, sequence_name="chr1", feature_name="feat1",
                  parent_or_seq_chunk_parent=cp)
        return NS(f=f, strand=strand, expected=expected, span=(starts[0], ends[-1]))

    def samples(self, rng):
        d = sample_blocks(rng, "f", self.n, lo=2)
        d["strand"] = rng.choice(["PLUS", "MINUS"])
        if self.chunk:
            cs = rng.randint(0, d["f_starts"][0])
            ce = d["f_ends"][-1] + rng.randint(0, 3)
            d.update(chunk_start=cs, chunk_end=ce, chunk_seq="".join(rng.choice("ACGT") for _ in range(ce - cs)))
        return d

    def observe(self, r):
        from pyvc.check import default_observe as o
        return [o(r.chrom), o(r.start), o(r.end), o(r.name), o(r.strand), o(r.thick_start), o(r.thick_end),
                o(r.block_count), [o(x) for x in r.block_sizes], [o(x) for x in r.block_starts]]


def _same_enum(a, b):
    return enum_eq(a, b) if hasattr(a, "idx") else a is b


class TranscriptBed(Case):
    props = ("C14", "C16")
    func = TRANSCRIPT + ".to_bed12"

    def __init__(self, n, chunk, coding):
        self.n, self.chunk, self.coding = n, chunk, coding
        mode = ("chunk-relative, chunk of either strand" if chunk == "stranded" else "chunk-relative") if chunk else "chromosome"
        self.name = f"TranscriptInterval.to_bed12[{n} exons, {'coding' if coding else 'non-coding'}, {mode}]"
        self.call = f"tx.to_bed12(chromosome_relative_coordinates={not chunk})"
        self.ensures = {
            "format-invariants": lambda i, r: bed_invariants(r),
            "decodes-to-exported-blocks": lambda i, r: And(
                len(decoded_blocks(r)) == len(i.expected),
                *[And(a[0] == b[0], a[1] == b[1]) for a, b in zip(decoded_blocks(r), i.expected)]),
            "bounds": lambda i, r: And(r.start == i.expected[0][0], r.end == i.expected[-1][1]),
            # the strand column is the interval's own (chromosome) strand in both modes, also on a reverse-strand chunk
            "strand-name-chrom": lambda i, r: And(_same_enum(r.strand, i.strand), r.name == "tx1", r.chrom == "chr1"),
            "thick-is-cds-bounds": lambda i, r: And(r.thick_start == i.thick[0], r.thick_end == i.thick[1]),
            "thick-inside-record": lambda i, r: Or(And(r.thick_start == 0, r.thick_end == 0),
                                                   And(r.start <= r.thick_start, r.thick_start <= r.thick_end,
                                                       r.thick_end <= r.end)),
            "stored-bin-is-bin-of-chromosome-span": lambda i, r: i.tx.bin == _spec_bin(i.span[0], i.span[1]),
        }

    def inputs(self, S):
        starts, ends = block_lists(S, "tx", self.n)
        strand = strand_of(S, "strand")
        off = 0
        minus = False
        if self.chunk == "stranded":
            from .c04_liftover import chunk_parent_stranded
            cp, cs, ce, minus = chunk_parent_stranded(S)
            S.assume(And(cs <= starts[0], ends[-1] <= ce))
            off = cs
        elif self.chunk:
            cp, cs, ce = chunk_parent(S)
            S.assume(And(cs <= starts[0], ends[-1] <= ce))
            off = cs
        else:
            cp = None
        # chunk coordinates: x - cs on a plus-strand chunk; on a minus-strand chunk the axis is mirrored (chromosome
        # block [s, e) is chunk block [ce - e, ce - s), the blocks come in reverse order and the strand flips)
        m = (lambda s_, e_: (ce - e_, ce - s_)) if minus else (lambda s_, e_: (s_ - off, e_ - off))
        expected = [m(s, e) for s, e in zip(starts, ends)]
        if minus:
            expected = expected[::-1]
        kw = dict(sequence_name="chr1", transcript_symbol="tx1", parent_or_seq_chunk_parent=cp)
        thick = (0, 0)
        if self.coding:
            cds_s, cds_e, c0, c1 = cds_in_exons(S, starts, ends)
            zero = S.enum_const(FRAME, "ZERO")
            kw.update(cds_starts=cds_s, cds_ends=cds_e, cds_frames=[zero] * self.n)
            thick = m(c0, c1)
        tx = S.new(TRANSCRIPT, starts, ends, strand, **kw)
        return NS(tx=tx, strand=strand, expected=expected, thick=thick, span=(starts[0], ends[-1]), flip=minus)

    def samples(self, rng):
        d = sample_blocks(rng, "tx", self.n, lo=2)
        d["strand"] = rng.choice(["PLUS", "MINUS"])
        if self.coding:
            sample_cds(rng, d)
        if self.chunk:
            cs = rng.randint(0, d["tx_starts"][0])
            ce = d["tx_ends"][-1] + rng.randint(0, 3)
            d.update(chunk_start=cs, chunk_end=ce, chunk_seq="".join(rng.choice("ACGT") for _ in range(ce - cs)))
            if self.chunk == "stranded":
                d["chunk_strand"] = rng.choice(["PLUS", "MINUS"])
        return d

    observe = FeatureBed.observe


class BedText(Case):
    """BED12.__str__: twelve tab-separated fields in the documented order; sizes and starts comma-joined.  Decoding
    the text (split on tab / comma, int()) therefore returns the record's fields (int(str(n)) = n is the trusted
    builtin contract; the name must not contain a tab)."""
    props = ("C14",)
    func = "io.bed.bed.BED12.__str__"
    module = "io.bed.bed"

    def __init__(self, n):
        self.n = n
        self.name = f"BED12.__str__[{n} blocks]"
        self.call = ("str(BED12('chr1', start, end, 'nm', score, strand, ts, te, RGB(r, g, b), %d, sizes, starts))" % n)
        sym = {"PLUS": "+", "MINUS": "-", "UNSTRANDED": "."}
        self.ensures = {
            "twelve-tab-separated-fields-in-order": lambda i, r: text_equals(r, _bed_expected(i, sym)),
        }

    def inputs(self, S):
        old = getattr(S, "scope", None)
        if S.mode == "sym":
            S.scope = self.n
        sizes, starts = list(S.intlist("sizes")), list(S.intlist("starts"))
        if S.mode == "sym":
            S.scope = old
        S.assume(len(sizes) == self.n and len(starts) == self.n)
        strand = strand_of(S, "strand", directed=False)
        return NS(start=S.int("start"), end=S.int("end"), score=S.int("score"), strand=strand, ts=S.int("ts"),
                  te=S.int("te"), r=S.int("r"), g=S.int("g"), b=S.int("b"), sizes=sizes, starts=starts)

    def samples(self, rng):
        return dict(start=rng.randint(0, 99), end=rng.randint(0, 999), score=rng.randint(0, 1000),
                    strand=rng.choice(["PLUS", "MINUS", "UNSTRANDED"]), ts=rng.randint(0, 50), te=rng.randint(0, 60),
                    r=rng.randint(0, 255), g=rng.randint(0, 255), b=rng.randint(0, 255),
                    sizes=[rng.randint(1, 30) for _ in range(self.n)], starts=[rng.randint(0, 90) for _ in range(self.n)])

    def observe(self, r):
        return r if isinstance(r, str) else "".join(p if isinstance(p, str) else str(_val(p[1])) for p in text_parts(r))


def _val(x):
    from pyvc.check import default_observe
    return default_observe(x)


def _bed_expected(i, sym):
    name = i.strand.members[i.strand.idx][0] if hasattr(i.strand, "members") else i.strand.name
    out = ["chr1", "\t", i.start, "\t", i.end, "\tnm\t", i.score, "\t" + sym[name] + "\t", i.ts, "\t", i.te, "\t",
           i.r, ",", i.g, ",", i.b, "\t", len(i.sizes), "\t"]
    for k, z in enumerate(i.sizes):
        if k:
            out.append(",")
        out.append(z)
    out.append("\t")
    for k, z in enumerate(i.starts):
        if k:
            out.append(",")
        out.append(z)
    return out


class TranscriptBedCutChunk(Case):
    """chromosome-coordinate BED12 of a coding transcript built on a sequence chunk that cuts it anywhere (possibly
    holding none of its CDS bases): the record is the one of the whole-chromosome transcript - all exons, thick range =
    CDS bounds (a chunk-relative view changes no chromosome-level answer)."""
    props = ("C14", "C07")
    func = TRANSCRIPT + ".to_bed12"

    def __init__(self, n):
        self.n = n
        self.shard_depth = 3
        self.name = f"TranscriptInterval.to_bed12[{n} exons, coding, chromosome coordinates, chunk cutting the transcript]"
        self.call = "tx.to_bed12(chromosome_relative_coordinates=True)"
        self.ensures = {
            "format-invariants": lambda i, r: bed_invariants(r),
            "decodes-to-all-exons": lambda i, r: And(
                len(decoded_blocks(r)) == len(i.expected),
                *[And(a[0] == b[0], a[1] == b[1]) for a, b in zip(decoded_blocks(r), i.expected)]),
            "thick-is-cds-bounds": lambda i, r: And(r.thick_start == i.thick[0], r.thick_end == i.thick[1]),
            "strand-name-chrom": lambda i, r: And(_same_enum(r.strand, i.strand), r.name == "tx1", r.chrom == "chr1"),
        }

    def inputs(self, S):
        starts, ends = block_lists(S, "tx", self.n)
        strand = strand_of(S, "strand")
        cp, cs, ce = chunk_parent(S)
        S.assume(Or(*[Max(starts[k], cs) < Min(ends[k], ce) for k in range(self.n)]))  # some exon base on the chunk
        cds_s, cds_e, c0, c1 = cds_in_exons(S, starts, ends)
        zero = S.enum_const(FRAME, "ZERO")
        tx = S.new(TRANSCRIPT, starts, ends, strand, sequence_name="chr1", transcript_symbol="tx1",
                   parent_or_seq_chunk_parent=cp, cds_starts=cds_s, cds_ends=cds_e, cds_frames=[zero] * self.n)
        return NS(tx=tx, strand=strand, expected=list(zip(starts, ends)), thick=(c0, c1))

    def samples(self, rng):
        d = sample_blocks(rng, "tx", self.n, lo=2, length=(2, 3, 5))
        d["strand"] = rng.choice(["PLUS", "MINUS"])
        sample_cds(rng, d)
        cs = rng.randint(0, d["tx_ends"][-1] - 1)
        ce = rng.randint(cs + 1, d["tx_ends"][-1] + 3)
        d.update(chunk_start=cs, chunk_end=ce, chunk_seq="".join(rng.choice("ACGT") for _ in range(ce - cs)))
        return d

    observe = FeatureBed.observe


CASES = [BedText(1), BedText(3), TranscriptBedCutChunk(1), TranscriptBedCutChunk(2)]
CASES += [FeatureBed(n, c) for n in (1, 2, 3) for c in (False, True)]
CASES += [FeatureBed(2, False, overlap=True), FeatureBed(3, False, overlap=True)]
CASES += [TranscriptBed(n, c, k) for n in (1, 2, 3) for c in (False, True) for k in (False, True)]
CASES += [TranscriptBed(1, "stranded", True), TranscriptBed(2, "stranded", True), TranscriptBed(2, "stranded", False)]


class FromLocationBed(Case):
    """An interval obtained through the alternative constructor from_location(<location>) (2-3 blocks, either strand)
    is the interval of those blocks: exon lists ascending as given, start / end, and its BED12 record satisfies the
    format invariants and decodes to the blocks."""
    props = ("C14", "C06", "C19")

    def __init__(self, kind, n):
        self.kind, self.n = kind, n
        cls = {"transcript": TRANSCRIPT, "feature": FEATURE}[kind]
        self.cls = cls
        self.func = cls + ".from_location"
        cname = cls.split(".")[-1]
        self.name = f"{cname}.from_location[{n} blocks, either strand]: exon lists, bounds and BED12"
        self.call = (f"(lambda t: (t._genomic_starts, t._genomic_ends, t.start, t.end, t.to_bed12(), t.strand))"
                     f"({cname}.from_location(loc))")
        self.ensures = {
            "exon-lists-ascending-as-given": lambda i, r: And(
                len(r[0]) == n, *[And(r[0][k] == i.starts[k], r[1][k] == i.ends[k]) for k in range(n)]),
            "bounds": lambda i, r: And(r[2] == i.starts[0], r[3] == i.ends[-1]),
            "bed12-format-invariants": lambda i, r: bed_invariants(r[4]),
            "bed12-decodes-to-the-blocks": lambda i, r: And(
                len(decoded_blocks(r[4])) == n,
                *[And(a[0] == s, a[1] == e) for a, s, e in zip(decoded_blocks(r[4]), i.starts, i.ends)]),
            "strand": lambda i, r: And(_same_enum(r[5], i.strand), _same_enum(r[4].strand, i.strand)),
        }

    def inputs(self, S):
        starts, ends = block_lists(S, "x", self.n, allow_adjacent=False)
        strand = strand_of(S, "strand")
        loc = S.new(COMPOUND, starts, ends, strand)
        return NS(loc=loc, starts=starts, ends=ends, strand=strand, TranscriptInterval=S.cls(TRANSCRIPT),
                  FeatureInterval=S.cls(FEATURE))

    def samples(self, rng):
        d = sample_blocks(rng, "x", self.n, lo=1, gap=(1, 3))
        d["strand"] = rng.choice(["PLUS", "MINUS"])
        return d

    def observe(self, r):
        from pyvc.check import default_observe as o
        return [list(map(o, r[0])), list(map(o, r[1])), o(r[2]), o(r[3])]


CASES += [FromLocationBed(k, n) for k in ("transcript", "feature") for n in (2, 3)]


def _thorough(c):
    c.tier = "thorough"
    return c


# four blocks (quick) and five blocks (thorough), all coordinates, both modes
CASES += [FeatureBed(4, c) for c in (False, True)] + [TranscriptBed(4, c, True) for c in (False, True)]
CASES += [_thorough(FeatureBed(5, c)) for c in (False, True)] + [_thorough(TranscriptBed(5, c, True)) for c in (False, True)]
