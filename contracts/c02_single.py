"""C02 (with C19 refusal clauses) — SingleInterval set algebra against position-set semantics.  DESIGN Appendix A.4.
A free symbolic position ``p`` makes every position-set clause a statement about ALL parent positions."""
from pyvc.spec import *  # noqa
from pyvc.sources import NS
from .common import *  # noqa
from .lib import LIB  # noqa

DIST = "DistanceType"


def blocks_of(r):
    """[(start, end)] of a result location with a concrete number of blocks; [] for EmptyLocation."""
    cn = class_name(r)
    if cn == "_EmptyLocation":
        return []
    if cn == "SingleInterval":
        return [(r.start, r.end)]
    st, en = r._starts, r._ends
    return [(st[k], en[k]) for k in range(len(st))]


def covers_pos(r, p):
    bl = blocks_of(r)
    return Or(*[And(s <= p, p < e) for s, e in bl]) if bl else False


def wf_result(r, seqlen=None, optimized=True):
    """Structural well-formedness of a returned location (statement, second sentence)."""
    cn = class_name(r)
    if cn == "_EmptyLocation":
        return True
    bl = blocks_of(r)
    parts = [And(0 <= s, s <= e) for s, e in bl]
    parts.append(r.length == sum((e - s for s, e in bl), 0))
    mx = bl[0][1]
    for _s, _e in bl[1:]:
        mx = Max(mx, _e)
    parts.append(And(r.start == bl[0][0], r.end == mx))  # end = the largest block end
    for (s1, e1), (s2, e2) in zip(bl, bl[1:]):
        parts.append(s1 <= s2)
    if optimized:
        parts += [s < e for s, e in bl]  # no empty block
        for (s1, e1), (s2, e2) in zip(bl, bl[1:]):
            parts.append(e1 != s2)  # no mergeable-adjacent blocks
        if cn == "CompoundInterval":
            parts.append(len(bl) >= 2)
    if seqlen is not None:
        parts.append(bl[-1][1] <= seqlen)
    return And(*parts)


class _Pair(Case):
    """self: SingleInterval, other: SingleInterval; parent configuration: none | same | different."""
    props = ("C02", "C19")
    parents = "none"

    def pair(self, S, **extra):
        if self.parents == "none":
            a = single(S, "self")
            b = single(S, "other")
            L = None
        elif self.parents == "same":
            par, L = parent_with_sequence(S)
            a = single(S, "self", par, L)
            b = single(S, "other", par, L)
        else:  # different parent ids, no sequences
            a = single(S, "self", "chr1")
            b = single(S, "other", "chr2")
            L = None
        return NS(self=a, other=b, s=a.start, e=a.end, strand=a.strand, os=b.start, oe=b.end, ostrand=b.strand,
                  L=L, **extra)

    def sample_pair(self, rng):
        s, os_ = rng.randint(0, 10), rng.randint(0, 10)
        d = dict(self_start=s, self_end=s + rng.randint(0, 6), self_strand=rng.choice(["PLUS", "MINUS", "UNSTRANDED"]),
                 other_start=os_, other_end=os_ + rng.randint(0, 6),
                 other_strand=rng.choice(["PLUS", "MINUS", "UNSTRANDED"]))
        if self.parents == "same":
            d["seq"] = "A" * (max(d["self_end"], d["other_end"]) + rng.randint(0, 2))
        return d


def set_overlap(i):
    """the two intervals share a parent position (both non-empty is implied)."""
    return Max(i.s, i.os) < Min(i.e, i.oe)


def same_strand(i):
    return enum_eq(i.strand, i.ostrand) if hasattr(i.strand, "idx") else i.strand is i.ostrand


class HasOverlap(_Pair):
    func = SINGLE + ".has_overlap"
    no_summaries = (SINGLE + "._has_overlap_single_interval",)  # these cases verify the real body

    def __init__(self, parents, strict):
        self.parents, self.strict = parents, strict
        self.name = f"SingleInterval.has_overlap(SingleInterval)[parents={parents},strict={strict}]"
        self.call = f"self.has_overlap(other, match_strand=ms, full_span=fs, strict_parent_compare={strict})"
        comparable = parents != "different"
        self.raises = {"MismatchedParentException": lambda i: True} if (strict and not comparable) else {}
        self.allow_uncovered = ("return",) if (strict and not comparable) else ()
        self.ensures = {
            "position-set-overlap": lambda i, r: Iff(r, And(comparable, set_overlap(i),
                                                             Implies(i.ms, same_strand(i)))),
        }

    def inputs(self, S):
        return self.pair(S, ms=S.bool("ms"), fs=S.bool("fs"))

    def samples(self, rng):
        d = self.sample_pair(rng)
        d.update(ms=rng.random() < 0.5, fs=rng.random() < 0.5)
        return d


class OverlapCore(_Pair):
    """SingleInterval._has_overlap_single_interval: the contract that contracts/lib.py:has_overlap_single_summary hands
    to callers (heavy gene-layer cases opt in to it instead of re-exploring the comparison cascade)."""
    func = SINGLE + "._has_overlap_single_interval"
    no_summaries = (SINGLE + "._has_overlap_single_interval",)  # this case verifies the real body
    parents = "none"
    name = "SingleInterval._has_overlap_single_interval = [max(starts) < min(ends)] (callee contract)"
    call = "self._has_overlap_single_interval(other)"
    ensures = {
        "a-bool": lambda i, r: isinstance(r, bool) or (hasattr(r, "sort") and str(r.sort()) == "Bool"),
        "iff-a-common-position": lambda i, r: Iff(r, set_overlap(i)),
    }

    def inputs(self, S):
        return self.pair(S)

    def samples(self, rng):
        return self.sample_pair(rng)


class Intersection(_Pair):
    func = SINGLE + ".intersection"

    def __init__(self, parents):
        self.parents = parents
        self.name = f"SingleInterval.intersection(SingleInterval)[parents={parents}]"
        self.call = "self.intersection(other, match_strand=ms, full_span=fs)"
        comparable = parents != "different"
        nonempty = lambda i: And(comparable, set_overlap(i), Implies(i.ms, same_strand(i)))  # noqa
        self.ensures = {
            "position-set": lambda i, r: Iff(covers_pos(r, i.p), And(nonempty(i), i.s <= i.p, i.p < i.e,
                                                                     i.os <= i.p, i.p < i.oe)),
            "empty-iff-no-common-position": lambda i, r: Iff(class_name(r) == "_EmptyLocation", Not(nonempty(i))),
            "strand-of-self": lambda i, r: class_name(r) == "_EmptyLocation" or enum_eq2(r.strand, i.strand),
            "well-formed": lambda i, r: wf_result(r, i.L),
            "single-block": lambda i, r: class_name(r) in ("_EmptyLocation", "SingleInterval"),
            "parent-kept": lambda i, r: class_name(r) == "_EmptyLocation" or same_parent_stripped(r.parent,
                                                                                                 i.self.parent),
        }

    def inputs(self, S):
        return self.pair(S, ms=S.bool("ms"), fs=S.bool("fs"), p=S.int("p"))

    def samples(self, rng):
        d = self.sample_pair(rng)
        d.update(ms=rng.random() < 0.5, fs=rng.random() < 0.5, p=rng.randint(0, 16))
        return d

    def observe(self, r):
        return obs_loc(r)


def enum_eq2(a, b):
    return enum_eq(a, b) if hasattr(a, "idx") else a is b


def obs_loc(r):
    cn = class_name(r)
    if cn == "_EmptyLocation":
        return ["_EmptyLocation"]
    return [cn, [[_o(s), _o(e)] for s, e in blocks_of(r)], _ename(r.strand), r.parent is None]


def _o(x):
    from pyvc.check import default_observe
    return default_observe(x)


def _ename(e):
    return e.members[e.idx][0] if hasattr(e, "members") else e.name


class Union(_Pair):
    func = SINGLE + ".union"

    def __init__(self, parents):
        self.parents = parents
        self.name = f"SingleInterval.union(SingleInterval)[parents={parents}]"
        self.call = "self.union(other)"
        self.raises = {"ValueError": lambda i: Not(same_strand(i))}
        if parents == "different":
            self.raises["MismatchedParentException"] = lambda i: same_strand(i)
            self.allow_uncovered = ("return",)
        self.ensures = {
            "position-set": lambda i, r: Iff(covers_pos(r, i.p), Or(And(i.s <= i.p, i.p < i.e),
                                                                    And(i.os <= i.p, i.p < i.oe))),
            "strand": lambda i, r: enum_eq2(r.strand, i.strand),
            "well-formed": lambda i, r: wf_result(r, i.L, optimized=False),
            "merged-when-overlapping": lambda i, r: Implies(set_overlap(i), class_name(r) == "SingleInterval"),
            "parent-kept": lambda i, r: same_parent_stripped(r.parent, i.self.parent),
        }

    def inputs(self, S):
        return self.pair(S, p=S.int("p"))

    def samples(self, rng):
        d = self.sample_pair(rng)
        d["p"] = rng.randint(0, 16)
        return d

    def observe(self, r):
        return obs_loc(r)


class Minus(_Pair):
    func = SINGLE + ".minus"

    def __init__(self, parents):
        self.parents = parents
        self.name = f"SingleInterval.minus(SingleInterval)[parents={parents}]"
        self.call = "self.minus(other, match_strand=ms)"
        comparable = parents != "different"
        active = lambda i: And(comparable, set_overlap(i), Implies(i.ms, same_strand(i)))  # noqa: other is subtracted
        self.ensures = {
            "position-set-difference": lambda i, r: Iff(
                covers_pos(r, i.p), And(i.s <= i.p, i.p < i.e, Not(And(active(i), i.os <= i.p, i.p < i.oe)))),
            "well-formed-normalised": lambda i, r: Implies(active(i), wf_result(r, i.L)),
            "untouched-when-disjoint": lambda i, r: Implies(Not(active(i)), r is i.self),
            "strand-of-self": lambda i, r: class_name(r) == "_EmptyLocation" or enum_eq2(r.strand, i.strand),
        }

    def inputs(self, S):
        return self.pair(S, ms=S.bool("ms"), p=S.int("p"))

    def samples(self, rng):
        d = self.sample_pair(rng)
        d.update(ms=rng.random() < 0.5, p=rng.randint(0, 16))
        return d

    def observe(self, r):
        return obs_loc(r)


class Contains(_Pair):
    func = "location.location.Location.contains"

    def __init__(self, parents):
        self.parents = parents
        self.name = f"SingleInterval.contains(SingleInterval)[parents={parents}]"
        self.call = "self.contains(other, match_strand=ms, full_span=fs)"
        comparable = parents != "different"
        # set inclusion of a non-empty other (an empty interval overlaps nothing: has_overlap is the documented gate)
        self.ensures = {
            "set-inclusion": lambda i, r: Iff(r, And(comparable, i.os < i.oe, i.s <= i.os, i.oe <= i.e,
                                                     Implies(i.ms, same_strand(i)))),
        }

    def inputs(self, S):
        return self.pair(S, ms=S.bool("ms"), fs=S.bool("fs"))

    def samples(self, rng):
        d = self.sample_pair(rng)
        d.update(ms=rng.random() < 0.5, fs=rng.random() < 0.5)
        return d


class Distance(_Pair):
    func = SINGLE + ".distance_to"

    def __init__(self, parents):
        self.parents = parents
        self.name = f"SingleInterval.distance_to(SingleInterval)[parents={parents}]"
        self.call = "self.distance_to(other, dt)"
        self.raises = {"MismatchedParentException": lambda i: True} if parents == "different" else {}
        self.allow_uncovered = ("return",) if parents == "different" else ()
        self.ensures = {
            "documented-function-of-end-points": lambda i, r: r == _dist_spec(i),
            "non-negative": lambda i, r: r >= 0,
        }

    def inputs(self, S):
        return self.pair(S, dt=S.enum("DistanceType", "dt"))

    def samples(self, rng):
        d = self.sample_pair(rng)
        d["dt"] = rng.choice(["INNER", "OUTER", "STARTS", "ENDS"])
        return d


def _dist_spec(i):
    inner = If(set_overlap(i), 0, Min(Abs(i.s - i.oe), Abs(i.e - i.os)))
    outer = Max(Abs(i.s - i.oe), Abs(i.e - i.os))
    return If(enum_name_is(i.dt, "STARTS"), Abs(i.s - i.os),
              If(enum_name_is(i.dt, "ENDS"), Abs(i.e - i.oe),
                 If(enum_name_is(i.dt, "INNER"), inner, outer)))


# ---- unary operations ------------------------------------------------------------------------------------------
class _Unary(Case):
    props = ("C02", "C19")
    parented = False

    def one(self, S, **extra):
        if self.parented:
            par, L = parent_with_sequence(S)
        else:
            par, L = None, None
        a = single(S, "self", par, L)
        return NS(self=a, s=a.start, e=a.end, strand=a.strand, L=L, **extra)

    def sample_one(self, rng):
        s = rng.randint(0, 10)
        d = dict(self_start=s, self_end=s + rng.randint(0, 6), self_strand=rng.choice(["PLUS", "MINUS", "UNSTRANDED"]))
        if self.parented:
            d["seq"] = "A" * (d["self_end"] + rng.randint(0, 3))
        return d


class ExtendAbsolute(_Unary):
    func = SINGLE + ".extend_absolute"
    call = "self.extend_absolute(x, y)"

    def __init__(self, parented):
        self.parented = parented
        self.name = f"SingleInterval.extend_absolute[{'parent+seq' if parented else 'no parent'}]"
        self.raises = {
            "ValueError": lambda i: Or(i.x < 0, i.y < 0),
            "InvalidPositionException": lambda i: And(i.x >= 0, i.y >= 0,
                                                      Or(i.s - i.x < 0, (i.e + i.y > i.L) if parented else False)),
        }
        self.ensures = {
            "coordinates": lambda i, r: And(r.start == i.s - i.x, r.end == i.e + i.y, enum_eq2(r.strand, i.strand)),
            "well-formed": lambda i, r: wf_result(r, i.L, optimized=False),
        }

    def inputs(self, S):
        return self.one(S, x=S.int("x"), y=S.int("y"))

    def samples(self, rng):
        d = self.sample_one(rng)
        d.update(x=rng.randint(-1, 12), y=rng.randint(-1, 5))
        return d

    def observe(self, r):
        return obs_loc(r)


class ExtendRelative(_Unary):
    func = SINGLE + ".extend_relative"
    call = "self.extend_relative(u, d)"

    def __init__(self, parented):
        self.parented = parented
        self.name = f"SingleInterval.extend_relative[{'parent+seq' if parented else 'no parent'}]"
        lo = lambda i: If(is_plus(i.strand), i.u, i.d)  # noqa: extension at the start coordinate
        hi = lambda i: If(is_plus(i.strand), i.d, i.u)  # noqa
        self.raises = {
            "InvalidStrandException": lambda i: is_unstranded(i.strand),
            "ValueError": lambda i: And(Not(is_unstranded(i.strand)), Or(i.u < 0, i.d < 0)),
            "InvalidPositionException": lambda i: And(Not(is_unstranded(i.strand)), i.u >= 0, i.d >= 0,
                                                      Or(i.s - lo(i) < 0, (i.e + hi(i) > i.L) if parented else False)),
        }
        self.ensures = {
            "upstream-is-5-prime": lambda i, r: And(r.start == i.s - lo(i), r.end == i.e + hi(i),
                                                    enum_eq2(r.strand, i.strand)),
        }

    def inputs(self, S):
        return self.one(S, u=S.int("u"), d=S.int("d"))

    def samples(self, rng):
        d = self.sample_one(rng)
        d.update(u=rng.randint(-1, 12), d=rng.randint(-1, 5))
        return d

    def observe(self, r):
        return obs_loc(r)


class ShiftPosition(_Unary):
    func = SINGLE + ".shift_position"
    call = "self.shift_position(k)"

    def __init__(self, parented):
        self.parented = parented
        self.name = f"SingleInterval.shift_position[{'parent+seq' if parented else 'no parent'}]"
        self.raises = {"InvalidPositionException": lambda i: Or(i.s + i.k < 0, (i.e + i.k > i.L) if parented else False)}
        self.ensures = {"coordinates": lambda i, r: And(r.start == i.s + i.k, r.end == i.e + i.k,
                                                        enum_eq2(r.strand, i.strand))}

    def inputs(self, S):
        return self.one(S, k=S.int("k"))

    def samples(self, rng):
        d = self.sample_one(rng)
        d["k"] = rng.randint(-12, 6)
        return d

    def observe(self, r):
        return obs_loc(r)


class Misc(_Unary):
    """reverse / reverse_strand / reset_strand / optimize_blocks / gap_list / gaps_location / merge_overlapping."""
    name = "SingleInterval.reverse, reset_strand, optimize_blocks, gaps"
    func = SINGLE + ".optimize_blocks"
    call = ("(self.reverse(), self.reverse_strand(), self.reset_strand(t), self.optimize_blocks(), self.gap_list(), "
            "self.gaps_location(), self.merge_overlapping(), len(self), self.is_empty, self.num_blocks)")
    ensures = {
        "reverse-keeps-span-flips-strand": lambda i, r: And(r[0].start == i.s, r[0].end == i.e,
                                                            enum_value(r[0].strand) == -enum_value(i.strand),
                                                            r[1].start == i.s, r[1].end == i.e,
                                                            enum_value(r[1].strand) == -enum_value(i.strand)),
        "reset_strand": lambda i, r: And(r[2].start == i.s, r[2].end == i.e, enum_eq2(r[2].strand, i.t)),
        "optimize-empty-iff-zero-length": lambda i, r: If(i.s == i.e, class_name(r[3]) == "_EmptyLocation",
                                                          r[3] is i.self),
        "no-gaps": lambda i, r: And(len(r[4]) == 0, class_name(r[5]) == "_EmptyLocation", r[6] is i.self),
        "length": lambda i, r: And(r[7] == i.e - i.s, r[9] == 1),
    }

    def inputs(self, S):
        return self.one(S, t=S.enum(STRAND, "t"))

    def samples(self, rng):
        d = self.sample_one(rng)
        d["t"] = rng.choice(["PLUS", "MINUS", "UNSTRANDED"])
        return d

    def observe(self, r):
        return [obs_loc(r[0]), obs_loc(r[1]), obs_loc(r[2]), obs_loc(r[3]), len(r[4]), obs_loc(r[5]), obs_loc(r[6]),
                _o(r[7]), _o(r[9])]


class SingleInit(Case):
    """Constructor: refuses exactly the ill-formed coordinates, otherwise establishes the class invariant."""
    props = ("C02", "C19")
    func = SINGLE + ".__init__"
    call = "SingleInterval(start, end, strand, parent)"

    def __init__(self, parented):
        self.parented = parented
        self.name = f"SingleInterval.__init__[{'parent+seq' if parented else 'no parent'}]"
        self.raises = {"InvalidPositionException": lambda i: Or(Not(And(0 <= i.start, i.start <= i.end)),
                                                                (i.end > i.L) if parented else False)}
        self.ensures = {
            "invariant": lambda i, r: And(r.start == i.start, r.end == i.end, r.length == i.end - i.start,
                                          enum_eq2(r.strand, i.strand), 0 <= r.start, r.start <= r.end),
            "inside-parent-sequence": lambda i, r: (r.end <= i.L) if parented else True,
            "parent-location-is-self": lambda i, r: (r.parent is None) if not parented else And(
                r.parent.location.start == i.start, r.parent.location.end == i.end,
                r.parent.location.parent is None),
        }

    def inputs(self, S):
        par, L = parent_with_sequence(S) if self.parented else (None, None)
        return NS(start=S.int("start"), end=S.int("end"), strand=S.enum(STRAND, "strand"), parent=par, L=L,
                  SingleInterval=S.cls(SINGLE))

    def samples(self, rng):
        d = dict(start=rng.randint(-2, 8), end=rng.randint(-2, 12), strand=rng.choice(["PLUS", "MINUS", "UNSTRANDED"]))
        if self.parented:
            d["seq"] = "A" * rng.randint(0, 10)
        return d

    def observe(self, r):
        return obs_loc(r)


CASES = []
for _p in ("none", "same", "different"):
    CASES += [HasOverlap(_p, False), HasOverlap(_p, True), Intersection(_p), Union(_p), Minus(_p), Contains(_p),
              Distance(_p)]
for _q in (False, True):
    CASES += [ExtendAbsolute(_q), ExtendRelative(_q), ShiftPosition(_q), SingleInit(_q)]
CASES.append(Misc())
_oc = OverlapCore()
# every property whose cases run through the callee contract re-proves it on the current tree
_oc.props = tuple(f"C{k:02d}" for k in range(1, 21))
CASES.append(_oc)

CANARIES = [
    dict(name="single overlap: <= on touching intervals", props=("C02",), file="inscripta/biocantor/location/location_impl.py",
         old="if other.start <= self.start < other.end:", new="if other.start <= self.start <= other.end:",
         case="SingleInterval.has_overlap(SingleInterval)[parents=none,strict=False]", expect="post:position-set-overlap"),
    dict(name="single minus: keeps the removed end", props=("C02",), file="inscripta/biocantor/location/location_impl.py",
         old="                curr_result_block_end = block.start\n                break",
         new="                curr_result_block_end = block.start + 1\n                break",
         case="SingleInterval.minus(SingleInterval)[parents=none]", expect="post:position-set-difference"),
]
