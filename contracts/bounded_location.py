"""BOUNDED stand-ins (labelled bounded, never counted as proved) for location functions that are not under an
unbounded contract: the sidecar contract clauses are evaluated natively on the real objects over an exhaustively
enumerated small scope (every location with <= k blocks over a genome of length <= L, both strands, all arguments)."""
import itertools

from pyvc.spec import *  # noqa
from pyvc.sources import NS

SINGLE = "location.location_impl.SingleInterval"
COMPOUND = "location.location_impl.CompoundInterval"
STRAND = "location.strand.Strand"


def layouts(L, kmax, overlapping=False, empties=True):
    """all block lists (sorted by start,end) with 1..kmax blocks inside [0, L]."""
    blocks = [(s, e) for s in range(L + 1) for e in range(s, L + 1) if empties or e > s]
    out = []
    for k in range(1, kmax + 1):
        for combo in itertools.combinations(blocks, k):
            if not overlapping and any(combo[a][1] > combo[a + 1][0] for a in range(k - 1)):
                continue
            out.append(list(combo))
    return out


def mk(S, blocks, strand):
    st = S.cls(STRAND)[strand]
    if len(blocks) == 1:
        return S.new(SINGLE, blocks[0][0], blocks[0][1], st)
    return S.new(COMPOUND, [b[0] for b in blocks], [b[1] for b in blocks], st)


def posset(loc):
    """set of covered parent positions of a real location."""
    if type(loc).__name__ == "_EmptyLocation":
        return set()
    return {p for b in loc.blocks for p in range(b.start, b.end)}


def poslist(loc):
    """covered parent positions in 5'->3' order, block by block (with multiplicity)."""
    if type(loc).__name__ == "_EmptyLocation":
        return []
    bl = list(loc.blocks)
    out = []
    if loc.strand.name == "MINUS":
        for b in reversed(bl):
            out += list(range(b.end - 1, b.start - 1, -1))
    else:
        for b in bl:
            out += list(range(b.start, b.end))
    return out


def wf(loc, optimized=False, preserve=True):
    if type(loc).__name__ == "_EmptyLocation":
        return True
    bl = [(b.start, b.end) for b in loc.blocks]
    ok = all(0 <= s <= e for s, e in bl) and len(loc) == sum(e - s for s, e in bl)
    ok = ok and loc.start == bl[0][0] and bl == sorted(bl, key=lambda x: x[0])
    if optimized:
        ok = ok and all(e > s for s, e in bl)
        ok = ok and all(bl[a][1] != bl[a + 1][0] for a in range(len(bl) - 1))
        ok = ok and (type(loc).__name__ == "SingleInterval") == (len(bl) == 1)
    return ok


class SetAlgebra(Case):
    """intersection / union / minus / has_overlap / contains on all ordered pairs (operands' own blocks do not
    overlap each other, as the statement restricts difference and containment)."""
    props = ("C02",)
    proved = False
    name = "bounded: location set algebra on all ordered pairs"
    func = COMPOUND + ".intersection"
    scope = "quick: all ordered pairs of locations with <= 2 blocks over a genome of length 4 (3 blocks / length 5 " \
            "in the thorough tier), both strands, match_strand in {True, False}"
    call = ("(a.intersection(b, match_strand=ms), a.has_overlap(b, match_strand=ms), a.minus(b, match_strand=ms), "
            "a.contains(b, match_strand=ms), _try_union(a, b))")
    # known finding F-C02-3: an operand block of length 0 can come back as a zero-length SingleInterval
    known = {"minus-normalised": dict(id="F-C02-3", carve=lambda i: any(b.start == b.end for b in i.a.blocks))}
    ensures = {
        "intersection-is-set-intersection": lambda i, r: posset(r[0]) == (i.A & i.B if i.comp else set()),
        "intersection-normalised": lambda i, r: wf(r[0], optimized=True),
        "overlap-iff-common-position": lambda i, r: r[1] == bool(i.comp and (i.A & i.B)),
        "minus-is-set-difference": lambda i, r: posset(r[2]) == (i.A - i.B if i.comp else i.A),
        "minus-normalised": lambda i, r: wf(r[2], optimized=bool(i.comp and (i.A & i.B))),
        "contains-iff-subset": lambda i, r: r[3] == bool(i.comp and i.B and i.B <= i.A),
        "union-is-set-union": lambda i, r: (r[4] == "ValueError") == (not i.same_strand) and (
            r[4] == "ValueError" or posset(r[4]) == (i.A | i.B)),
        "union-well-formed": lambda i, r: r[4] == "ValueError" or wf(r[4]),
        "intersection-strand-of-self": lambda i, r: not posset(r[0]) or r[0].strand is i.a.strand,
    }

    def inputs(self, S):
        a = mk(S, S.const("a"), S.const("sa"))
        b = mk(S, S.const("b"), S.const("sb"))
        ms = S.const("ms")
        same = S.const("sa") == S.const("sb")

        def _try_union(x, y):
            try:
                return x.union(y)
            except ValueError:
                return "ValueError"

        return NS(a=a, b=b, ms=ms, A=posset(a), B=posset(b), comp=(same or not ms), same_strand=same,
                  _try_union=_try_union)

    def domain(self, tier):
        L, k = (4, 2) if tier == "quick" else (5, 3)
        lay = layouts(L, k)
        for la in lay:
            for lb in lay:
                for sa, sb in (("PLUS", "PLUS"), ("PLUS", "MINUS"), ("MINUS", "MINUS")):
                    for ms in (True, False):
                        yield dict(a=la, b=lb, sa=sa, sb=sb, ms=ms)


def span(A):
    return set(range(min(A), max(A) + 1)) if A else set()


class FullSpan(Case):
    """has_overlap / contains with full_span=True compare the full spans of both operands."""
    props = ("C02",)
    proved = False
    name = "bounded: has_overlap / contains with full_span=True"
    func = "location.location.Location.contains"
    scope = "all ordered pairs of locations with <= 2 non-overlapping, non-empty blocks over a genome of length 5 " \
            "(quick) / <= 3 blocks length 6 (thorough), both strands, match_strand in {True, False}"
    call = "(a.has_overlap(b, match_strand=ms, full_span=True), a.contains(b, match_strand=ms, full_span=True))"
    ensures = {
        "overlap-of-spans": lambda i, r: r[0] == bool(i.comp and (span(i.A) & span(i.B))),
        "containment-of-spans": lambda i, r: r[1] == bool(i.comp and i.B and span(i.B) <= span(i.A)),
    }

    def inputs(self, S):
        a = mk(S, S.const("a"), S.const("sa"))
        b = mk(S, S.const("b"), S.const("sb"))
        ms = S.const("ms")
        same = S.const("sa") == S.const("sb")
        return NS(a=a, b=b, ms=ms, A=posset(a), B=posset(b), comp=(same or not ms))

    def domain(self, tier):
        L, k = (5, 2) if tier == "quick" else (6, 3)
        lay = layouts(L, k, empties=False)
        for la in lay:
            for lb in lay:
                for sa, sb in (("PLUS", "PLUS"), ("PLUS", "MINUS")):
                    for ms in (True, False):
                        yield dict(a=la, b=lb, sa=sa, sb=sb, ms=ms)


class UnionAnyLayout(Case):
    """union / has_overlap / merge_overlapping where the operands' own blocks may overlap each other or be nested."""
    props = ("C02",)
    proved = False
    name = "bounded: union, overlap, merge_overlapping on self-overlapping operands"
    func = COMPOUND + ".union"
    scope = "all ordered pairs of locations with <= 2 blocks (nested / overlapping / adjacent / empty) over a genome " \
            "of length 4 (quick) / <= 3 blocks (thorough), same strand"
    call = "(a.union(b), a.has_overlap(b), a.merge_overlapping())"
    ensures = {
        "union-is-set-union": lambda i, r: posset(r[0]) == (i.A | i.B),
        "overlap-iff-common-position": lambda i, r: r[1] == bool(i.A & i.B),
        "merge-keeps-positions": lambda i, r: posset(r[2]) == i.A,
    }

    def inputs(self, S):
        a = mk(S, S.const("a"), S.const("s"))
        b = mk(S, S.const("b"), S.const("s"))
        return NS(a=a, b=b, A=posset(a), B=posset(b))

    def domain(self, tier):
        L, k = (4, 2) if tier == "quick" else (4, 3)
        lay = layouts(L, k, overlapping=True)
        for la in lay:
            for lb in lay:
                for s_ in ("PLUS", "MINUS"):
                    yield dict(a=la, b=lb, s=s_)


class IntervalForms(Case):
    """CompoundInterval.relative_interval_to_parent_location and location_relative_to against the point-wise maps."""
    props = ("C01",)
    proved = False
    name = "bounded: interval forms = point-wise forms (compound)"
    func = COMPOUND + ".relative_interval_to_parent_location"
    scope = "all locations with <= 3 non-overlapping blocks (empty and adjacent blocks included) over a genome of " \
            "length 5 (quick) / 7 (thorough), both strands, every (start, end, relative strand)"
    call = "loc.relative_interval_to_parent_location(x, y, t)"
    raises = {"InvalidPositionException": lambda i: not (0 <= i.x <= i.y <= len(i.P)) or (i.x == i.y == len(i.P)),
              "ValueError": lambda i: False}
    allow_uncovered = ("raise:ValueError",)
    ensures = {
        "same-bases-same-order": lambda i, r: poslist(r) == (i.P[i.x:i.y] if i.tv == 1 else i.P[i.x:i.y][::-1]),
        "strand-composition": lambda i, r: r.strand.value == i.loc.strand.value * i.tv,
        "well-formed": lambda i, r: wf(r, optimized=i.x < i.y),
    }

    def inputs(self, S):
        loc = mk(S, S.const("blocks"), S.const("strand"))
        t = S.cls(STRAND)[S.const("t")]
        return NS(loc=loc, x=S.const("x"), y=S.const("y"), t=t, tv=t.value, P=poslist(loc))

    def domain(self, tier):
        L, k = (5, 3) if tier == "quick" else (7, 3)
        for lay in layouts(L, k):
            if len(lay) < 2:
                continue
            n = sum(e - s for s, e in lay)
            for strand in ("PLUS", "MINUS"):
                for x in range(0, n + 1):
                    for y in range(x, n + 1):
                        for t in ("PLUS", "MINUS"):
                            yield dict(blocks=lay, strand=strand, x=x, y=y, t=t)

    def __init__(self):
        # InvalidPositionException for x == y == len is the code's behaviour written down (DESIGN A.5)
        pass


class LocationRelativeTo(Case):
    props = ("C01",)
    proved = False
    name = "bounded: location_relative_to = point-wise parent_to_relative_pos"
    func = "location.location.Location.location_relative_to"
    scope = "all ordered pairs (query, location) of locations with <= 2 blocks over a genome of length 5 (quick) / " \
            "<= 3 blocks length 6 (thorough), both strands"
    call = "q.location_relative_to(loc)"
    raises = {"LocationOverlapException": lambda i: not (posset(i.q) & posset(i.loc))}
    ensures = {
        "image-of-the-overlap": lambda i, r: posset(r) == {i.loc.parent_to_relative_pos(p)
                                                            for p in posset(i.q) & posset(i.loc)},
        "strand-composition": lambda i, r: r.strand.value == i.q.strand.value * i.loc.strand.value,
    }

    def inputs(self, S):
        return NS(q=mk(S, S.const("q"), S.const("sq")), loc=mk(S, S.const("l"), S.const("sl")))

    def domain(self, tier):
        L, k = (5, 2) if tier == "quick" else (6, 3)
        lay = layouts(L, k, empties=False)
        for q in lay:
            for l in lay:
                for sq in ("PLUS", "MINUS"):
                    for sl in ("PLUS", "MINUS"):
                        yield dict(q=q, l=l, sq=sq, sl=sl)


def _runs(A):
    """number of maximal runs of consecutive positions."""
    return sum(1 for p in A if p - 1 not in A)


class Gaps(Case):
    props = ("C02", "C06")
    proved = False
    name = "bounded: gap_list / gaps_location / optimize_and_combine_blocks"
    func = COMPOUND + ".gap_list"
    scope = "all locations with <= 3 blocks (overlapping, adjacent and empty blocks included) over a genome of length " \
            "5 (quick) / 6 (thorough), all three strands"
    call = "(loc.gap_list(), loc.gaps_location(), loc.optimize_and_combine_blocks())"
    # an undirected location has no 5'->3' block order: refused once two or more combined blocks would have to be
    # ordered (InvalidStrandException is the documented error for that)
    raises = {"InvalidStrandException": lambda i: i.strand == "UNSTRANDED" and _runs(i.A) >= 2}
    ensures = {
        "gaps-are-span-minus-blocks": lambda i, r: {p for g in r[0] for p in range(g.start, g.end)} == (
            set(range(min(i.A), max(i.A) + 1)) - i.A if i.A else set()),
        "gaps-location-same-set": lambda i, r: posset(r[1]) == {p for g in r[0] for p in range(g.start, g.end)},
        "combine-covers-same-positions": lambda i, r: posset(r[2]) == i.A,
        "combine-normalised": lambda i, r: wf(r[2], optimized=True) and all(
            r[2].blocks[a].end < r[2].blocks[a + 1].start for a in range(len(r[2].blocks) - 1)),
    }

    def inputs(self, S):
        loc = mk(S, S.const("blocks"), S.const("strand"))
        return NS(loc=loc, A=posset(loc), strand=S.const("strand"))

    def domain(self, tier):
        L = 5 if tier == "quick" else 6
        for lay in layouts(L, 3, overlapping=True):
            if len(lay) < 2:
                continue
            for strand in ("PLUS", "MINUS", "UNSTRANDED"):
                yield dict(blocks=lay, strand=strand)


CASES = [SetAlgebra(), FullSpan(), UnionAnyLayout(), IntervalForms(), LocationRelativeTo(), Gaps()]
