"""Expression evaluation for the symbolic executor."""
import ast

import z3

from .values import *  # noqa
from .repo import ClassInfo, FuncInfo, ModuleInfo
from .symex import Frame, _and, _or, _not, _as_int, _z3b


def make_text(parts):
    """Symbolic text: a sequence of literal strings and decimal renderings of symbolic ints (``str(int)`` is
    injective, so two texts with the same part sequence are equal strings)."""
    flat = []
    for p in parts:
        if isinstance(p, Opaque) and p.tag == "text":
            flat.extend(p.attrs["parts"])
        elif isinstance(p, Opaque) and p.tag == "str(int)":
            flat.append(("int", p.attrs["int"]))
        elif isinstance(p, str):
            if p:
                if flat and isinstance(flat[-1], str):
                    flat[-1] += p
                else:
                    flat.append(p)
        elif isinstance(p, Opaque) and p.tag in ("str", "UUID", "str(UUID)"):
            flat.append(("atom", p.attrs.get("$of", p)))  # an uninterpreted string, compared by identity
        else:
            return Opaque("str")
    merged = []
    for p in flat:
        if isinstance(p, str) and merged and isinstance(merged[-1], str):
            merged[-1] += p
        elif p != "":
            merged.append(p)
    return Opaque("text", attrs={"parts": merged})


def floor_div(a, b):
    if isinstance(a, int) and isinstance(b, int):
        if b == 0:
            raise PyExc("ZeroDivisionError")
        return a // b
    if isinstance(b, int):
        if b == 0:
            raise PyExc("ZeroDivisionError")
        if b > 0:
            return _z(a) / b  # z3 Int division: floor for positive divisors
        return (-_z(a)) / (-b)
    raise Unsupported("floor division by a symbolic divisor")


def py_mod(a, b):
    if isinstance(a, int) and isinstance(b, int):
        if b == 0:
            raise PyExc("ZeroDivisionError")
        return a % b
    if isinstance(b, int):
        if b == 0:
            raise PyExc("ZeroDivisionError")
        if b > 0:
            return _z(a) % b
        return -((-_z(a)) % (-b))
    raise Unsupported("modulo by a symbolic divisor")


def _z(a):
    return z3.IntVal(a) if isinstance(a, int) else a


def sym_min(a, b):
    if isinstance(a, int) and isinstance(b, int):
        return min(a, b)
    return z3.If(_z(a) <= _z(b), _z(a), _z(b))


def sym_max(a, b):
    if isinstance(a, int) and isinstance(b, int):
        return max(a, b)
    return z3.If(_z(a) >= _z(b), _z(a), _z(b))


def sym_abs(a):
    if isinstance(a, int):
        return abs(a)
    return z3.If(a >= 0, a, -a)


class EvalMixin:
    # ------------------------------------------------------------------ names
    def lookup_name(self, name, frame):
        ok, v = frame.lookup(name)
        if ok:
            return v
        r = self.repo.resolve_global(frame.module, name)
        if r is not None:
            return self.global_value(r, frame.module)
        if name in self.builtins:
            return self.builtins[name]
        raise PyExc("NameError", name)

    def global_value(self, r, module):
        if isinstance(r, FuncInfo):
            return FuncVal(r)
        if isinstance(r, ClassInfo):
            return ClassRef(r)
        if isinstance(r, tuple):
            if r[0] == "const":
                key = (r[1].short, id(r[2]))
                if key not in self._const_cache:
                    self._const_cache[key] = self.eval(r[2], Frame(None, r[1]))
                return self._const_cache[key]
            if r[0] == "module":
                return ModuleRef(r[1])
            if r[0] == "external":
                full = r[1] + ("." + r[2] if r[2] else "")
                if full in getattr(self, "external_consts", {}):
                    return self.external_consts[full]
                return ExternalRef(r[1], r[2])
        raise Unsupported(f"global {r}")

    # ------------------------------------------------------------------ expressions
    def eval(self, node, frame):
        m = getattr(self, "e_" + type(node).__name__, None)
        if m is None:
            raise Unsupported(f"expression {type(node).__name__} at line {getattr(node, 'lineno', '?')}")
        return m(node, frame)

    def e_Constant(self, node, frame):
        return node.value

    def e_Name(self, node, frame):
        return self.lookup_name(node.id, frame)

    def e_Tuple(self, node, frame):
        return tuple(self._eval_elts(node.elts, frame))

    def e_List(self, node, frame):
        return list(self._eval_elts(node.elts, frame))

    def _eval_elts(self, elts, frame):
        out = []
        for e in elts:
            if isinstance(e, ast.Starred):
                out.extend(self.iterate_concrete(self.eval(e.value, frame)))
            else:
                out.append(self.eval(e, frame))
        return out

    def e_Set(self, node, frame):
        return self.make_set(self._eval_elts(node.elts, frame))

    def e_Dict(self, node, frame):
        d = {}
        for k, v in zip(node.keys, node.values):
            if k is None:
                d.update(self.eval(v, frame))
            else:
                d[self.eval(k, frame)] = self.eval(v, frame)
        return d

    def e_JoinedStr(self, node, frame):
        parts = []
        for v in node.values:
            if isinstance(v, ast.Constant):
                parts.append(str(v.value))
            else:
                val = self.eval(v.value, frame)
                parts.append(self.to_str(val))
        if all(isinstance(p, str) for p in parts):
            return "".join(parts)
        return make_text(parts)

    def symstr_of(self, x):
        """SymStr view of a concrete string (array with the code points stored)."""
        if isinstance(x, SymStr):
            return x
        arr = z3.K(z3.IntSort(), z3.IntVal(0))
        for k, ch in enumerate(x):
            arr = z3.Store(arr, k, ord(ch))
        st = SymStr(arr, len(x))
        st.alphabet = "".join(sorted(set(x)))
        return st

    def symstr_concat(self, parts):
        parts = [self.symstr_of(p) for p in parts if not (isinstance(p, str) and p == "")]
        if not parts:
            return ""
        if len(parts) == 1:
            return parts[0]
        i = z3.Int("cc!i")
        offs = [0]
        for p in parts:
            offs.append(offs[-1] + _z(p.length))
        body = z3.Select(parts[-1].arr, i - offs[-2])
        for k in range(len(parts) - 2, -1, -1):
            body = z3.If(i < offs[k + 1], z3.Select(parts[k].arr, i - offs[k]), body)
        st = SymStr(z3.Lambda([i], body), z3.simplify(offs[-1]) if not isinstance(offs[-1], int) else offs[-1])
        alph = [getattr(p, "alphabet", None) for p in parts]
        st.alphabet = "".join(sorted(set("".join(alph)))) if all(a is not None for a in alph) else None
        return st

    def symstr_slice(self, v, lo, hi):
        n = v.length

        def norm(x, default):
            if x is None:
                return default
            x = _z(x)
            return z3.If(x < 0, sym_max(x + n, 0), sym_min(x, n))

        lo2 = norm(lo, z3.IntVal(0))
        hi2 = norm(hi, n)
        i = z3.Int("sl!i")
        arr = z3.Lambda([i], z3.Select(v.arr, i + lo2))
        st = SymStr(arr, self.clamp0(hi2 - lo2))
        st.alphabet = getattr(v, "alphabet", None)
        return st

    def to_str(self, v):
        v = self.resolve(v)
        if isinstance(v, SymStr):
            return v
        if isinstance(v, (str, int, float)) or v is None:
            return str(v)
        if isinstance(v, EnumVal):
            m = v.cls.find_method(self.repo, "__str__")
            if m is not None:
                return self.call_function(FuncVal(m, self_val=v), [], {})
            v = self.enum_concretize(v)
            return f"{v.cls.name}.{v.name}"
        if isinstance(v, Obj):
            m = v.cls.find_method(self.repo, "__str__")
            if m is not None:
                return self.call_function(FuncVal(m, self_val=v), [], {})
            return Opaque("str")
        if isinstance(v, Opaque) and v.tag in ("text", "str(int)", "str", "str(UUID)"):
            return v
        if isinstance(v, Opaque) and v.tag == "UUID":
            return Opaque("str(UUID)", attrs={"$of": v})
        if isinstance(v, Opaque) and "__str__" in v.methods:
            return v.methods["__str__"](self)
        if is_symint(v):
            return Opaque("str(int)", attrs={"int": v})
        if isinstance(v, (list, tuple)) and all(isinstance(x, (str, int, bool, float)) or x is None for x in v):
            return str(v)  # containers of plain python scalars render exactly as in CPython
        if isinstance(v, (list, tuple, set, dict)):
            return Opaque("str")
        return Opaque("str")

    def e_Lambda(self, node, frame):
        return LambdaVal(node, frame)

    def e_IfExp(self, node, frame):
        if self.to_bool(self.eval(node.test, frame)):
            return self.eval(node.body, frame)
        return self.eval(node.orelse, frame)

    def e_BoolOp(self, node, frame):
        is_and = isinstance(node.op, ast.And)
        v = None
        for i, e in enumerate(node.values):
            v = self.eval(e, frame)
            if i == len(node.values) - 1:
                return v
            t = self.to_bool(v)
            if is_and and not t:
                return v
            if not is_and and t:
                return v
        return v

    def e_UnaryOp(self, node, frame):
        v = self.resolve(self.eval(node.operand, frame))
        if isinstance(node.op, ast.Not):
            return _not(self.truth(v))
        if isinstance(node.op, ast.USub):
            if isinstance(v, EnumVal):
                v = self.enum_value(v)
            if v is None:
                raise PyExc("TypeError", "bad operand for unary -")
            return -_as_int(v)
        if isinstance(node.op, ast.UAdd):
            return v
        raise Unsupported("unary op")

    def e_Compare(self, node, frame):
        left = self.eval(node.left, frame)
        result = True
        for i, (op, rn) in enumerate(zip(node.ops, node.comparators)):
            right = self.eval(rn, frame)
            c = self.compare(op, left, right)
            if i == len(node.ops) - 1:
                if result is True:
                    return c
                return _and([result, c]) if False else c
            # chained: short-circuit
            if not self.branch(c if isinstance(c, bool) or is_symbool(c) else self.truth(c)):
                return False
            left = right
        return result

    def compare(self, op, a, b):
        if isinstance(op, ast.Eq):
            return self.sym_eq(a, b)
        if isinstance(op, ast.NotEq):
            a_r = self.resolve(a)
            if isinstance(a_r, Obj):
                m = a_r.cls.find_method(self.repo, "__ne__")
                if m is not None:
                    return self.truth(self.call_function(FuncVal(m, self_val=a_r), [b], {}))
            return _not(self.sym_eq(a, b))
        if isinstance(op, ast.Is):
            return self.sym_is(a, b)
        if isinstance(op, ast.IsNot):
            return _not(self.sym_is(a, b))
        if isinstance(op, ast.Lt):
            return self.sym_lt("<", a, b)
        if isinstance(op, ast.LtE):
            return self.sym_lt("<=", a, b)
        if isinstance(op, ast.Gt):
            return self.sym_lt(">", a, b)
        if isinstance(op, ast.GtE):
            return self.sym_lt(">=", a, b)
        if isinstance(op, ast.In):
            return self.contains(b, a)
        if isinstance(op, ast.NotIn):
            return _not(self.contains(b, a))
        raise Unsupported("compare op")

    def contains(self, container, item):
        container = self.resolve(container)
        item = self.resolve(item)
        if isinstance(container, (list, tuple, set, frozenset)):
            return _or([self.sym_eq(x, item) for x in container])
        if isinstance(container, dict):
            return _or([self.sym_eq(k, item) for k in container.keys()])
        if isinstance(container, str):
            if isinstance(item, str):
                return item in container
            raise Unsupported("symbolic substring test")
        if isinstance(container, range):
            if isinstance(item, int):
                return item in container
            if container.step == 1:
                return z3.And(item >= container.start, item < container.stop)
        if isinstance(container, Obj):
            m = container.cls.find_method(self.repo, "__contains__")
            if m is not None:
                return self.truth(self.call_function(FuncVal(m, self_val=container), [item], {}))
        if isinstance(container, Opaque) and "__contains__" in container.methods:
            return container.methods["__contains__"](self, item)
        if isinstance(container, MSet):
            return container.member(self, item)
        raise Unsupported(f"'in' on {type(container).__name__}")

    def e_BinOp(self, node, frame):
        a = self.eval(node.left, frame)
        b = self.eval(node.right, frame)
        return self.binop(node.op, a, b)

    def binop(self, op, a, b):
        a = self.resolve(a)
        b = self.resolve(b)
        if isinstance(a, EnumVal) and a.cls.is_int_enum(self.repo):
            a = self.enum_value(a)
        if isinstance(b, EnumVal) and b.cls.is_int_enum(self.repo):
            b = self.enum_value(b)
        if isinstance(op, ast.Mod) and isinstance(a, str):
            if any(is_sym(x) for x in (b if isinstance(b, tuple) else (b,))):
                return Opaque("str")
            return a % b
        if a is None or b is None:
            raise PyExc("TypeError", "unsupported operand type(s): NoneType")
        num_a = is_int(a) or is_boolish(a)
        num_b = is_int(b) or is_boolish(b)
        if num_a and num_b:
            a, b = _as_int(a), _as_int(b)
            if isinstance(op, ast.Add):
                return a + b
            if isinstance(op, ast.Sub):
                return a - b
            if isinstance(op, ast.Mult):
                return a * b
            if isinstance(op, ast.FloorDiv):
                return floor_div(a, b)
            if isinstance(op, ast.Mod):
                return py_mod(a, b)
            if isinstance(op, ast.RShift):
                if not isinstance(b, int):
                    raise Unsupported("shift by symbolic amount")
                return floor_div(a, 2**b)
            if isinstance(op, ast.LShift):
                if not isinstance(b, int):
                    raise Unsupported("shift by symbolic amount")
                return a * (2**b)
            if isinstance(op, ast.Pow):
                if isinstance(a, int) and isinstance(b, int):
                    return a**b
                raise Unsupported("symbolic power")
            if isinstance(op, ast.Div):
                if isinstance(a, int) and isinstance(b, int):
                    return a / b
                raise Unsupported("true division on symbolic ints")
            if isinstance(op, (ast.BitAnd, ast.BitOr, ast.BitXor)) and isinstance(a, int) and isinstance(b, int):
                return {ast.BitAnd: a & b, ast.BitOr: a | b, ast.BitXor: a ^ b}[type(op)]
            raise Unsupported(f"binop {type(op).__name__}")
        if isinstance(op, ast.Add):
            if isinstance(a, list) and isinstance(b, list):
                return a + b
            if isinstance(a, tuple) and isinstance(b, tuple):
                return a + b
            if isinstance(a, str) and isinstance(b, str):
                return a + b
            if isinstance(a, (SymStr, str)) and isinstance(b, (SymStr, str)):
                return self.symstr_concat([a, b])
            if isinstance(a, (str, Opaque)) and isinstance(b, (str, Opaque)):
                return Opaque("str")
            if isinstance(a, list) and isinstance(b, LazySeq) or isinstance(a, LazySeq) and isinstance(b, list):
                raise Unsupported("concatenation with symbolic-length sequence")
        if isinstance(op, ast.Mult):
            if isinstance(a, (str, list, tuple)) and isinstance(b, int):
                return a * b
            if isinstance(b, (str, list, tuple)) and isinstance(a, int):
                return a * b
        if isinstance(op, (ast.BitOr, ast.BitAnd, ast.Sub, ast.BitXor)) and isinstance(a, MSet):
            nm = {ast.BitOr: "union", ast.BitAnd: "intersection", ast.Sub: "difference",
                  ast.BitXor: "symmetric_difference"}[type(op)]
            return self.set_method(a, nm, [b], {})
        if isinstance(op, (ast.BitOr, ast.BitAnd, ast.Sub, ast.BitXor)) and isinstance(a, (set, frozenset)):
            return {ast.BitOr: a | b, ast.BitAnd: a & b, ast.Sub: a - b, ast.BitXor: a ^ b}[type(op)]
        if isinstance(a, float) or isinstance(b, float):
            import operator as _o
            f = {ast.Add: _o.add, ast.Sub: _o.sub, ast.Mult: _o.mul, ast.Div: _o.truediv}.get(type(op))
            if f and not is_sym(a) and not is_sym(b):
                return f(a, b)
        if isinstance(a, Obj):
            mname = {ast.Add: "__add__", ast.Sub: "__sub__", ast.Mult: "__mul__"}.get(type(op))
            m = a.cls.find_method(self.repo, mname) if mname else None
            if m is not None:
                return self.call_function(FuncVal(m, self_val=a), [b], {})
        raise PyExc("TypeError", f"unsupported operand types for {type(op).__name__}: "
                                 f"{type(a).__name__}, {type(b).__name__}")

    # ------------------------------------------------------------------ attribute access
    def e_Attribute(self, node, frame):
        v = self.eval(node.value, frame)
        return self.getattr(v, node.attr)

    def getattr(self, v, name):
        v = self.resolve(v)
        if v is None:
            raise PyExc("AttributeError", f"'NoneType' object has no attribute '{name}'")
        if isinstance(v, Obj):
            if name in v.attrs:
                return v.attrs[name]
            hook = self.attr_hooks.get((v.cls.name, name))
            if hook is not None:
                return hook(self, v)
            m = v.cls.find_method(self.repo, name)
            if m is not None:
                if m.is_property or any("cached_property" in d for d in m.decorators):
                    return self.call_function(FuncVal(m, self_val=v), [], {})
                if m.is_static:
                    return FuncVal(m)
                if m.is_classmethod:
                    return FuncVal(m, self_val=ClassRef(v.cls))
                return FuncVal(m, self_val=v)
            ca = v.cls.find_class_attr(self.repo, name)
            if ca is not None:
                return self.eval(ca[1], Frame(None, ca[0].module))
            if name == "__class__":
                return ClassRef(v.cls)
            raise PyExc("AttributeError", f"{v.cls.name}.{name}")
        if isinstance(v, ClassRef):
            cls = v.cls
            if cls.is_enum(self.repo):
                members, alias = self.enum_members(cls)
                if name in alias:
                    return EnumVal(cls, alias[name], members)
                if name == "__members__":
                    return {n: EnumVal(cls, i, members) for n, i in alias.items()}
                if name == "_value2member_map_":
                    return {val: EnumVal(cls, i, members) for i, (_, val) in enumerate(members)}
            m = cls.find_method(self.repo, name)
            if m is not None:
                if m.is_static:
                    return FuncVal(m)
                if m.is_classmethod:
                    return FuncVal(m, self_val=v)
                return FuncVal(m)  # unbound
            ca = cls.find_class_attr(self.repo, name)
            if ca is not None:
                key = (ca[0].qualname, name)
                if key not in self.class_state:
                    self.class_state[key] = self.eval(ca[1], Frame(None, ca[0].module))
                return self.class_state[key]
            if name == "__name__":
                return cls.name
            if name == "__wrapped__":
                return v
            raise PyExc("AttributeError", f"type {cls.name}.{name}")
        if isinstance(v, EnumVal):
            if name == "value":
                return self.enum_value(v)
            if name == "name":
                return self.enum_concretize(v).name
            m = v.cls.find_method(self.repo, name)
            if m is not None:
                if m.is_static:
                    return FuncVal(m)
                if m.is_classmethod:
                    return FuncVal(m, self_val=ClassRef(v.cls))
                if m.is_property:
                    return self.call_function(FuncVal(m, self_val=v), [], {})
                return FuncVal(m, self_val=v)
            members, alias = self.enum_members(v.cls)
            if name in alias:
                return EnumVal(v.cls, alias[name], members)
            if v.cls.is_str_enum(self.repo):
                return self.getattr(self.enum_concretize(v).value, name)
            raise PyExc("AttributeError", f"{v.cls.name}.{name}")
        if isinstance(v, Opaque):
            if name in v.attrs:
                return v.attrs[name]
            if name in v.methods:
                f = v.methods[name]
                return BuiltinFn(f"{v.tag}.{name}", lambda interp, args, kwargs, _f=f: _f(interp, *args, **kwargs))
            if v.tag == "facade":  # plain record object built by a contract: exactly the listed attributes exist
                raise PyExc("AttributeError", name)
            raise Unsupported(f"attribute {name} of opaque {v.tag}")
        if isinstance(v, ModuleRef):
            r = self.repo.resolve_global(v.module, name)
            if r is None:
                if v.module.short == "" and name == "biocantor":
                    return v  # ``import inscripta.biocantor`` binds the top package; .biocantor is the root module
                sub = (v.module.short + "." + name) if v.module.short else name
                if sub in self.repo.modules:
                    return ModuleRef(self.repo.module(sub))
                raise PyExc("AttributeError", name)
            return self.global_value(r, v.module)
        if isinstance(v, ExternalRef):
            full = v.full + "." + name
            if full in getattr(self, "external_consts", {}):
                return self.external_consts[full]
            return ExternalRef(v.full, name)
        if isinstance(v, BuiltinFn) and v.name in ("set", "dict", "list", "str", "tuple", "frozenset"):
            # unbound method of a builtin type: set.union(a, b, ...) == a.union(b, ...)
            return BuiltinFn(f"{v.name}.{name}", lambda interp, args, kwargs, _n=name:
                             interp.call(interp.getattr(args[0], _n), list(args[1:]), kwargs))
        if isinstance(v, SliceVal):
            if name in ("start", "stop", "step"):
                return getattr(v, name)
        if isinstance(v, FuncVal):
            if name == "__wrapped__":
                return v
            if name == "__name__":
                return v.finfo.name
        if isinstance(v, (SList, LazySeq, SymIter, MSet, SymStr)):
            return BuiltinFn(f"seq.{name}", lambda interp, args, kwargs, _v=v, _n=name:
                             interp.seq_method(_v, _n, args, kwargs))
        if isinstance(v, (list, dict, set, str, tuple, frozenset, int, float, range, bytes)) and not isinstance(v, bool):
            return BuiltinFn(f"{type(v).__name__}.{name}", lambda interp, args, kwargs, _v=v, _n=name:
                             interp.py_method(_v, _n, args, kwargs))
        if is_symint(v):
            raise PyExc("AttributeError", f"int has no attribute {name}")
        raise Unsupported(f"attribute {name} on {type(v).__name__}")

    def setattr(self, v, name, val):
        v = self.resolve(v)
        if isinstance(v, Obj):
            v.attrs[name] = val
            self.note_mutation(v, name)
            return
        if isinstance(v, Opaque):
            v.attrs[name] = val
            return
        if v is None:
            raise PyExc("AttributeError", "NoneType attribute assignment")
        raise Unsupported(f"setattr on {type(v).__name__}")

    def note_mutation(self, obj, name):
        pass

    # ------------------------------------------------------------------ subscripts
    def e_Subscript(self, node, frame):
        v = self.eval(node.value, frame)
        if isinstance(node.slice, ast.Slice):
            lo = self.eval(node.slice.lower, frame) if node.slice.lower else None
            hi = self.eval(node.slice.upper, frame) if node.slice.upper else None
            st = self.eval(node.slice.step, frame) if node.slice.step else None
            return self.getslice(v, lo, hi, st)
        idx = self.eval(node.slice, frame)
        return self.getitem(v, idx)

    def getitem(self, v, idx):
        v = self.resolve(v)
        idx = self.resolve(idx)
        if v is None:
            raise PyExc("TypeError", "'NoneType' object is not subscriptable")
        if isinstance(v, (list, tuple, str)):
            if isinstance(idx, bool):
                idx = int(idx)
            if isinstance(idx, int):
                try:
                    return v[idx]
                except IndexError:
                    raise PyExc("IndexError", "index out of range")
            if is_symint(idx):
                n = len(v)
                conds = [idx == k for k in range(-n, n)]
                conds.append(z3.Or(idx < -n, idx >= n))
                c = self.decide(conds)
                if c == 2 * n:
                    raise PyExc("IndexError", "index out of range")
                return v[c - n]
            if isinstance(idx, slice):
                return v[idx]
            if isinstance(idx, SliceVal):
                if all(x is None or isinstance(x, int) for x in (idx.start, idx.stop, idx.step)):
                    return v[slice(idx.start, idx.stop, idx.step)]
                raise Unsupported("symbolic slice of a concrete sequence")
            raise PyExc("TypeError", "list indices must be integers")
        if isinstance(v, dict) and isinstance(idx, SymChar):
            keys = list(v.keys())
            if not all(isinstance(k, str) and len(k) == 1 for k in keys) or not all(
                    isinstance(x, str) and len(x) == 1 for x in v.values()):
                raise Unsupported("character lookup in a non character-to-character map")
            if idx.alphabet is None or any(ch not in v for ch in idx.alphabet):
                # the character may be missing from the map: fork on membership
                inside = z3.Or(*[idx.code == ord(k) for k in keys]) if keys else False
                if not self.branch(inside):
                    raise PyExc("KeyError", "character")
            expr = z3.IntVal(ord(v[keys[-1]]))
            for k in keys[:-1]:
                expr = z3.If(idx.code == ord(k), z3.IntVal(ord(v[k])), expr)
            return SymChar(expr, "".join(sorted(set(v.values()))))
        if isinstance(v, dict):
            if isinstance(idx, EnumVal) and not idx.concrete:
                idx = self.enum_concretize(idx)
            if is_sym(idx):
                keys = list(v.keys())
                conds = [self.sym_eq(k, idx) for k in keys]
                conds = [_z3b(c) if isinstance(c, bool) else c for c in conds]
                other = z3.And([z3.Not(c) for c in conds]) if conds else True
                c = self.decide(conds + [other])
                if c == len(keys):
                    if hasattr(v, "default_factory") and v.default_factory is not None:
                        raise Unsupported("defaultdict with symbolic key")
                    raise PyExc("KeyError", "key")
                return v[keys[c]]
            try:
                return dict.__getitem__(v, idx)
            except KeyError:
                if getattr(v, "factory", None) is not None:
                    val = self.call(v.factory, [], {})
                    v[idx] = val
                    return val
                raise PyExc("KeyError", repr(idx))
            except TypeError:
                raise Unsupported("unhashable key")
        if isinstance(v, (SList, LazySeq)):
            n = v.length
            idx = _as_int(idx)
            if not is_int(idx):
                raise PyExc("TypeError", "indices must be integers")
            neg = self.branch(idx < 0)
            if neg:
                idx = n + idx
                if not self.branch(idx >= 0):
                    raise PyExc("IndexError", "index out of range")
            else:
                if not self.branch(idx < n):
                    raise PyExc("IndexError", "index out of range")
            return v.get(idx)
        if isinstance(v, SymStr):
            if isinstance(idx, SliceVal):
                if idx.step not in (None, 1):
                    raise Unsupported("SymStr slice step")
                return self.symstr_slice(v, idx.start, idx.stop)
            i = _as_int(idx)
            n = v.length
            if self.branch(i < 0):
                i = n + i
                if not self.branch(i >= 0):
                    raise PyExc("IndexError", "string index out of range")
            elif not self.branch(i < n):
                raise PyExc("IndexError", "string index out of range")
            one = z3.Int("ch!i")
            st = SymStr(z3.Lambda([one], z3.Select(v.arr, one + i)), 1)
            st.alphabet = getattr(v, "alphabet", None)
            return st
        if isinstance(v, Obj):
            m = v.cls.find_method(self.repo, "__getitem__")
            if m is not None:
                return self.call_function(FuncVal(m, self_val=v), [idx], {})
        if isinstance(v, ClassRef) and v.cls.is_enum(self.repo):
            if not isinstance(idx, str):
                raise Unsupported("Enum[...] with non-constant name")
            members, alias = self.enum_members(v.cls)
            if idx not in alias:
                raise PyExc("KeyError", idx)
            return EnumVal(v.cls, alias[idx], members)
        if isinstance(v, Opaque) and "__getitem__" in v.methods:
            return v.methods["__getitem__"](self, idx)
        if isinstance(v, range):
            return v[idx]
        raise Unsupported(f"subscript on {type(v).__name__}")

    def getslice(self, v, lo, hi, st):
        v = self.resolve(v)
        lo, hi, st = self.resolve(lo), self.resolve(hi), self.resolve(st)
        if isinstance(v, SymStr) and st in (None, 1):
            return self.symstr_slice(v, lo, hi)
        if isinstance(v, (list, tuple, str)) and all(x is None or isinstance(x, int) for x in (lo, hi, st)):
            return v[slice(lo, hi, st)]
        if isinstance(v, Obj):
            m = v.cls.find_method(self.repo, "__getitem__")
            if m is not None:
                return self.call_function(FuncVal(m, self_val=v), [SliceVal(lo, hi, st)], {})
        if isinstance(v, (SList, LazySeq)):
            n = v.length
            if st is None and lo is None and hi is None:
                return LazySeq(n, v.get, "copy")
            if st == -1 and lo is None and hi is None:
                return LazySeq(n, lambda i, _v=v, _n=n: _v.get(_n - 1 - i), "reversed")
            if st is None and lo is None and hi == -1:
                self_n = n - 1
                return LazySeq(sym_max(self_n, 0), v.get, "[:-1]")
            if st is None and hi is None and isinstance(lo, int) and lo >= 0:
                return LazySeq(sym_max(n - lo, 0), lambda i, _v=v, _lo=lo: _v.get(i + _lo), f"[{lo}:]")
        if isinstance(v, SymStr) and st is None:
            return self.symstr_slice(v, lo, hi)
        raise Unsupported(f"slice on {type(v).__name__} [{lo}:{hi}:{st}]")

    def setitem(self, v, idx, val):
        v = self.resolve(v)
        idx = self.resolve(idx)
        if isinstance(v, list):
            if isinstance(idx, int):
                try:
                    v[idx] = val
                except IndexError:
                    raise PyExc("IndexError", "assignment index out of range")
                return
            raise Unsupported("list store with symbolic index")
        if isinstance(v, dict):
            if isinstance(idx, EnumVal) and not idx.concrete:
                raise Unsupported("dict store with symbolic enum key")
            self.dict_store(v, idx, val)
            return
        if isinstance(v, SList):
            n = v.length
            idx = _as_int(idx)
            if self.branch(idx < 0):
                idx = n + idx
                if not self.branch(idx >= 0):
                    raise PyExc("IndexError", "assignment index out of range")
            elif not self.branch(idx < n):
                raise PyExc("IndexError", "assignment index out of range")
            vals = val if v.arity is not None else (val,)
            v.arrs = tuple(z3.Store(a, idx, _z(_as_int(x))) for a, x in zip(v.arrs, vals))
            return
        if isinstance(v, Obj):
            m = v.cls.find_method(self.repo, "__setitem__")
            if m is not None:
                self.call_function(FuncVal(m, self_val=v), [idx, val], {})
                return
        raise Unsupported(f"item assignment on {type(v).__name__}")

    # ------------------------------------------------------------------ comprehensions
    def e_ListComp(self, node, frame):
        r = self._comprehension(node, frame, node.elt)
        return r

    def e_GeneratorExp(self, node, frame):
        r = self._comprehension(node, frame, node.elt)
        if isinstance(r, list):
            return SymIter(r, 0)
        return r

    def e_SetComp(self, node, frame):
        r = self._comprehension(node, frame, node.elt)
        if isinstance(r, list):
            return self.make_set(r)
        raise Unsupported("set comprehension over symbolic-length sequence")

    def e_DictComp(self, node, frame):
        pairs = self._comprehension(node, frame, ast.Tuple(elts=[node.key, node.value], ctx=ast.Load()))
        if not isinstance(pairs, list):
            raise Unsupported("dict comprehension over symbolic-length sequence")
        d = {}
        for k, v in pairs:
            self.dict_store(d, k, v)
        return d

    def dict_store(self, d, k, v):
        """d[k] = v where k may be symbolic: an existing key that EQUALS k keeps its place and gets the new value
        (decided concretely, or by forking the path); otherwise k is a new key."""
        def _dg(x):  # a digest value (library identifier): equality is structural on its arguments (sym_eq)
            return isinstance(x, Opaque) and "$digest_args" in x.attrs
        if not (is_sym(k) or _dg(k) or any(is_sym(ek) or _dg(ek) for ek in d)):
            d[k] = v
            return
        for ek in list(d):
            eq = self.sym_eq(ek, k)
            if isinstance(eq, bool):
                if eq:
                    d[ek] = v
                    return
                continue
            if self.branch(eq):
                d[ek] = v
                return
        d[k] = v

    def make_set(self, items):
        """set(items): an item is dropped iff it EQUALS an earlier one; equality that depends on symbolic values (also
        inside tuples) is decided by forking the path."""
        out = []
        for it in items:
            dup = False
            for o in out:
                eq = self.sym_eq(o, it)
                if isinstance(eq, bool):
                    if eq:
                        dup = True
                        break
                    continue
                if self.branch(eq):
                    dup = True
                    break
            if not dup:
                out.append(it)
        return MSet(out)

    def _concrete_eq(self, a, b):
        r = self.sym_eq(a, b)
        return r if isinstance(r, bool) else False

    def _comprehension(self, node, frame, elt):
        gens = node.generators
        cframe = Frame(frame.finfo, frame.module, {}, closure=frame)

        def rec(gi):
            if gi == len(gens):
                return [self.eval(elt, cframe)]
            g = gens[gi]
            it = self.eval(g.iter, cframe if gi > 0 else frame)
            it = self.resolve(it)
            if isinstance(it, SymIter) and not isinstance(it.seq, (SList, LazySeq)):
                seq = self.iterate_concrete(it)
            elif isinstance(it, SymIter):
                seq = self.iter_remaining(it)
            else:
                seq = it
            if isinstance(seq, SymStr):
                seq = LazySeq(seq.length, lambda i, _s=seq: SymChar(z3.Select(_s.arr, i), getattr(_s, "alphabet", None)),
                              "chars")
            if isinstance(seq, (SList, LazySeq)):
                if len(gens) != 1 or g.ifs:
                    raise Unsupported("filter/nested comprehension over symbolic-length sequence "
                                      f"(line {node.lineno})")

                def getter(i, _seq=seq, _g=g):
                    f2 = Frame(frame.finfo, frame.module, {}, closure=frame)
                    self.assign_target(_g.target, _seq.get(i), f2)
                    return self.eval(elt, f2)

                return LazySeq(seq.length, getter, f"comp@{node.lineno}")
            out = []
            for x in self.iterate_concrete(seq):
                self.assign_target(g.target, x, cframe)
                if all(self.to_bool(self.eval(c, cframe)) for c in g.ifs):
                    r = rec(gi + 1)
                    if isinstance(r, LazySeq):
                        raise Unsupported("nested symbolic comprehension")
                    out.extend(r)
            return out

        return rec(0)

    def iter_remaining(self, it):
        if isinstance(it.cursor, int) and it.cursor == 0:
            return it.seq
        c = it.cursor
        return LazySeq(it.seq.length - c, lambda i, _s=it.seq, _c=c: _s.get(i + _c), "rest")

    def iterate_concrete(self, v):
        """Python list of the elements of a concrete-length iterable."""
        v = self.resolve(v)
        if isinstance(v, (list, tuple, set, frozenset, str, range)):
            if isinstance(v, (set, frozenset)):
                return self.set_order(v)
            return list(v)
        if isinstance(v, dict):
            return list(v.keys())
        if isinstance(v, MSet):
            if v.ranges:
                raise Unsupported("iteration over a set with symbolic ranges")
            return self.set_order(v.items)
        if isinstance(v, SymIter):
            if isinstance(v.seq, (SList, LazySeq)):
                if isinstance(v.seq.length, int):
                    out = [v.seq.get(i) for i in range(v.cursor, v.seq.length)]
                    v.cursor = v.seq.length
                    return out
                raise Unsupported("concrete iteration over symbolic-length sequence")
            items = self.iterate_concrete(v.seq)
            out = items[v.cursor:]
            v.cursor = len(items)
            return out
        if isinstance(v, (SList, LazySeq)):
            if isinstance(v.length, int):
                return [v.get(i) for i in range(v.length)]
            raise Unsupported("concrete iteration over symbolic-length sequence")
        if isinstance(v, ClassRef) and v.cls.is_enum(self.repo):
            members, _alias = self.enum_members(v.cls)
            return [EnumVal(v.cls, k, members) for k in range(len(members))]
        if isinstance(v, Obj):
            m = v.cls.find_method(self.repo, "__iter__")
            if m is not None:
                return self.iterate_concrete(self.call_function(FuncVal(m, self_val=v), [], {}))
        if v is None:
            raise PyExc("TypeError", "'NoneType' object is not iterable")
        raise Unsupported(f"iteration over {type(v).__name__}")

    def set_order(self, s):
        """Iteration order of a set: sorted by repr for determinism.  Order-dependence is a separate (static) check."""
        try:
            return sorted(s, key=lambda x: (type(x).__name__, repr(x)))
        except Exception:
            return list(s)

    def e_Starred(self, node, frame):
        raise Unsupported("starred expression")


class SliceVal:
    def __init__(self, lo, hi, st):
        self.start, self.stop, self.step = lo, hi, st


class MSet:
    """Mutable set.  ``items`` are pairwise-distinct values (decided on this path; may be symbolic ints);
    ``ranges`` are half-open symbolic integer ranges added by ``update(range(...))``."""

    def __init__(self, items=None, ranges=None):
        self.items = list(items or [])
        self.ranges = list(ranges or [])

    def member(self, interp, x):
        parts = [interp.sym_eq(i, x) for i in self.items]
        for lo, hi in self.ranges:
            parts.append(z3.And(_z(x) >= _z(lo), _z(x) < _z(hi)))
        return _or(parts)

    def copy(self):
        return MSet(self.items, self.ranges)

    @property
    def concrete(self):
        return not self.ranges and not any(is_sym(i) for i in self.items)

    def __repr__(self):
        return f"MSet({self.items}, ranges={self.ranges})"


SymSet = MSet
SymSetList = MSet
