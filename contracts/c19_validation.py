"""C19 — constructors and validators refuse exactly the ill-formed inputs with documented exceptions (raise-iff
contracts), otherwise establish the invariant.  Further C19 obligations are the raise-iff / no-other-exception clauses of
every case tagged C19 in the other contract modules."""
import itertools

from pyvc.spec import *  # noqa
from pyvc.sources import NS
from .common import *  # noqa
from .gene_common import *  # noqa
from .lib import LIB  # noqa

VAR = "gene.variants.VariantInterval"
VCOL = "gene.variants.VariantIntervalCollection"
GENE = "gene.gene.GeneInterval"
FCOL = "gene.feature.FeatureIntervalCollection"


class TranscriptCdsBounds(Case):
    """TranscriptInterval.__init__: a two-block CDS must start at/after the first exon start and end at/before the last
    exon end."""
    props = ("C19",)
    name = "TranscriptInterval.__init__[CDS bounds, 2 exons, 2 CDS blocks]"
    func = TRANSCRIPT + ".__init__"
    call = ("TranscriptInterval(starts, ends, strand, cds_starts=cs, cds_ends=ce, cds_frames=[CDSFrame.ZERO, CDSFrame.ZERO])")
    module = "gene.transcript"
    raises = {"InvalidCDSIntervalError": lambda i: Or(i.cs[0] < i.starts[0], i.ce[1] > i.ends[1])}
    # known finding F-C19-2: a CDS block lying in an intron (or outside every exon) is accepted as long as the first
    # CDS start / last CDS end are inside the transcript span.  The clause is only evaluated natively (witness).
    known = {"cds-blocks-inside-exons": dict(id="F-C19-2", carve=lambda i: True)}
    ensures = {
        "cds-blocks-inside-exons": lambda i, r: SKIP if hasattr(r, "attrs") else all(
            any(es <= cs and ce <= ee for es, ee in zip(i.starts, i.ends)) for cs, ce in zip(i.cs, i.ce)),
        "cds-inside-transcript-span": lambda i, r: And(r.cds.start >= r.start, r.cds.end <= r.end),
        "fields": lambda i, r: And(r.start == i.starts[0], r.end == i.ends[1], r.cds.start == i.cs[0],
                                   r.cds.end == i.ce[1]),
    }

    def inputs(self, S):
        starts, ends = block_lists(S, "tx", 2)
        cs, ce = block_lists(S, "cds", 2)
        strand = strand_of(S, "strand")
        return NS(starts=starts, ends=ends, cs=cs, ce=ce, strand=strand, TranscriptInterval=S.cls(TRANSCRIPT),
                  CDSFrame=S.cls(FRAME))

    def samples(self, rng):
        d = sample_blocks(rng, "tx", 2)
        d.update(sample_blocks(rng, "cds", 2, lo=0))
        d["strand"] = rng.choice(["PLUS", "MINUS"])
        return d

    def observe(self, r):
        from pyvc.check import default_observe as o
        return [o(r.start), o(r.end), o(r.cds.start), o(r.cds.end)]


class TranscriptCdsArgs(Case):
    """argument-shape checks of TranscriptInterval.__init__ (finite: which of the CDS lists are given / lengths)."""
    props = ("C19",)
    name = "TranscriptInterval.__init__[CDS argument shapes]"
    func = TRANSCRIPT + ".__init__"
    module = "gene.transcript"
    call = "TranscriptInterval([2], [20], Strand.PLUS, cds_starts=cs, cds_ends=ce, cds_frames=fr) is not None"
    raises = {"InvalidCDSIntervalError": lambda i: not _cds_args_ok(i.cs, i.ce, i.fr),
              "MismatchedFrameException": lambda i: False}
    allow_uncovered = ("raise:MismatchedFrameException",)
    ensures = {"built": lambda i, r: r is True}

    def inputs(self, S):
        F = S.cls(FRAME)
        nf = S.const("nf")
        zero = S.enum_const(FRAME, "ZERO")
        return NS(cs=S.const("cs"), ce=S.const("ce"), fr=None if nf is None else [zero] * nf,
                  TranscriptInterval=S.cls(TRANSCRIPT), Strand=S.cls(STRAND))

    def ground(self):
        opts = [None, [4], [4, 10]]
        eopts = [None, [8], [8, 14]]
        for cs in opts:
            for ce in eopts:
                for nf in (None, 0, 1, 2):
                    yield dict(cs=cs, ce=ce, nf=nf)


def _cds_args_ok(cs, ce, fr):
    if cs is None and ce is None:
        return True
    if cs is None or ce is None:
        return False
    return len(cs) == len(ce) and fr is not None and len(fr) == len(cs)


class CdsInit(Case):
    props = ("C19", "C05")
    name = "CDSInterval.__init__[frames count, empty CDS, frame/phase mix]"
    func = CDS + ".__init__"
    module = "gene.cds"
    call = "CDSInterval(starts, ends, Strand.PLUS, frames) is not None"
    # order of the checks in the constructor: frame count, empty CDS, frame/phase mix
    raises = {
        "MismatchedFrameException": lambda i: Or(i.nf != 2, And(i.mix, Not(And(i.starts[0] == i.ends[0],
                                                                             i.starts[1] == i.ends[1])))),
        "InvalidCDSIntervalError": lambda i: And(i.nf == 2, i.starts[0] == i.ends[0], i.starts[1] == i.ends[1]),
    }
    ensures = {"built": lambda i, r: r is True}

    def inputs(self, S):
        starts, ends = block_lists(S, "cds", 2, nonempty=False)
        kinds = S.const("kinds")
        fr = [S.enum_const(FRAME if k == "F" else "gene.cds_frame.CDSPhase", "ZERO") for k in kinds]
        return NS(starts=starts, ends=ends, frames=fr, nf=len(fr), mix=len(set(kinds)) > 1, CDSInterval=S.cls(CDS),
                  Strand=S.cls(STRAND))

    def samples(self, rng):
        d = sample_blocks(rng, "cds", 2, length=(0, 1, 3))
        d["kinds"] = rng.choice(["FF", "PP", "FP", "PF", "F", "FFF"])
        return d

    # the frames list shape is a finite parameter: one instance per shape
    def __init__(self, kinds=None):
        pass


class CdsInitShape(CdsInit):
    def __init__(self, kinds):
        self.kinds = kinds
        self.name = f"CDSInterval.__init__[frames={kinds}]"
        if len(kinds) != 2:
            self.allow_uncovered = ("return", "raise:InvalidCDSIntervalError")
        elif len(set(kinds)) > 1:
            self.allow_uncovered = ("return",)
        else:
            self.allow_uncovered = ("raise:MismatchedFrameException",)

    def inputs(self, S):
        starts, ends = block_lists(S, "cds", 2, nonempty=False)
        kinds = self.kinds
        fr = [S.enum_const(FRAME if k == "F" else "gene.cds_frame.CDSPhase", "ZERO") for k in kinds]
        # mixing is only detected once the count matches
        return NS(starts=starts, ends=ends, frames=fr, nf=len(fr), mix=(len(fr) == 2 and len(set(kinds)) > 1),
                  CDSInterval=S.cls(CDS), Strand=S.cls(STRAND))

    def samples(self, rng):
        return sample_blocks(rng, "cds", 2, length=(0, 1, 3))


class VariantInit(Case):
    props = ("C19", "C13")
    name = "VariantInterval.__init__ / VariantIntervalCollection.__init__"
    func = VAR + ".__init__"
    module = "gene.variants"
    call = ("VariantIntervalCollection([VariantInterval(s1, e1, 'A', 'snv'), VariantInterval(s2, e2, 'AC', 'ins')]).start")
    # the first variant is constructed (and validated) before the second
    raises = {
        "EmptyLocationException": lambda i: Or(i.s1 == i.e1, And(0 <= i.s1, i.s1 < i.e1, i.s2 == i.e2)),
        "InvalidPositionException": lambda i: Or(And(i.s1 != i.e1, Or(i.s1 < 0, i.s1 > i.e1)),
                                                 And(0 <= i.s1, i.s1 < i.e1, i.s2 != i.e2, Or(i.s2 < 0, i.s2 > i.e2))),
        "LocationOverlapException": lambda i: And(0 <= i.s1, i.s1 < i.e1, 0 <= i.s2, i.s2 < i.e2,
                                                  Max(i.s1, i.s2) < Min(i.e1, i.e2)),
    }
    ensures = {"start-is-min": lambda i, r: r == Min(i.s1, i.s2)}

    def inputs(self, S):
        return NS(s1=S.int("s1"), e1=S.int("e1"), s2=S.int("s2"), e2=S.int("e2"), VariantInterval=S.cls(VAR),
                  VariantIntervalCollection=S.cls(VCOL))

    def samples(self, rng):
        return dict(s1=rng.randint(-1, 6), e1=rng.randint(0, 8), s2=rng.randint(-1, 6), e2=rng.randint(0, 8))


class EmptyCollections(Case):
    props = ("C19", "C20")
    name = "GeneInterval / FeatureIntervalCollection refuse an empty child list"
    func = GENE + ".__init__"
    module = "gene.collections"
    call = "(GeneInterval if kind == 'gene' else FeatureIntervalCollection)([])"
    raises = {"InvalidAnnotationError": lambda i: True}
    allow_uncovered = ("return",)

    def inputs(self, S):
        return NS(kind=S.const("kind"), GeneInterval=S.cls(GENE), FeatureIntervalCollection=S.cls(FCOL))

    def ground(self):
        yield dict(kind="gene")
        yield dict(kind="fc")


class DuplicateChildren(Case):
    """Duplicate children (two members with the same content, hence the same identifier) are refused by both collection
    constructors with the documented exception; members that differ in any identifying field are accepted and BOTH are
    reachable through guid_map.  Complete finite domain (kind x which field differs)."""
    props = ("C19", "C20")
    name = "GeneInterval / FeatureIntervalCollection refuse duplicate children (same identifier), keep distinct ones"
    func = GENE + ".__init__"
    module = "gene.collections"
    call = "(lambda g: (len(g.guid_map), len(g.children_guids)))((GeneInterval if kind == 'gene' else FeatureIntervalCollection)([a, b]))"
    raises = {"DuplicateTranscriptError": lambda i: i.kind == "gene" and i.differ == "nothing",
              "DuplicateFeatureError": lambda i: i.kind == "fc" and i.differ == "nothing"}
    ensures = {"both-members-kept": lambda i, r: And(r[0] == 2, r[1] == 2)}

    def inputs(self, S):
        kind, differ = S.const("kind"), S.const("differ")
        plus = S.enum_const(STRAND, "PLUS")
        e2 = 9 if differ == "coordinates" else 8
        id2 = "m2" if differ == "id" else "m1"
        if kind == "gene":
            a = S.new(TRANSCRIPT, [2], [8], plus, transcript_id="m1")
            b = S.new(TRANSCRIPT, [2], [e2], plus, transcript_id=id2)
        else:
            a = S.new(FEATURE, [2], [8], plus, feature_id="m1")
            b = S.new(FEATURE, [2], [e2], plus, feature_id=id2)
        return NS(kind=kind, differ=differ, a=a, b=b, GeneInterval=S.cls(GENE), FeatureIntervalCollection=S.cls(FCOL))

    def ground(self):
        for kind in ("gene", "fc"):
            for differ in ("nothing", "id", "coordinates"):
                yield dict(kind=kind, differ=differ)


class AnnotationCollectionBounds(Case):
    props = ("C19",)
    name = "AnnotationCollection.__init__[start/end pairing]"
    func = "gene.collections.AnnotationCollection.__init__"
    module = "gene.collections"
    call = "AnnotationCollection(start=a, end=b).is_empty"
    raises = {"InvalidAnnotationError": lambda i: (i.a is None) != (i.b is None),
              "InvalidPositionException": lambda i: i.a is not None and i.b is not None and not (0 <= i.a <= i.b)}
    ensures = {"empty": lambda i, r: r is True}

    def inputs(self, S):
        return NS(a=S.const("a"), b=S.const("b"), AnnotationCollection=S.cls("gene.collections.AnnotationCollection"))

    def ground(self):
        for a in (None, 0, 5, -1):
            for b in (None, 0, 3, 9):
                yield dict(a=a, b=b)


class InitializeLocation(Case):
    props = ("C19", "C07")
    name = "AbstractInterval.initialize_location[list lengths]"
    func = "gene.interval.AbstractInterval.initialize_location"
    module = "gene.interval"
    call = "AbstractInterval.initialize_location(starts, ends, Strand.PLUS) is not None"
    raises = {"ValidationException": lambda i: len(i.starts) != len(i.ends),
              "LocationException": lambda i: len(i.starts) == len(i.ends) == 0}
    ensures = {"built": lambda i, r: r is True}

    def inputs(self, S):
        return NS(starts=S.const("starts"), ends=S.const("ends"), Strand=S.cls(STRAND))

    def ground(self):
        for st in ([], [1], [1, 5], [1, 5, 9]):
            for en in ([], [3], [3, 7], [3, 7, 12]):
                yield dict(starts=st, ends=en)


class SequenceInit(Case):
    props = ("C19", "C03")
    name = "Sequence.__init__[alphabet / parent-location length]"
    func = "sequence.sequence.Sequence.__init__"
    module = "sequence.sequence"
    call = "len(Sequence(text, Alphabet[alpha], parent=par))"
    raises = {
        "AlphabetError": lambda i: (not i.len_mismatch) and any(ch.upper() not in i.letters for ch in i.text),
        "MismatchedParentException": lambda i: i.len_mismatch,
    }
    ensures = {"length": lambda i, r: r == len(i.text)}

    def inputs(self, S):
        A = S.cls(ALPHABET)
        par = None
        L = S.const("ploc")
        if L is not None:
            par = S.new(PARENT, location=S.new(SINGLE, 0, L, S.enum_const(STRAND, "PLUS")))
        alpha = S.const("alpha")
        letters = {"NT_STRICT": "ACGT", "NT_STRICT_UNKNOWN": "ATGCN", "AA": "GALMFWKQESPVICYHRNDT*"}[alpha]
        return NS(text=S.const("text"), alpha=alpha, par=par, letters=letters,
                  len_mismatch=(L is not None and L != len(S.const("text"))))

    def ground(self):
        for text in ("", "ACGT", "acgt", "ACGN", "AXGT", "MKV*"):
            for alpha in ("NT_STRICT", "NT_STRICT_UNKNOWN", "AA"):
                for ploc in (None, len(text), len(text) + 1):
                    yield dict(text=text, alpha=alpha, ploc=ploc)


class ParentConsistency(Case):
    props = ("C19",)
    name = "Parent.__init__[consistency of id / type / strand / location / sequence]"
    func = "parent.parent.Parent.__init__"
    module = "parent.parent"
    call = "Parent(id=pid, sequence_type=ptype, strand=pstrand, location=loc, sequence=seq) is not None"
    raises = {
        "ParentException": lambda i: i.bad_ids,
        "InvalidStrandException": lambda i: (not i.bad_ids) and i.bad_strand,
        "InvalidPositionException": lambda i: (not i.bad_ids) and (not i.bad_strand) and i.too_long,
    }
    ensures = {"built": lambda i, r: r is True}

    def inputs(self, S):
        c = S.const
        seq = None
        if c("seq") is not None:
            seq = S.new(SEQUENCE, c("seq")["text"], S.enum_const(ALPHABET, "NT_STRICT"), id=c("seq")["id"],
                        type=c("seq")["type"])
        loc = None
        if c("loc") is not None:
            lp = c("loc")["parent"]
            loc = S.new(SINGLE, 0, c("loc")["end"], S.enum_const(STRAND, c("loc")["strand"]), lp)
        pstrand = S.enum_const(STRAND, c("strand")) if c("strand") else None
        ids = {x for x in (c("pid"), c("loc")["parent"] if c("loc") else None, c("seq")["id"] if c("seq") else None)
               if x is not None}
        types = {x for x in (c("ptype"), c("seq")["type"] if c("seq") else None) if x is not None}
        bad_strand = bool(loc is not None and pstrand is not None and c("loc")["strand"] != "UNSTRANDED"
                          and c("strand") != "UNSTRANDED" and c("strand") != c("loc")["strand"])
        too_long = bool(loc is not None and seq is not None and c("loc")["end"] > len(c("seq")["text"]))
        return NS(pid=c("pid"), ptype=c("ptype"), pstrand=pstrand, loc=loc, seq=seq, Parent=S.cls(PARENT),
                  bad_ids=len(ids) > 1 or len(types) > 1, bad_strand=bad_strand, too_long=too_long)

    def ground(self):
        # "" is a VALUE (only None means 'not given'): an empty id / type conflicts with a real one
        for pid in (None, "chr1", ""):
            for ptype in (None, "chromosome", ""):
                for strand in (None, "PLUS", "MINUS"):
                    for loc in (None, dict(end=3, strand="PLUS", parent=None), dict(end=6, strand="MINUS", parent="chr2"),
                                dict(end=3, strand="PLUS", parent="chr1")):
                        for seq in (None, dict(text="ACGT", id=None, type=None), dict(text="ACGT", id="chr1", type="other"),
                                    dict(text="", id=None, type=None)):  # an EMPTY sequence still bounds the location
                            yield dict(pid=pid, ptype=ptype, strand=strand, loc=loc, seq=seq)


class ParentExplicitParent(Case):
    """Parent(sequence=<Sequence that has its own parent>, parent=<explicit parent carrying THIS level's location on the
    grandparent>): the explicit parent wins (after the equal-except-location check) - its location is the map that
    lift-over uses; a Sequence's own parent is only the fallback."""
    props = ("C19", "C04")
    name = "Parent.__init__[explicit parent= next to a Sequence that has its own parent]"
    func = "parent.parent.Parent.__init__"
    module = "parent.parent"
    call = ("(lambda p: (p.parent.location.start, p.parent.location.end, p.parent.id))"
            "(Parent(id='mid', sequence=seq, parent=explicit))")
    ensures = {"explicit-parent-kept-with-its-location": lambda i, r: And(r[0] == i.a, r[1] == i.b, r[2] == "top")}

    def inputs(self, S):
        a, b = S.int("a"), S.int("b")
        S.assume(And(0 <= a, a <= b))
        own = S.new(PARENT, id="top")
        seq = S.new(SEQUENCE, "ACGT", S.enum_const(ALPHABET, "NT_STRICT"), id="mid", parent=own)
        explicit = S.new(PARENT, id="top", location=S.new(SINGLE, a, b, S.enum_const(STRAND, "PLUS")))
        return NS(seq=seq, explicit=explicit, a=a, b=b, Parent=S.cls(PARENT))

    def samples(self, rng):
        a = rng.randint(0, 9)
        return dict(a=a, b=a + rng.randint(0, 9))


class ChunkParentGuards(Case):
    """A hand-built ``parent_or_seq_chunk_parent``: an interval may be placed on a sequence chunk only if the chunk's
    ancestry leads to a chromosome (the coordinates an interval is constructed with are chromosome coordinates).  Chunk
    without any parent, chunk placed on an UNTYPED grandparent, chunk placed on a grandparent typed 'contig', placement
    without grandparent: documented NoSuchAncestorException; chunk record without sequence text: NullSequenceException;
    a well-formed chunk: chromosome coordinates minus the chunk offset.  Through the static helper and through the
    FeatureInterval constructor."""
    props = ("C19", "C04", "C07")
    func = "gene.interval.AbstractInterval.liftover_location_to_seq_chunk_parent"
    module = "gene.feature"
    NO_ANCESTOR = ("naked chunk", "untyped grandparent", "contig grandparent", "placement without grandparent",
                   "chunk record, no chromosome")
    ensures = {
        "chromosome-coordinates-minus-chunk-offset": lambda i, r: And(
            r[0] == i.a - (i.off if i.kind.startswith("chromosome") else 0),
            r[1] == i.b - (i.off if i.kind.startswith("chromosome") else 0)),
    }

    KINDS = ("chromosome (enum)", "chromosome (str)", "untyped grandparent", "contig grandparent",
             "placement without grandparent", "naked chunk", "chunk record without sequence",
             "chunk record, no chromosome", "plain chromosome parent", "untyped parent")

    def __init__(self, via, kind):
        self.via, self.kind = via, kind
        self.name = f"liftover_location_to_seq_chunk_parent[hand-built parent: {kind}, via {via}]"
        if kind in self.NO_ANCESTOR:
            self.raises, self.ensures = {"NoSuchAncestorException": lambda i: True}, {}
        elif kind == "chunk record without sequence":
            self.raises, self.ensures = {"NullSequenceException": lambda i: True}, {}
        if via == "constructor":
            self.call = ("(lambda f: (f.chunk_relative_location.start, f.chunk_relative_location.end))"
                         "(FeatureInterval([a], [b], Strand.PLUS, parent_or_seq_chunk_parent=par))")
        else:
            self.call = ("(lambda l: (l.start, l.end))(AbstractInterval.liftover_location_to_seq_chunk_parent("
                         "SingleInterval(a, b, Strand.PLUS), par))")

    def inputs(self, S):
        kind = self.kind
        a, b, off = S.int("a"), S.int("b"), S.int("off")
        S.assume(And(0 <= off, off <= a, a < b, b <= off + 10))
        plus = S.enum_const(STRAND, "PLUS")
        NT = S.enum_const(ALPHABET, "NT_STRICT")

        def chunk_on(grand, with_placement=True):
            placement = S.new(PARENT, location=S.new(SINGLE, off, off + 10, plus, parent=grand)) if with_placement else None
            seq = S.new(SEQUENCE, "ACGTACGTAC", NT, id="c", type="sequence_chunk", parent=placement)
            return S.new(PARENT, id="c", sequence=seq)

        if kind == "chromosome (enum)":
            par = chunk_on(S.new(PARENT, id="chrI", sequence_type=S.enum_const("SequenceType", "CHROMOSOME")))
        elif kind == "chromosome (str)":
            par = chunk_on(S.new(PARENT, id="chrI", sequence_type="chromosome"))
        elif kind == "untyped grandparent":
            par = chunk_on(S.new(PARENT, id="chrI"))
        elif kind == "contig grandparent":
            par = chunk_on(S.new(PARENT, id="chrI", sequence_type="contig"))
        elif kind == "placement without grandparent":
            par = chunk_on(None)
        elif kind == "naked chunk":
            par = chunk_on(None, with_placement=False)
        elif kind == "chunk record without sequence":
            par = S.new(PARENT, id="c", sequence_type="sequence_chunk", parent=S.new(
                PARENT, location=S.new(SINGLE, off, off + 10, plus, parent=S.new(PARENT, id="chrI", sequence_type="chromosome"))))
        elif kind == "chunk record, no chromosome":
            par = S.new(PARENT, id="c", sequence_type="sequence_chunk")
        elif kind == "plain chromosome parent":
            par = S.new(PARENT, id="chrI", sequence_type="chromosome")
        else:
            par = S.new(PARENT, id="whatever")
        return NS(kind=kind, a=a, b=b, off=off, par=par, Strand=S.cls(STRAND), SingleInterval=S.cls(SINGLE),
                  FeatureInterval=S.cls("gene.feature.FeatureInterval"),
                  AbstractInterval=S.cls("gene.interval.AbstractInterval"))

    def samples(self, rng):
        off = rng.randint(0, 20)
        a = off + rng.randint(0, 8)
        return dict(off=off, a=a, b=rng.randint(a + 1, off + 10))


class ReparentMismatch(Case):
    """AbstractInterval.liftover_to_parent_or_seq_chunk_parent(new_parent) of an interval that sits on a chromosome WITH
    sequence: the new parent must be the same chromosome - same id, same type, and, when it carries sequence data, the
    same text; anything else is the documented MismatchedParentException, never an interval silently re-read from
    another sequence.  (This is the only place where the old and the new parent can be compared: the interval is then
    rebuilt from its dictionary, which does not carry the parent.)"""
    props = ("C19", "C04")
    name = "liftover_to_parent_or_seq_chunk_parent[new chromosome parent: same / other text, same / other id, with / without sequence]"
    func = "gene.interval.AbstractInterval.liftover_to_parent_or_seq_chunk_parent"
    module = "gene.feature"
    call = ("(lambda g: (g.start, g.end, str(g.get_spliced_sequence()) if g.has_sequence else None))"
            "(f.liftover_to_parent_or_seq_chunk_parent(new))")
    raises = {"MismatchedParentException": lambda i: i.new_id != "chr1" or (i.new_text is not None and i.new_text != i.text)}
    ensures = {"same-interval-on-the-new-parent": lambda i, r: (r[0], r[1]) == (2, 6) and r[2] == (
        i.text[2:6] if i.new_text is not None else None)}

    def inputs(self, S):
        text, new_text, new_id = "ACGTACGTAC", S.const("new_text"), S.const("new_id")
        fn = S.fn("io.parser.seq_to_parent")
        mk = (lambda t, i_: fn(t, seq_id=i_)) if S.mode == "native" else (lambda t, i_: S.e.call(fn, [t], {"seq_id": i_}))
        old = mk(text, "chr1")
        new = mk(new_text, new_id) if new_text is not None else S.new(PARENT, id=new_id, sequence_type="chromosome")
        f = S.new("gene.feature.FeatureInterval", [2], [6], S.enum_const(STRAND, "PLUS"), parent_or_seq_chunk_parent=old)
        return NS(f=f, new=new, text=text, new_text=new_text, new_id=new_id)

    def ground(self):
        for new_text in ("ACGTACGTAC", "ACGTTCGTAC", "ACGTACGTACGG", None):
            for new_id in ("chr1", "chr2"):
                yield dict(new_text=new_text, new_id=new_id)


class ParentEqualsExceptLocation(Case):
    """Parent.equals_except_location (under every set operation through has_overlap / require_parents_equal_*): two
    parents match iff id and sequence type agree, their own parents agree where BOTH have one, and - unless
    require_same_sequence is switched off - their sequence data agree, where 'no sequence' only matches 'no sequence'."""
    props = ("C19", "C02", "C04")
    name = "Parent.equals_except_location[ids x types x sequence present / absent / different x flag]"
    func = "parent.parent.Parent.equals_except_location"
    module = "parent.parent"
    call = "(a.equals_except_location(b, require_same_sequence=flag), b.equals_except_location(a, require_same_sequence=flag))"
    ensures = {
        "documented-match": lambda i, r: r[0] == i.expect and r[1] == i.expect,
    }

    def inputs(self, S):
        def mk(spec):
            pid, ptype, text = spec
            seq = S.new(SEQUENCE, text, S.enum_const(ALPHABET, "NT_STRICT")) if text is not None else None
            return S.new(PARENT, id=pid, sequence_type=ptype, sequence=seq)
        sa, sb, flag = S.const("a"), S.const("b"), S.const("flag")
        expect = sa[0] == sb[0] and sa[1] == sb[1] and (not flag or sa[2] == sb[2])
        return NS(a=mk(sa), b=mk(sb), flag=flag, expect=expect)

    def ground(self):
        specs = [(i_, t, x) for i_ in ("chr1", "chr2") for t in (None, "chromosome") for x in (None, "ACGT", "ACGA")]
        for a in specs:
            for b in specs:
                for flag in (True, False):
                    yield dict(a=list(a), b=list(b), flag=flag)


class VariantCollectionOverlap(Case):
    """VariantIntervalCollection([v0, v1, v2]) with the three variants listed in ANY order: refused with the
    documented LocationOverlapException iff some two of them share a position - whichever positions they hold in the
    list; otherwise the variants are stored ordered by start."""
    props = ("C19", "C13")
    name = "VariantIntervalCollection.__init__[three variants in any order: overlap check]"
    func = "gene.variants.VariantIntervalCollection.__init__"
    module = "gene.variants"
    shard_depth = 4
    call = "[v.start for v in VariantIntervalCollection([v0, v1, v2]).variant_intervals]"
    raises = {"LocationOverlapException": lambda i: Or(*[
        Max(i.s[a], i.s[b]) < Min(i.e[a], i.e[b]) for a in range(3) for b in range(a + 1, 3)])}
    ensures = {"stored-ordered-by-start": lambda i, r: And(r[0] <= r[1], r[1] <= r[2],
                                                         sum(r, 0) == sum(i.s, 0))}

    def inputs(self, S):
        s_, e_, vs = [], [], []
        for k in range(3):
            a, b = S.int(f"s{k}"), S.int(f"e{k}")
            S.assume(And(0 <= a, a < b))
            s_.append(a)
            e_.append(b)
            vs.append(S.new("gene.variants.VariantInterval", a, b, "A", "variant"))
        return NS(v0=vs[0], v1=vs[1], v2=vs[2], s=s_, e=e_,
                  VariantIntervalCollection=S.cls("gene.variants.VariantIntervalCollection"))

    def samples(self, rng):
        d = {}
        for k in range(3):
            a = rng.randint(0, 20)
            d[f"s{k}"], d[f"e{k}"] = a, a + rng.randint(1, 5)
        return d


class FromSingleIntervals(Case):
    """CompoundInterval.from_single_intervals: refused iff empty, mixed strands, or parents that are not equal except
    for the location (same id but different type or sequence counts as different)."""
    props = ("C19", "C02")
    name = "CompoundInterval.from_single_intervals[strand / parent consistency]"
    func = COMPOUND + ".from_single_intervals"
    module = "location.location_impl"
    call = "CompoundInterval.from_single_intervals(ivs).num_blocks"
    raises = {"ValueError": lambda i: i.bad, "AttributeError": lambda i: i.mixed_none}
    # known finding: mixing parent-less and parented intervals dereferences None while building the error message
    known_raises = {"AttributeError": "F-C19-5"}
    allow_uncovered = ("raise:AttributeError",)
    ensures = {"blocks": lambda i, r: r == len(i.ivs)}

    PARENTS = {
        "none": None,
        "chr1": dict(id="chr1"),
        "chr1-chromosome": dict(id="chr1", sequence_type="chromosome"),
        "chr1-chunk": dict(id="chr1", sequence_type="sequence_chunk"),
        "chr1-seqA": dict(id="chr1", seq="ACGTACGTAC"),
        "chr1-seqB": dict(id="chr1", seq="TTGTACGTAC"),
        "chr2": dict(id="chr2"),
    }

    def inputs(self, S):
        ivs = []
        keys = []
        for s, e, strand, pk in S.const("ivs"):
            p = self.PARENTS[pk]
            par = None
            if p is not None:
                kw = dict(id=p["id"])
                if "sequence_type" in p:
                    kw["sequence_type"] = p["sequence_type"]
                if "seq" in p:
                    kw["sequence"] = S.new(SEQUENCE, p["seq"], S.enum_const(ALPHABET, "NT_STRICT"), id=p["id"])
                par = S.new(PARENT, **kw)
            ivs.append(S.new(SINGLE, s, e, S.enum_const(STRAND, strand), par))
            keys.append(pk)
        strands = {x[2] for x in S.const("ivs")}
        pk_set = set(keys)
        mixed_none = len(pk_set) > 1 and "none" in pk_set
        bad = (not ivs) or len(strands) > 1 or (len(pk_set) > 1 and not mixed_none) or (mixed_none and False)
        return NS(ivs=ivs, bad=bad and not mixed_none, mixed_none=mixed_none, CompoundInterval=S.cls(COMPOUND))

    def ground(self):
        yield dict(ivs=[])
        pks = list(self.PARENTS)
        for p1, p2 in itertools.product(pks, repeat=2):
            for s1, s2 in (("PLUS", "PLUS"), ("PLUS", "MINUS")):
                yield dict(ivs=[[1, 3, s1, p1], [5, 8, s2, p2]])
        for p in pks:
            yield dict(ivs=[[1, 3, "PLUS", p], [5, 8, "PLUS", p], [8, 9, "PLUS", p]])


class CompoundOnSequence(Case):
    """CompoundInterval (2 blocks that may overlap or nest) on a parent carrying sequence: the constructor and
    shift_position refuse coordinates outside the sequence for EVERY block (not only the last one in sort order), and
    what they return lies inside it."""
    props = ("C19", "C02")
    func = COMPOUND + ".shift_position"
    module = "location.location_impl"

    def __init__(self, op):
        self.op = op
        if op == "shift_position":
            self.name = "CompoundInterval.shift_position[2 blocks, overlapping / nested allowed, parent with sequence]"
            self.call = "(lambda r: [(b.start, b.end) for b in r.blocks])(CompoundInterval(starts, ends, strand, parent).shift_position(k))"
            self.raises = {"InvalidPositionException": lambda i: Or(Min(i.starts[0], i.starts[1]) + i.k < 0,
                                                                   Max(i.ends[0], i.ends[1]) + i.k > i.L)}
            self.ensures = {"every-block-shifted-by-k": lambda i, r: And(
                len(r) == 2, *[Or(*[And(b[0] == s + i.k, b[1] == e + i.k) for b in r]) for s, e in zip(i.starts, i.ends)])}
        else:
            self.name = "CompoundInterval.__init__[2 blocks, overlapping / nested allowed, parent with sequence]"
            self.func = COMPOUND + ".__init__"
            # construction only: nothing that validates lazily (blocks) is touched afterwards
            self.call = "(lambda r: (r.num_blocks, len(r)))(CompoundInterval(starts, ends, strand, parent))"
            self.raises = {"InvalidPositionException": lambda i: Max(i.ends[0], i.ends[1]) > i.L}
            self.ensures = {"built": lambda i, r: And(r[0] == 2, r[1] == (i.ends[0] - i.starts[0]) + (i.ends[1] - i.starts[1]))}

    def inputs(self, S):
        from .gene_common import block_lists, strand_of
        starts, ends = block_lists(S, "loc", 2, nonempty=False, allow_overlap=True)
        strand = strand_of(S, "strand", directed=False)
        parent, L = parent_with_sequence(S)
        k = S.int("k") if self.op == "shift_position" else 0
        if self.op == "shift_position":
            S.assume(Max(ends[0], ends[1]) <= L)  # the source location is valid
        return NS(starts=starts, ends=ends, strand=strand, parent=parent, L=L, k=k, CompoundInterval=S.cls(COMPOUND))

    def samples(self, rng):
        a = rng.randint(0, 6)
        b = a + rng.randint(0, 6)
        c = rng.randint(a, a + 4)
        d = c + rng.randint(0, 6)
        if (c, d) < (a, b):
            a, b, c, d = c, d, a, b
        L = max(b, d) + rng.randint(0, 3) if self.op == "shift_position" or rng.random() < 0.6 else max(1, max(b, d) - rng.randint(1, 3))
        return dict(loc_starts=[a, c], loc_ends=[b, d], strand=rng.choice(["PLUS", "MINUS", "UNSTRANDED"]),
                    seq="".join(rng.choice("ACGT") for _ in range(L)), k=rng.randint(-4, 5))


class OpenEndedSlice(Case):
    """slices with an omitted bound on a sequence that records a location."""
    props = ("C19", "C03")
    name = "Sequence.__getitem__[open-ended slice on a located sequence]"
    func = "sequence.sequence.Sequence.__getitem__"
    module = "sequence.sequence"
    call = "str(s[:2]) + str(s[1:])"
    # known finding F-C19-3: key.start / key.stop are passed on as None and the lift-over compares None with ints
    raises = {"TypeError": lambda i: True}
    known_raises = {"TypeError": "F-C19-3"}
    allow_uncovered = ("return",)

    def inputs(self, S):
        loc = S.new(SINGLE, 2, 6, S.enum_const(STRAND, "PLUS"))
        s = S.new(SEQUENCE, "ACGT", S.enum_const(ALPHABET, "NT_STRICT"), type="piece", parent=S.new(PARENT, location=loc))
        return NS(s=s)

    def ground(self):
        yield {}


CASES = [OpenEndedSlice(), TranscriptCdsBounds(), TranscriptCdsArgs(), CdsInitShape("FF"), CdsInitShape("PP"), CdsInitShape("FP"),
         CdsInitShape("F"), CdsInitShape("FFF"), VariantInit(), EmptyCollections(), DuplicateChildren(), AnnotationCollectionBounds(),
         InitializeLocation(), SequenceInit(), ParentConsistency(), FromSingleIntervals(),
         CompoundOnSequence("shift_position"), CompoundOnSequence("__init__"), ParentExplicitParent(), ReparentMismatch(), ParentEqualsExceptLocation(), VariantCollectionOverlap(),
         *[ChunkParentGuards(v, k) for v in ("constructor", "static helper") for k in ChunkParentGuards.KINDS]]
