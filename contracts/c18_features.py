"""C18 — io/features/__init__.py: identifier / qualifier extraction.  The qualifier dict is iterated in insertion order,
so "every order" is every insertion order: the domain (all subsets up to a size and ALL their orderings, recognised keys
in several spellings plus look-alike keys, distinct values) is finite and decided completely by executing the real
code in the verifier's interpreter on every element (each element is also re-run under CPython and compared)."""
import itertools

from pyvc.spec import *  # noqa
from pyvc.sources import NS
from .lib import LIB  # noqa

F = "io.features."
# documented priority lists (specification; lower rank wins)
NAME_RANK = {"feature_name": 0, "standard_name": 10, "name": 15, "gene": 20, "gene_name": 30, "label": 40, "operon": 50}
ID_RANK = {"feature_id": 0, "id": 255}
LOOKALIKES = ["names", "gene_id", "xname", "feature_name_", "idx", "note_", "operons", "locus_tag"]


def spell(k, style):
    return {0: k, 1: k.upper(), 2: k.title()}[style]


def spec_name_id(pairs):
    """pairs: list of (key, [values]) in iteration order -> expected (name, id) by the documented priorities."""
    names = [(NAME_RANK[k.lower()], v[0]) for k, v in pairs if k.lower() in NAME_RANK]
    ids = [(ID_RANK[k.lower()], v[0]) for k, v in pairs if k.lower() in ID_RANK]
    name = min(names)[1] if names else None
    fid = min(ids)[1] if ids else None
    if not name and not fid:
        for k, v in pairs:
            if k == "note":
                toks = v[0].split() if v else []
                if toks:
                    import string
                    name = fid = toks[0].strip(string.punctuation)
    return name, fid


def rank0_first(pairs):
    """carve-out of known finding F-C18-1: a rank-0 key (feature_name / feature_id) is followed, later in iteration
    order, by another recognised key of the same family."""
    for fam in (NAME_RANK, ID_RANK):
        seen0 = False
        for k, _v in pairs:
            kl = k.lower()
            if kl in fam:
                if seen0:
                    return True
                if fam[kl] == 0:
                    seen0 = True
    return False


class ExtractNameId(Case):
    known = {"priority-decides-regardless-of-order": dict(id="F-C18-1", carve=lambda i: rank0_first(i.pairs))}
    props = ("C18",)
    func = F + "extract_feature_name_id"
    call = "extract_feature_name_id(dict(pairs))"
    ensures = {
        "priority-decides-regardless-of-order": lambda i, r: tuple(r) == spec_name_id(i.pairs),
    }

    def __init__(self, name, gen):
        self.name = name
        self._gen = gen

    def inputs(self, S):
        pairs = [(k, list(v)) for k, v in S.const("pairs")]
        return NS(pairs=pairs, extract_feature_name_id=S.fn(F + "extract_feature_name_id"))

    def ground(self):
        for pairs in self._gen():
            yield {"pairs": [[k, [f"v{j}_{k}", f"w{j}"]] for j, k in enumerate(pairs)]}

    def observe(self, r):
        return list(r)


def _all_orderings_small():
    keys = list(NAME_RANK) + list(ID_RANK)
    universe = [spell(k, s) for k in keys for s in (0, 1)] + LOOKALIKES[:4] + ["note"]
    seen = set()
    for n in range(0, 4):
        for combo in itertools.permutations(universe, n):
            low = [c.lower() for c in combo]
            if len(set(low)) != len(low):
                continue  # one spelling per key in a dict
            yield list(combo)


def _all_orderings_name_keys():
    for perm in itertools.permutations(list(NAME_RANK)):
        yield list(perm)
    for perm in itertools.permutations(list(NAME_RANK)[:4] + list(ID_RANK) + ["Names"]):
        yield list(perm)


class NoteFallback(Case):
    props = ("C18",)
    name = "extract_feature_name_id[/note fallback]"
    func = F + "extract_feature_name_id"
    call = "extract_feature_name_id(dict(pairs))"
    ensures = {"note-fallback": lambda i, r: tuple(r) == spec_name_id(i.pairs)}

    def inputs(self, S):
        pairs = [(k, list(v)) for k, v in S.const("pairs")]
        return NS(pairs=pairs, extract_feature_name_id=S.fn(F + "extract_feature_name_id"))

    def ground(self):
        notes = [["(abc) def"], ["  x,  y"], [""], ["   "], ["...;"], ["geneA."]]
        for nv in notes:
            yield {"pairs": [["note", nv]]}
            yield {"pairs": [["other", ["q"]], ["note", nv]]}
            yield {"pairs": [["note", nv], ["gene", ["G"]]]}
            yield {"pairs": [["id", ["I"]], ["note", nv]]}

    def observe(self, r):
        return list(r)


class ExtractTypes(Case):
    props = ("C18",)
    name = "extract_feature_types[all small qualifier dicts]"
    func = F + "extract_feature_types"
    call = "(extract_feature_types(types, dict(pairs)), types)"
    ensures = {
        "union-of-type-like-qualifiers": lambda i, r: _sorted(r[1]) == sorted(
            set(i.initial) | {v for k, vals in i.pairs for v in vals
                              if any(t in k.lower() for t in ("_class", "gbkey", "_type"))}),
        "returns-none": lambda i, r: r[0] is None,
    }

    def inputs(self, S):
        pairs = [(k, list(v)) for k, v in S.const("pairs")]
        initial = list(S.const("initial"))
        types = set(initial) if S.mode == "native" else S.e.make_set(list(initial))
        return NS(pairs=pairs, initial=initial, types=types, extract_feature_types=S.fn(F + "extract_feature_types"))

    def ground(self):
        keys = ["gbkey", "GBKEY", "feature_class", "my_type", "TYPE", "type_", "so_type_x", "class", "gb_key", "note"]
        for n in range(0, 3):
            for combo in itertools.permutations(keys, n):
                yield {"pairs": [[k, [f"T{j}", "shared"]] for j, k in enumerate(combo)], "initial": ["gene"]}

    def observe(self, r):
        return _sorted(r[1])


def _sorted(s):
    if hasattr(s, "items") and hasattr(s, "ranges"):
        return sorted(s.items)
    return sorted(s)


class MergeQualifiers(Case):
    props = ("C18",)
    name = "merge_qualifiers[all pairs of small dicts]"
    func = F + "merge_qualifiers"
    call = "merge_qualifiers(dict(a), dict(b))"
    ensures = {
        "keywise-set-union-sorted-values": lambda i, r: {k: list(v) for k, v in r.items()} == {
            k: sorted(set(dict(i.a).get(k, [])) | set(dict(i.b).get(k, []))) for k in
            list(dict(i.a)) + [k for k in dict(i.b) if k not in dict(i.a)]},
    }

    def inputs(self, S):
        a = [(k, list(v)) for k, v in S.const("a")]
        b = [(k, list(v)) for k, v in S.const("b")]
        return NS(a=a, b=b, merge_qualifiers=S.fn(F + "merge_qualifiers"))

    def ground(self):
        shapes = [[], ["a"], ["b", "a"], ["a", "a"], ["c", "a", "b"]]
        keys = ["k1", "k2"]
        dicts = [[]]
        for v1 in shapes:
            dicts.append([["k1", v1]])
            for v2 in shapes[:4]:
                dicts.append([["k1", v1], ["k2", v2]])
                dicts.append([["k2", v2], ["k1", v1]])
        for a in dicts:
            for b in dicts:
                yield {"a": a, "b": b}

    def observe(self, r):
        return {k: list(v) for k, v in r.items()}


CASES = [ExtractNameId("extract_feature_name_id[all orderings of all subsets <= 3 keys, 2 spellings + look-alikes]",
                       _all_orderings_small),
         ExtractNameId("extract_feature_name_id[all 7! orderings of the name keys; 7! of mixed name/id/look-alike]",
                       _all_orderings_name_keys),
         NoteFallback(), ExtractTypes(), MergeQualifiers()]

CANARIES = [
    dict(name="name priority: < -> <=", props=("C18",), file="inscripta/biocantor/io/features/__init__.py",
         old="this_feature_key < feature_key:", new="this_feature_key <= feature_key or this_feature_key == 40:",
         case="extract_feature_name_id[all orderings of all subsets <= 3 keys, 2 spellings + look-alikes]",
         expect="post:priority-decides-regardless-of-order"),
]
