"""C10 — answers do not depend on call history; operations never change their operands.

The quantifier over call histories is reduced (DESIGN 5/C10) to per-function obligations decided statically on the real
AST: (H1) no public operation writes anything but declared memo slots (frame), (H2/H3) every function returns one kind
of value on all paths (kind), no value is picked from a set by iteration order (order), objects with value equality
are not compared by identity (identity: the answer would depend on the Parent cache).  A bounded native tier compares
exercised objects with fresh twins and snapshots operands around operations."""
import itertools

from pyvc.spec import *  # noqa
from pyvc.sources import NS

CORE = ["location.location_impl.SingleInterval", "location.location_impl.CompoundInterval",
        "location.location_impl._EmptyLocation", "location.location.Location", "parent.parent.Parent",
        "sequence.sequence.Sequence", "gene.interval.AbstractInterval", "gene.interval.AbstractFeatureInterval",
        "gene.interval.AbstractFeatureIntervalCollection", "gene.transcript.TranscriptInterval",
        "gene.feature.FeatureInterval", "gene.feature.FeatureIntervalCollection", "gene.cds.CDSInterval",
        "gene.gene.GeneInterval", "gene.variants.VariantInterval", "gene.variants.VariantIntervalCollection",
        "gene.collections.AnnotationCollection", "io.gff3.rows.GFFAttributes", "io.gff3.rows.GFFRow"]


def _stale_sites():
    from .frames import STALE_MEMO_SITES
    return dict(STALE_MEMO_SITES)


class FrameKind(Case):
    props = ("C10",)
    name = "frame / kind / order / identity obligations on every public method of the core classes"
    func = "gene.interval.AbstractFeatureInterval._merge_qualifiers"
    static = dict(classes=CORE, kinds=("frame", "kind", "order", "identity"), accepted={}, known=_stale_sites(),
                  # module-level helpers that work on their operands' block lists / qualifier containers
                  functions=["location.location_impl._union_preserve_overlaps", "util.hashing._order_set",
                             "util.hashing._order_dict_of_possible_sets", "util.hashing._encode_object_for_digest",
                             "util.hashing.digest_object", "io.features.merge_qualifiers",
                             "io.features.extract_feature_name_id", "io.parser.seq_chunk_to_parent",
                             "io.parser.seq_to_parent"])
    # (io.features.extract_feature_types is NOT listed: its first parameter is a documented accumulator)


class TblOrder(Case):
    props = ("C17", "C10")
    name = "order obligations in the NCBI table writer"
    func = "io.ncbi.tbl_writer.CDSTblFeature.__init__"
    static = dict(classes=[], functions=["io.ncbi.tbl_writer.CDSTblFeature.__init__",
                                         "io.ncbi.tbl_writer.GeneTblFeature.__init__",
                                         "io.ncbi.tbl_writer.TblFeature.extract_dbxref_synonyms",
                                         "io.ncbi.tbl_writer.TblGene.__init__"],
                  kinds=("order",),
                  accepted={},
                  # F-C17-2: the product is taken from a set by iteration order
                  known={"io.ncbi.tbl_writer.CDSTblFeature.__init__/order:list(transcript.qualifiers['product'])[0]":
                         "F-C17-2"})


# ---- bounded native tier: fresh twin vs exercised object; operand snapshots ------------------------------------------
GENOME = "ATGCCGTAAGCTTGAACGTTAGCATGGCCTAGGATCCAGT"

READS = [
    ("dict", lambda o: repr(o.to_dict())),
    ("guid", lambda o: str(o.guid)),
    ("hash-eq", lambda o: (o == o)),
    ("spliced", lambda o: str(o.get_spliced_sequence())),
    ("cds-seq", lambda o: _k(o.cds.extract_sequence()) if getattr(o, "cds", None) is not None else None),
    ("codons", lambda o: repr([str(c) for c in o.cds.chunk_relative_codon_locations])
     if getattr(o, "cds", None) is not None else None),
    ("protein", lambda o: _k(o.get_protein_sequence()) if getattr(o, "cds", None) is not None else None),
    ("location", lambda o: repr(o.chromosome_location)),
    ("blocks", lambda o: repr([str(b) for b in o.blocks])),
    ("gff", lambda o: "\\n".join(str(r) for r in o.to_gff(parent_qualifiers={"note": {"zzz"}}))),
    ("bed", lambda o: str(o.to_bed12())),
    ("qualifiers", lambda o: repr(sorted((k, sorted(v)) for k, v in o.export_qualifiers().items()))),
]


def _k(v):
    """value AND type: an answer that changes type with history is a violation."""
    return f"{type(v).__name__}:{v}"


def mk_tx():
    from inscripta.biocantor.gene import TranscriptInterval, CDSFrame
    from inscripta.biocantor.location.strand import Strand
    from inscripta.biocantor.io.parser import seq_to_parent
    return TranscriptInterval([2, 12], [8, 30], Strand.PLUS, cds_starts=[3, 12], cds_ends=[8, 22],
                              cds_frames=[CDSFrame.ZERO, CDSFrame.TWO], qualifiers={"note": ["n1"], "product": ["p"]},
                              transcript_id="t1", transcript_symbol="sym", sequence_name="chr1",
                              parent_or_seq_chunk_parent=seq_to_parent(GENOME, seq_id="chr1"))


class HistoryTwins(Case):
    props = ("C10",)
    proved = False
    name = "bounded: answers after any history of <= 3 read-only calls = answers of a fresh twin (value and type)"
    func = "gene.cds.CDSInterval.extract_sequence"
    scope = "one coding two-exon transcript with sequence; 12 read-only questions; all sequences of length <= 2 " \
            "(quick) / <= 3 (thorough) followed by every question; 1100 unrelated Parent constructions in between " \
            "to evict the global Parent cache"
    call = "_probe(history, last)"
    ensures = {"same-answer-as-fresh-twin": lambda i, r: r[0] == r[1],
               "operand-unchanged": lambda i, r: r[2] == r[3]}

    def inputs(self, S):
        reads = dict(READS)
        history, last = S.const("history"), S.const("last")

        def _probe(history, last):
            from inscripta.biocantor.parent import Parent
            fresh = reads[last](mk_tx())
            o = mk_tx()
            before = (repr(o.to_dict()), str(o.guid), repr(sorted((k, sorted(v)) for k, v in o.qualifiers.items())))
            for h in history:
                reads[h](o)
            if S.const("evict"):
                for k in range(1100):
                    Parent(id=f"evict{k}")
            got = reads[last](o)
            after = (repr(o.to_dict()), str(o.guid), repr(sorted((k, sorted(v)) for k, v in o.qualifiers.items())))
            return got, fresh, before, after

        return NS(history=history, last=last, _probe=_probe)

    def domain(self, tier):
        names = [n for n, _ in READS]
        depth = 2 if tier == "quick" else 3
        for n in range(0, depth + 1):
            for h in itertools.product(names, repeat=n):
                if tier == "quick" and n == 2 and h[0] == h[1]:
                    continue
                for last in names:
                    yield dict(history=list(h), last=last, evict=(n == 1 and h[0] == "location"))


class LocationOperands(Case):
    props = ("C10",)
    proved = False
    name = "bounded: location arithmetic leaves its operands unchanged"
    func = "location.location_impl.CompoundInterval.union"
    scope = "all ordered pairs of 12 locations (single / compound, both strands, with parent sequence); 9 operations"
    call = "_run(a, b, op)"
    ensures = {"operands-unchanged": lambda i, r: r}

    def inputs(self, S):
        from inscripta.biocantor.location.location_impl import SingleInterval, CompoundInterval
        from inscripta.biocantor.location.strand import Strand
        from inscripta.biocantor.sequence import Sequence
        from inscripta.biocantor.sequence.alphabet import Alphabet
        seq = Sequence(GENOME, Alphabet.NT_STRICT, id="chr1", type="chromosome")

        def mk(spec):
            blocks, strand = spec
            st = Strand[strand]
            if len(blocks) == 1:
                return SingleInterval(blocks[0][0], blocks[0][1], st, seq)
            return CompoundInterval([b[0] for b in blocks], [b[1] for b in blocks], st, seq)

        def snap(x):
            return (repr(x), hash(x), str(x.extract_sequence()), [str(b) for b in x.blocks], x == x)

        ops = {
            "union": lambda a, b: a.union(b), "intersection": lambda a, b: a.intersection(b),
            "minus": lambda a, b: a.minus(b), "has_overlap": lambda a, b: a.has_overlap(b),
            "contains": lambda a, b: a.contains(b), "relative": lambda a, b: a.location_relative_to(b),
            "distance": lambda a, b: a.distance_to(b), "optimize": lambda a, b: (a.optimize_blocks(), b.gap_list()),
            "reverse": lambda a, b: (a.reverse(), b.reverse_strand(), a.extend_absolute(1, 1)),
        }

        def _run(a, b, op):
            x, y = mk(a), mk(b)
            s0 = (snap(x), snap(y))
            try:
                ops[op](x, y)
            except Exception:
                pass
            return (snap(x), snap(y)) == s0

        return NS(a=S.const("a"), b=S.const("b"), op=S.const("op"), _run=_run)

    def domain(self, tier):
        locs = [([(2, 8)], "PLUS"), ([(2, 8)], "MINUS"), ([(5, 12)], "PLUS"), ([(2, 5), (8, 12)], "PLUS"),
                ([(2, 5), (8, 12)], "MINUS"), ([(1, 3), (3, 6)], "PLUS"), ([(0, 4), (2, 9)], "PLUS"),
                ([(10, 20)], "PLUS"), ([(3, 3), (4, 7)], "PLUS"), ([(1, 2), (4, 5), (7, 9)], "MINUS"),
                ([(6, 9)], "MINUS"), ([(0, 1), (30, 35)], "PLUS")]
        for a in locs:
            for b in locs:
                for op in ("union", "intersection", "minus", "has_overlap", "contains", "relative", "distance",
                           "optimize", "reverse"):
                    yield dict(a=a, b=b, op=op)


CASES = [FrameKind(), TblOrder(), HistoryTwins(), LocationOperands()]
