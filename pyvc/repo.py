"""Extraction: load the real source of /repo on every run.

Reads every ``inscripta/biocantor/**/*.py`` file from the working tree (or from an in-memory override, which is how
canary mutants are applied), parses it with ``ast`` and builds the tables the symbolic executor needs: module-level
functions, classes (bases, methods, properties, class-level assignments, decorators), module constants and import
aliases.  Nothing is imported or executed here.
"""
import ast
import hashlib
import os

REPO_ROOT = os.environ.get("PYVC_REPO", "/repo")
PKG_PREFIX = "inscripta.biocantor"


class FuncInfo:
    def __init__(self, node, module, cls=None, outer=None):
        self.node = node
        self.module = module  # ModuleInfo
        self.cls = cls  # ClassInfo or None
        self.outer = outer
        self.name = node.name
        self.decorators = [ast.unparse(d) for d in node.decorator_list]
        self.is_static = "staticmethod" in self.decorators
        self.is_classmethod = "classmethod" in self.decorators
        self.is_property = "property" in self.decorators
        self.is_generator = any(isinstance(n, (ast.Yield, ast.YieldFrom)) for n in _walk_no_nested(node))

    @property
    def qualname(self):
        q = self.name
        if self.cls is not None:
            q = self.cls.name + "." + q
        return self.module.short + "." + q

    def __repr__(self):
        return f"<FuncInfo {self.qualname}>"


def _walk_no_nested(fn_node):
    """Walk a function body without descending into nested function/class definitions or lambdas."""
    stack = list(fn_node.body)
    while stack:
        n = stack.pop()
        yield n
        for c in ast.iter_child_nodes(n):
            if isinstance(c, (ast.FunctionDef, ast.AsyncFunctionDef, ast.ClassDef, ast.Lambda)):
                continue
            stack.append(c)


class ClassInfo:
    def __init__(self, node, module):
        self.node = node
        self.module = module
        self.name = node.name
        self.base_exprs = [ast.unparse(b) for b in node.bases]
        self.methods = {}  # name -> FuncInfo (last definition wins, as in Python)
        self.class_assigns = {}  # name -> ast expr
        self.member_order = []
        self.decorators = [ast.unparse(d) for d in node.decorator_list]
        for st in node.body:
            if isinstance(st, ast.FunctionDef):
                self.methods[st.name] = FuncInfo(st, module, cls=self)
            elif isinstance(st, ast.Assign):
                for t in st.targets:
                    if isinstance(t, ast.Name):
                        self.class_assigns[t.id] = st.value
                        self.member_order.append(t.id)
            elif isinstance(st, ast.AnnAssign) and isinstance(st.target, ast.Name) and st.value is not None:
                self.class_assigns[st.target.id] = st.value
                self.member_order.append(st.target.id)
        self._bases = None
        self._mro = None

    @property
    def qualname(self):
        return self.module.short + "." + self.name

    def bases(self, repo):
        if self._bases is None:
            out = []
            for b in self.base_exprs:
                tgt = repo.resolve_global(self.module, b.split(".")[-1]) if "." not in b else None
                if isinstance(tgt, ClassInfo):
                    out.append(tgt)
                else:
                    out.append(b)  # external base, kept by name (Enum, IntEnum, Exception, ABC, str ...)
            self._bases = out
        return self._bases

    def mro(self, repo):
        if self._mro is None:
            res = [self]
            for b in self.bases(repo):
                if isinstance(b, ClassInfo):
                    for c in b.mro(repo):
                        if c not in res:
                            res.append(c)
            self._mro = res
        return self._mro

    def external_bases(self, repo):
        out = []
        for c in self.mro(repo):
            for b in c.bases(repo):
                if not isinstance(b, ClassInfo):
                    out.append(b)
        return out

    def is_enum(self, repo):
        return any(b in ("Enum", "IntEnum", "enum.Enum", "enum.IntEnum") for b in self.external_bases(repo))

    def is_int_enum(self, repo):
        return any(b in ("IntEnum", "enum.IntEnum") for b in self.external_bases(repo))

    def is_str_enum(self, repo):
        return self.is_enum(repo) and "str" in self.external_bases(repo)

    def is_exception(self, repo):
        return any(b in BUILTIN_EXC_PARENT for b in self.external_bases(repo))

    def find_method(self, repo, name):
        for c in self.mro(repo):
            if name in c.methods:
                return c.methods[name]
        return None

    def find_class_attr(self, repo, name):
        for c in self.mro(repo):
            if name in c.class_assigns:
                return c, c.class_assigns[name]
        return None

    def is_subclass_of(self, repo, other):
        return other in self.mro(repo)

    def __repr__(self):
        return f"<ClassInfo {self.qualname}>"


# builtin exception hierarchy (child -> parent), enough for except-clause matching
BUILTIN_EXC_PARENT = {
    "BaseException": None,
    "Exception": "BaseException",
    "ArithmeticError": "Exception",
    "ZeroDivisionError": "ArithmeticError",
    "LookupError": "Exception",
    "IndexError": "LookupError",
    "KeyError": "LookupError",
    "ValueError": "Exception",
    "TypeError": "Exception",
    "AttributeError": "Exception",
    "StopIteration": "Exception",
    "NotImplementedError": "RuntimeError",
    "RuntimeError": "Exception",
    "RecursionError": "RuntimeError",
    "AssertionError": "Exception",
    "UserWarning": "Warning",
    "Warning": "Exception",
}


class ModuleInfo:
    def __init__(self, path, short, source):
        self.path = path
        self.short = short  # dotted name below inscripta.biocantor, "" for the package root
        self.source = source
        self.sha256 = hashlib.sha256(source.encode()).hexdigest()
        self.tree = ast.parse(source)
        self.functions = {}
        self.classes = {}
        self.assigns = {}  # module-level NAME = expr (last wins)
        self.imports = {}  # local name -> (module dotted name, attr or None)
        self._scan(self.tree.body)

    def _scan(self, body):
        for st in body:
            if isinstance(st, ast.FunctionDef):
                self.functions[st.name] = FuncInfo(st, self)
            elif isinstance(st, ast.ClassDef):
                self.classes[st.name] = ClassInfo(st, self)
            elif isinstance(st, ast.Assign):
                for t in st.targets:
                    if isinstance(t, ast.Name):
                        self.assigns[t.id] = st.value
            elif isinstance(st, ast.AnnAssign) and isinstance(st.target, ast.Name) and st.value is not None:
                self.assigns[st.target.id] = st.value
            elif isinstance(st, ast.ImportFrom):
                for a in st.names:
                    self.imports[a.asname or a.name] = (st.module, a.name)
            elif isinstance(st, ast.Import):
                for a in st.names:
                    self.imports[a.asname or a.name.split(".")[0]] = (a.name, None)
            elif isinstance(st, ast.Try):
                self._scan(st.body)
                # the ``else`` of ``try: import cgranges`` sets HAS_CGRANGES = True; cgranges is absent in this
                # environment, so the handler branch is the one that runs.
                for h in st.handlers:
                    self._scan(h.body)


class Repo:
    def __init__(self, root=None, overrides=None):
        self.root = root or REPO_ROOT
        self.overrides = overrides or {}
        self.modules = {}
        pkg = os.path.join(self.root, "inscripta", "biocantor")
        for dirpath, _dirs, files in os.walk(pkg):
            for f in sorted(files):
                if not f.endswith(".py"):
                    continue
                path = os.path.join(dirpath, f)
                rel = os.path.relpath(path, pkg)
                short = rel[:-3].replace(os.sep, ".")
                if short.endswith("__init__"):
                    short = short[: -len("__init__")].rstrip(".")
                relkey = os.path.relpath(path, self.root)
                if relkey in self.overrides:
                    src = self.overrides[relkey]
                else:
                    with open(path, encoding="utf-8") as fh:
                        src = fh.read()
                try:
                    self.modules[short] = ModuleInfo(relkey, short, src)
                except SyntaxError:
                    raise
        self.files_read = set()

    # ---- lookup -------------------------------------------------------------------------------------------------
    def module(self, short):
        m = self.modules[short]
        self.files_read.add(m.path)
        return m

    def _mod_from_dotted(self, dotted):
        if dotted is None:
            return None
        if dotted == PKG_PREFIX:
            return self.modules.get("")
        if dotted.startswith(PKG_PREFIX + "."):
            return self.modules.get(dotted[len(PKG_PREFIX) + 1 :])
        return None

    def resolve_global(self, module, name, _depth=0):
        """Resolve a global name used in ``module`` to FuncInfo / ClassInfo / ('const', module, expr) /
        ('module', ModuleInfo) / ('external', dotted, attr) / None."""
        if _depth > 8:
            return None
        if name in module.functions:
            return module.functions[name]
        if name in module.classes:
            return module.classes[name]
        if name in module.assigns:
            return ("const", module, module.assigns[name])
        if name in module.imports:
            dotted, attr = module.imports[name]
            m = self._mod_from_dotted(dotted)
            if m is not None:
                self.files_read.add(m.path)
                if attr is None:
                    return ("module", m)
                r = self.resolve_global(m, attr, _depth + 1)
                if r is not None:
                    return r
                sub = self._mod_from_dotted(dotted + "." + attr)
                if sub is not None:
                    return ("module", sub)
                return None
            return ("external", dotted, attr)
        return None

    def find(self, qual):
        """``location.location_impl.SingleInterval.parent_to_relative_pos`` -> FuncInfo (or ClassInfo)."""
        parts = qual.split(".")
        for i in range(len(parts), 0, -1):
            short = ".".join(parts[:i])
            if short in self.modules:
                m = self.module(short)
                rest = parts[i:]
                if not rest:
                    return m
                if rest[0] in m.classes:
                    c = m.classes[rest[0]]
                    if len(rest) == 1:
                        return c
                    f = c.methods.get(rest[1])
                    if f is None:
                        raise KeyError(qual)
                    return f
                if rest[0] in m.functions and len(rest) == 1:
                    return m.functions[rest[0]]
                raise KeyError(qual)
        if parts[0] in self.modules[""].classes or parts[0] in self.modules[""].functions:
            m = self.module("")
            if parts[0] in m.classes:
                c = m.classes[parts[0]]
                return c if len(parts) == 1 else c.methods[parts[1]]
            return m.functions[parts[0]]
        raise KeyError(qual)

    def find_class(self, name):
        """Find a class by bare name anywhere in the package (unique names only)."""
        hits = [m.classes[name] for m in self.modules.values() if name in m.classes]
        if len(hits) != 1:
            raise KeyError(f"class {name}: {len(hits)} definitions")
        self.files_read.add(hits[0].module.path)
        return hits[0]

    def hashes(self):
        return {m.path: m.sha256 for m in self.modules.values() if m.path in self.files_read}

    def exception_parent(self, name):
        """Parent class name of an exception class name (repo or builtin), or None."""
        if name in BUILTIN_EXC_PARENT:
            return BUILTIN_EXC_PARENT[name]
        try:
            c = self.find_class(name)
        except KeyError:
            return "Exception"
        for b in c.bases(self):
            return b.name if isinstance(b, ClassInfo) else b
        return "Exception"

    def exception_is_a(self, name, ancestor):
        seen = 0
        while name is not None and seen < 20:
            if name == ancestor:
                return True
            name = self.exception_parent(name)
            seen += 1
        return False
