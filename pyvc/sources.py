"""Input sources: the same ``Case.inputs`` text builds symbolic inputs (proof), concrete engine inputs (CPython
cross-check of the encoding) and real objects (native replay / bounded tier)."""
import importlib

try:
    import z3
except Exception:
    z3 = None


class Skip(Exception):
    """The sampled primitives do not satisfy ``requires``."""


class NS:
    def __init__(*args, **kw):
        args[0].__dict__.update(kw)

    def __repr__(self):
        return "NS(" + ", ".join(f"{k}={v!r}" for k, v in self.__dict__.items()) + ")"


PKG = "inscripta.biocantor."


class NativeSource:
    mode = "native"

    def __init__(self, prims):
        self.prims = prims

    def int(self, name):
        return int(self.prims[name])

    def bool(self, name):
        return bool(self.prims[name])

    def enum(self, clsqual, name):
        cls = self.cls(clsqual)
        return cls[self.prims[name]]

    def intlist(self, name, length=None):
        return list(self.prims[name])

    def const(self, name):
        return self.prims[name]

    def symstr(self, name, alphabet="ACGT"):
        return str(self.prims[name])

    def enum_const(self, clsqual, member):
        return self.cls(clsqual)[member]

    def assume(self, cond):
        if not cond:
            raise Skip()

    def cls(self, qual):
        mod, _, cname = qual.rpartition(".")
        m = importlib.import_module(PKG + mod if mod else "inscripta.biocantor")
        return getattr(m, cname)

    def new(self, qual, *args, **kw):
        return self.cls(qual)(*args, **kw)

    def fn(self, qual):
        mod, _, name = qual.rpartition(".")
        try:
            m = importlib.import_module(PKG + mod)
            return getattr(m, name)
        except ModuleNotFoundError:
            mod2, _, cname = mod.rpartition(".")
            return getattr(getattr(importlib.import_module(PKG + mod2), cname), name)

    def none(self):
        return None

    def facade(self, **attrs):
        """plain record object with exactly these attributes (stands for third-party objects such as PyVCF records)."""
        import types
        return types.SimpleNamespace(**attrs)

    def text_sink(self):
        """writable text file object (io.StringIO natively; in the verifier a sink that records what print(...,
        file=sink) renders)."""
        import io
        return io.StringIO()

    _TOLERANT = {}

    def tolerant_module(self, modqual):
        """A repo module that cannot be IMPORTED in this environment (a third-party import fails), loaded mechanically
        from its file: every top-level statement of the file is executed in order in one namespace; an import statement
        that FAILS binds the names it would have bound to inert placeholder classes, any other top-level statement that
        raises is skipped.  The text that runs is the repository's; what is dropped is exactly the list returned in
        ``module.__dropped__`` (failing imports, skipped statements)."""
        import ast, os, types
        if modqual in NativeSource._TOLERANT:
            return NativeSource._TOLERANT[modqual]
        path = os.path.join(os.getcwd(), "inscripta", "biocantor", *modqual.split(".")) + ".py"
        tree = ast.parse(open(path, encoding="utf-8").read())
        mod = types.ModuleType("tolerant_" + modqual.replace(".", "_"))
        mod.__file__ = path
        ns = mod.__dict__
        ns["__name__"] = "inscripta.biocantor." + modqual
        dropped = []
        import sys as _sys
        _sys.modules.setdefault(mod.__name__, mod)  # dataclasses look the defining module up by name
        for node in tree.body:
            code = compile(ast.Module(body=[node], type_ignores=[]), path, "exec")
            try:
                exec(code, ns)
            except Exception as ex:
                if isinstance(node, (ast.Import, ast.ImportFrom)):
                    for al in node.names:
                        nm = (al.asname or al.name).split(".")[0]
                        ns[nm] = type(nm, (), {"__doc__": "placeholder for a name whose import failed"})
                    dropped.append(f"import line {node.lineno}: {type(ex).__name__}")
                else:
                    dropped.append(f"statement line {node.lineno}: {type(ex).__name__}: {ex}")
        mod.__dropped__ = dropped
        NativeSource._TOLERANT[modqual] = mod
        return mod

    def extracted_fn(self, qual, stubs):
        """The function ``qual`` of a repo module that cannot be IMPORTED in this environment (missing third-party
        package), extracted mechanically: its FunctionDef is cut out of the file's AST and compiled in a namespace
        holding the standard-library modules it uses plus ``stubs`` for the third-party names.  The text that runs is
        the repository's; only the import statements of the module are dropped."""
        import ast, itertools, warnings, os, re
        mod, _, name = qual.rpartition(".")
        path = os.path.join(os.getcwd(), "inscripta", "biocantor", *mod.split(".")) + ".py"
        tree = ast.parse(open(path, encoding="utf-8").read())
        fn = [n for n in tree.body if isinstance(n, ast.FunctionDef) and n.name == name][0]
        fn.returns = None
        for a in fn.args.args + fn.args.kwonlyargs:
            a.annotation = None
        ns = dict(itertools=itertools, warnings=warnings, re=re)
        ns.update(stubs)
        exec(compile(ast.Module(body=[fn], type_ignores=[]), path, "exec"), ns)
        return ns[name]


class EngineSource:
    """Symbolic (prims is None) or concrete-in-engine (prims given) inputs."""

    def __init__(self, engine, prims=None):
        self.e = engine
        self.prims = prims
        self.mode = "sym" if prims is None else "concrete"
        self.scope = None  # finite-scope refutation mode: sequence lengths fixed to this number
        self.decl = {}  # name -> ('int'|'bool'|'enum'|'intlist', payload)

    def int(self, name):
        if self.prims is not None:
            return int(self.prims[name])
        v = z3.Int(name)
        self.decl[name] = ("int", v)
        return v

    def bool(self, name):
        if self.prims is not None:
            return bool(self.prims[name])
        v = z3.Bool(name)
        self.decl[name] = ("bool", v)
        return v

    def enum(self, clsqual, name):
        cls = self.e.repo.find(clsqual)
        if self.prims is not None:
            return self.e.enum_member(cls, self.prims[name])
        v = self.e.enum_sym(cls, name)
        self.decl[name] = ("enum", v)
        return v

    def intlist(self, name, length=None):
        from .values import SList
        if self.prims is not None:
            return list(self.prims[name])
        if self.scope is not None:
            vals = [z3.Int(f"{name}_{k}") for k in range(self.scope)]
            self.decl[name] = ("fixedlist", vals)
            return vals
        if length is not None:
            ln = length
        else:
            ln = z3.Int(name + "_len")
            self.e.assume(ln >= 0)
        arr = z3.Array(name, z3.IntSort(), z3.IntSort())
        v = SList((arr,), ln)
        self.decl[name] = ("intlist", (arr, ln))
        return v

    def const(self, name):
        return self.prims[name] if self.prims is not None else None

    def symstr(self, name, alphabet="ACGT"):
        """String over ``alphabet`` with symbolic length and content (code points in an array)."""
        from .values import SymStr
        if self.prims is not None:
            return str(self.prims[name])
        ln = z3.Int(name + "_len")
        self.e.assume(ln >= 0)
        arr = z3.Array(name, z3.IntSort(), z3.IntSort())
        j = z3.Int(name + "!j")
        codes = [ord(c) for c in alphabet]
        self.e.assume(z3.ForAll([j], z3.Or(*[z3.Select(arr, j) == c for c in codes])))
        self.decl[name] = ("symstr", (arr, ln, alphabet))
        st = SymStr(arr, ln)
        st.alphabet = alphabet
        return st

    def enum_const(self, clsqual, member):
        return self.e.enum_member(self.e.repo.find(clsqual), member)

    def assume(self, cond):
        if isinstance(cond, bool):
            if not cond:
                if self.prims is not None:
                    raise Skip()
                from .values import PathAbort
                raise PathAbort()
            return
        self.e.assume(cond)

    def cls(self, qual):
        from .values import ClassRef
        return ClassRef(self.e.repo.find(qual))

    def new(self, qual, *args, **kw):
        return self.e.instantiate(self.e.repo.find(qual), list(args), kw)

    def fn(self, qual):
        from .values import FuncVal
        return FuncVal(self.e.repo.find(qual))

    def none(self):
        return None

    def facade(self, **attrs):
        from .values import Opaque
        return Opaque("facade", attrs=dict(attrs))

    def text_sink(self):
        from .values import Opaque
        return Opaque("text_sink", attrs={"$lines": []})

    def extracted_fn(self, qual, stubs):
        return self.fn(qual)  # the engine reads the AST; nothing is imported

    def nested_fn(self, outer_qual, name, closure_locals):
        """A function defined inside ``outer_qual`` with the given closure variables (engine only)."""
        import ast
        from .values import FuncVal
        from .repo import FuncInfo
        from .symex import Frame
        outer = self.e.repo.find(outer_qual)
        node = [n for n in ast.walk(outer.node) if isinstance(n, ast.FunctionDef) and n.name == name
                and n is not outer.node][0]
        fi = FuncInfo(node, outer.module, cls=None, outer=outer)
        fv = FuncVal(fi, closure=Frame(outer, outer.module, dict(closure_locals)))
        fv.closure.locals[name] = fv  # the function can refer to itself through the enclosing scope
        return fv

    def bound_constraints(self, bound):
        """|x| <= bound for every declared integer input / length (used to look for a SMALL counterexample)."""
        cs = []
        for name, (kind, v) in self.decl.items():
            if kind == "int":
                cs.append(z3.And(v >= -bound, v <= bound))
            elif kind == "intlist":
                arr, ln = v
                cs.append(ln <= min(bound, 6))
                j = z3.Int("bnd!j")
                cs.append(z3.ForAll([j], z3.And(z3.Select(arr, j) >= -bound, z3.Select(arr, j) <= bound)))
            elif kind == "fixedlist":
                cs += [z3.And(x >= -bound, x <= bound) for x in v]
            elif kind == "symstr":
                cs.append(v[1] <= bound)
        return cs

    # ---- model -> primitives
    def prims_from_model(self, model):
        out = {}
        for name, (kind, v) in self.decl.items():
            if kind == "int":
                out[name] = model.eval(v, model_completion=True).as_long()
            elif kind == "bool":
                out[name] = z3.is_true(model.eval(v, model_completion=True))
            elif kind == "enum":
                idx = model.eval(v.idx, model_completion=True).as_long()
                out[name] = v.members[idx][0]
            elif kind == "fixedlist":
                out[name] = [model.eval(x, model_completion=True).as_long() for x in v]
            elif kind == "symstr":
                arr, ln, alphabet = v
                n = model.eval(ln, model_completion=True).as_long()
                n = max(0, min(n, 2000000))
                chars = []
                for i in range(min(n, 64)):
                    c = model.eval(z3.Select(arr, i), model_completion=True).as_long()
                    chars.append(chr(c) if chr(c) in alphabet else alphabet[0])
                # beyond the first characters the content is irrelevant to coordinate obligations: filled uniformly
                out[name] = "".join(chars) + alphabet[0] * (n - len(chars))
            elif kind == "intlist":
                arr, ln = v
                n = model.eval(ln, model_completion=True).as_long()
                n = max(0, min(n, 64))
                out[name] = [model.eval(z3.Select(arr, i), model_completion=True).as_long() for i in range(n)]
        return out
