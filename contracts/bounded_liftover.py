"""BOUNDED stand-ins for C03 / C04: multi-block extraction and multi-level lift-over, evaluated natively on the real
objects over an exhaustively enumerated small scope."""
import itertools
import random

from pyvc.spec import *  # noqa
from pyvc.sources import NS
from .bounded_location import layouts, mk, posset, poslist, SINGLE, COMPOUND, STRAND

SEQ = "sequence.sequence.Sequence"
PARENT = "parent.parent.Parent"
ALPHA = "sequence.alphabet.Alphabet"
COMP = {"A": "T", "C": "G", "G": "C", "T": "A", "N": "N", "a": "t", "c": "g", "g": "c", "t": "a", "n": "n",
        "R": "Y", "Y": "R", "K": "M", "M": "K", "S": "S", "W": "W", "B": "V", "V": "B", "D": "H", "H": "D"}


def loc_on(S, blocks, strand, parent):
    st = S.cls(STRAND)[strand]
    if len(blocks) == 1:
        return S.new(SINGLE, blocks[0][0], blocks[0][1], st, parent)
    return S.new(COMPOUND, [b[0] for b in blocks], [b[1] for b in blocks], st, parent)


def model_extract(text, blocks, strand):
    """i-th base = parent base at the i-th mapped position, complemented on the minus strand."""
    if strand == "PLUS":
        return "".join(text[p] for s, e in blocks for p in range(s, e))
    return "".join(COMP[text[p]] for s, e in reversed(blocks) for p in range(e - 1, s - 1, -1))


class Extract(Case):
    props = ("C03",)
    proved = False
    name = "bounded: extract_sequence is the base-by-base image of the coordinate map"
    func = COMPOUND + ".extract_sequence"
    scope = "all locations with <= 3 non-overlapping blocks (adjacent and empty included) on 3 sequences of length " \
            "6 (quick) / 7 (thorough) over ACGTN + IUPAC + lower case, alphabets NT_STRICT_UNKNOWN / NT_EXTENDED, both " \
            "strands"
    call = ("(str(loc.extract_sequence()), str(loc.reverse_strand().extract_sequence()), "
            "str(loc.extract_sequence().reverse_complement()), len(loc.extract_sequence()))")
    ensures = {
        "base-by-base": lambda i, r: r[0] == model_extract(i.text, i.blocks, i.strand),
        "reverse-strand-is-reverse-complement": lambda i, r: r[1] == r[2],
        "length": lambda i, r: r[3] == sum(e - s for s, e in i.blocks),
    }

    def inputs(self, S):
        alpha = S.cls(ALPHA)[S.const("alphabet")]
        seq = S.new(SEQ, S.const("text"), alpha, id="root", type="chromosome")
        loc = loc_on(S, S.const("blocks"), S.const("strand"), seq)
        return NS(loc=loc, text=S.const("text"), blocks=[tuple(b) for b in S.const("blocks")], strand=S.const("strand"))

    def domain(self, tier):
        L = 6 if tier == "quick" else 7
        texts = [("ACGTNA" + "C")[:L], ("acgTNg" + "t")[:L]]
        ext = ("RYKMSW" + "B")[:L]
        for lay in layouts(L, 3):
            if not any(e > s for s, e in lay):
                continue
            for strand in ("PLUS", "MINUS"):
                for t in texts:
                    yield dict(text=t, alphabet="NT_STRICT_UNKNOWN", blocks=lay, strand=strand)
                yield dict(text=ext, alphabet="NT_EXTENDED", blocks=lay, strand=strand)


class Split(Case):
    """splitting a location into consecutive relative sub-intervals splits its sequence."""
    props = ("C03",)
    proved = False
    name = "bounded: consecutive relative sub-intervals split the sequence"
    func = COMPOUND + ".extract_sequence"
    scope = "all locations with <= 2 blocks over a sequence of length 6, both strands, every split point"
    call = ("(str(loc.extract_sequence()), str(loc.relative_interval_to_parent_location(0, k, Strand.PLUS)"
            ".extract_sequence()), str(loc.relative_interval_to_parent_location(k, n, Strand.PLUS).extract_sequence()))")
    module = "location.location_impl"
    ensures = {"concatenation": lambda i, r: r[1] + r[2] == r[0]}

    def inputs(self, S):
        seq = S.new(SEQ, "ACGTTG", S.cls(ALPHA)["NT_STRICT"], id="root", type="chromosome")
        loc = loc_on(S, S.const("blocks"), S.const("strand"), seq)
        return NS(loc=loc, k=S.const("k"), n=len(loc))

    def domain(self, tier):
        for lay in layouts(6, 2, empties=False):
            n = sum(e - s for s, e in lay)
            for strand in ("PLUS", "MINUS"):
                for k in range(1, n):
                    yield dict(blocks=lay, strand=strand, k=k)


class SliceAppend(Case):
    """slicing and concatenating Sequence objects keeps the recorded location consistent with the characters."""
    props = ("C03",)
    proved = False
    name = "bounded: Sequence slice / append keep the recorded location consistent"
    func = SEQ + ".__getitem__"
    scope = "sequence extracted from every single-block location on a sequence of length 6 (both strands), every " \
            "slice [a:b], and every append of two adjacent slices"
    call = "(s[a:b], s[a:m].append(s[m:b]))"
    ensures = {
        "slice-characters": lambda i, r: str(r[0]) == i.text[i.a:i.b],
        "slice-location-matches-characters": lambda i, r: _loc_text(r[0], i.root) == str(r[0]),
        "append-characters": lambda i, r: str(r[1]) == i.text[i.a:i.b],
        "append-location-matches-characters": lambda i, r: _loc_text(r[1], i.root) == str(r[1]),
    }

    def inputs(self, S):
        root = "ACGTTG"
        alpha = S.cls(ALPHA)["NT_STRICT"]
        rootseq = S.new(SEQ, root, alpha, id="root", type="chromosome")
        st = S.cls(STRAND)[S.const("strand")]
        loc = S.new(SINGLE, S.const("s"), S.const("e"), st, rootseq)
        text = model_extract(root, [(S.const("s"), S.const("e"))], S.const("strand"))
        s = S.new(SEQ, text, alpha, type="piece", parent=S.new(PARENT, location=loc))
        return NS(s=s, a=S.const("a"), b=S.const("b"), m=S.const("m"), text=text, root=root)

    def domain(self, tier):
        for s in range(0, 6):
            for e in range(s + 2, 7):
                for strand in ("PLUS", "MINUS"):
                    n = e - s
                    for a in range(0, n):
                        for b in range(a + 2, n + 1):
                            for m in range(a + 1, b):
                                yield dict(s=s, e=e, strand=strand, a=a, b=b, m=m)


def _loc_text(seq, root):
    """characters the recorded location of ``seq`` on the root designates."""
    loc = seq.parent.location
    bl = [(b.start, b.end) for b in loc.blocks]
    return model_extract(root, bl, loc.strand.name)


class RevCompLocated(Case):
    """reverse_complement of a sequence that records a (multi-block) location keeps that record consistent with the
    characters; slices of it too."""
    props = ("C03",)
    proved = False
    name = "bounded: reverse_complement keeps the recorded location consistent (compound locations)"
    func = SEQ + ".reverse_complement"
    scope = "sequences placed by every location with <= 3 blocks (gaps 0-2) on a sequence of length 8, both strands"
    call = "(s.reverse_complement(), s.reverse_complement().reverse_complement())"
    ensures = {
        "characters": lambda i, r: str(r[0]) == "".join(COMP[c] for c in reversed(i.text)),
        "recorded-location-matches-characters": lambda i, r: _loc_text(r[0], i.root) == str(r[0]),
        "twice-is-identity": lambda i, r: str(r[1]) == i.text and _loc_text(r[1], i.root) == i.text,
    }

    def inputs(self, S):
        root = "ACGTTGCA"
        alpha = S.cls(ALPHA)["NT_STRICT"]
        rootseq = S.new(SEQ, root, alpha, id="root", type="chromosome")
        blocks = [tuple(b) for b in S.const("blocks")]
        loc = loc_on(S, blocks, S.const("strand"), rootseq)
        text = model_extract(root, blocks, S.const("strand"))
        s = S.new(SEQ, text, alpha, type="piece", parent=S.new(PARENT, location=loc))
        return NS(s=s, text=text, root=root)

    def domain(self, tier):
        for lay in layouts(8, 3, empties=False):
            for strand in ("PLUS", "MINUS"):
                yield dict(blocks=lay, strand=strand)


class TwoLevelLift(Case):
    props = ("C04",)
    proved = False
    name = "bounded: lift-over through nested coordinate systems composes and preserves sequence"
    func = "location.location.Location.lift_over_to_first_ancestor_of_type"
    scope = "hierarchies of depth 2 and 3: every level placed on its parent by a location with <= 2 blocks on either " \
            "strand, root length 7 (quick) / 8 (thorough); every child location with <= 2 blocks"
    call = ("(lambda lifted: (lifted, str(lifted.extract_sequence()), str(child.extract_sequence())))"
            "(child.lift_over_to_first_ancestor_of_type('root'))")
    ensures = {
        "composition-of-point-maps": lambda i, r: poslist(r[0]) == i.expected_positions,
        "strand-composition": lambda i, r: r[0].strand.value == i.expected_strand,
        "same-sequence": lambda i, r: r[1] == r[2],
        "on-root": lambda i, r: r[0].parent is not None and r[0].parent.id == "root",
    }

    def inputs(self, S):
        alpha = S.cls(ALPHA)["NT_STRICT"]
        rootseq = S.new(SEQ, S.const("text"), alpha, id="root", type="root")
        levels = S.const("levels")  # [(blocks, strand)] from the root downwards
        parent_obj = S.new(PARENT, id="root", sequence=rootseq)
        cur_seq = rootseq
        maps = []
        text = S.const("text")
        for depth, (blocks, strand) in enumerate(levels):
            loc = loc_on(S, blocks, strand, parent_obj)
            text = model_extract(text, [tuple(b) for b in blocks], strand)
            maps.append(loc)
            name = f"l{depth + 1}"
            # the level's sequence sits on its parent at ``loc``; the parent carries its own sequence
            seq = S.new(SEQ, text, alpha, id=name, type=name, parent=S.new(PARENT, location=loc, sequence=cur_seq))
            parent_obj = S.new(PARENT, id=name, sequence=seq)
            cur_seq = seq
        cb, cstrand = S.const("child")
        child = loc_on(S, cb, cstrand, parent_obj)
        pos = poslist(child)
        sign = child.strand.value
        for loc in reversed(maps):
            pos = [loc.relative_to_parent_pos(p) for p in pos]
            sign *= loc.strand.value
        return NS(child=child, expected_positions=pos, expected_strand=sign)

    def domain(self, tier):
        L = 7 if tier == "quick" else 8
        rng = random.Random(5)
        text = "ACGTTGCA"[:L]
        lay1 = [l for l in layouts(L, 2, empties=False) if sum(e - s for s, e in l) >= 3]
        if tier == "quick":
            lay1 = lay1[::3]
        for l1 in lay1:
            n1 = sum(e - s for s, e in l1)
            for s1 in ("PLUS", "MINUS"):
                children = layouts(n1, 2, empties=False)
                if tier == "quick":
                    children = children[::2]
                for c in children:
                    for cs in ("PLUS", "MINUS"):
                        yield dict(text=text, levels=[[l1, s1]], child=[c, cs])
                # depth 3: a second level inside the first
                for l2 in [l for l in layouts(n1, 2, empties=False) if sum(e - s for s, e in l) >= 2][::4]:
                    n2 = sum(e - s for s, e in l2)
                    for s2 in ("PLUS", "MINUS"):
                        for c in layouts(n2, 2, empties=False)[::2]:
                            yield dict(text=text, levels=[[l1, s1], [l2, s2]], child=[c, rng.choice(["PLUS", "MINUS"])])


class NoAncestor(Case):
    props = ("C04", "C19")
    proved = False
    name = "bounded: lift-over without such an ancestor is refused"
    func = "location.location.Location.lift_over_to_first_ancestor_of_type"
    scope = "locations without parent, with a parent of another type, and with a two-level chain lacking the type"
    call = "loc.lift_over_to_first_ancestor_of_type('nosuchtype')"
    raises = {"NoSuchAncestorException": lambda i: True}
    allow_uncovered = ("return",)

    def inputs(self, S):
        alpha = S.cls(ALPHA)["NT_STRICT"]
        kind = S.const("kind")
        st = S.cls(STRAND)["PLUS"]
        if kind == "none":
            return NS(loc=S.new(SINGLE, 1, 3, st))
        rootseq = S.new(SEQ, "ACGTAC", alpha, id="root", type="root")
        if kind == "one":
            return NS(loc=S.new(SINGLE, 1, 3, st, rootseq))
        l1 = S.new(SINGLE, 1, 5, st, rootseq)
        seq = S.new(SEQ, "CGTA", alpha, id="l1", type="l1", parent=S.new(PARENT, location=l1))
        return NS(loc=S.new(SINGLE, 1, 3, st, seq))

    def domain(self, tier):
        for k in ("none", "one", "two"):
            yield dict(kind=k)


CASES = [Extract(), Split(), SliceAppend(), RevCompLocated(), TwoLevelLift(), NoAncestor()]
