"""BOUNDED stand-ins for C09 / C08 / C20: whole annotation collections evaluated natively on the real objects."""
import itertools

from pyvc.spec import *  # noqa
from pyvc.sources import NS

GENOME = "ATGCCGTAAGCTTGAACGTTAGCATGGCCTAGGATCCAGT"


def build_collection(spec, with_seq=True, chunk=None):
    """spec: list of members: ('gene', id, [(tx_id, [(s,e),...], cds_or_None, strand)]) or
    ('fc', id, [(feat_id, [(s,e),...], strand)])."""
    from inscripta.biocantor.gene import (AnnotationCollection, GeneInterval, TranscriptInterval, FeatureInterval,
                                          FeatureIntervalCollection, CDSFrame, CDSInterval)
    from inscripta.biocantor.location.strand import Strand
    from inscripta.biocantor.io.parser import seq_to_parent, seq_chunk_to_parent
    parent = None
    if chunk is not None:
        parent = seq_chunk_to_parent(GENOME[chunk[0]:chunk[1]], "chr1", chunk[0], chunk[1])
    elif with_seq:
        parent = seq_to_parent(GENOME, seq_id="chr1")
    genes, fcs = [], []
    for m in spec:
        if m[0] == "gene":
            txs = []
            for tid, blocks, cds, strand in m[2]:
                kw = {}
                if cds is not None:
                    cb = [(max(s, cds[0]), min(e, cds[1])) for s, e in blocks if max(s, cds[0]) < min(e, cds[1])]
                    loc_frames = CDSInterval.construct_frames_from_location
                    from inscripta.biocantor.location.location_impl import CompoundInterval, SingleInterval
                    st = Strand[strand]
                    loc = (SingleInterval(cb[0][0], cb[0][1], st) if len(cb) == 1 else
                           CompoundInterval([b[0] for b in cb], [b[1] for b in cb], st))
                    kw = dict(cds_starts=[b[0] for b in cb], cds_ends=[b[1] for b in cb],
                              cds_frames=loc_frames(loc, CDSFrame.ZERO))
                txs.append(TranscriptInterval([b[0] for b in blocks], [b[1] for b in blocks], Strand[strand],
                                              transcript_id=tid, sequence_name="chr1", parent_or_seq_chunk_parent=parent,
                                              qualifiers={"note": [tid]}, **kw))
            genes.append(GeneInterval(txs, gene_id=m[1], sequence_name="chr1", parent_or_seq_chunk_parent=parent))
        else:
            feats = [FeatureInterval([b[0] for b in blocks], [b[1] for b in blocks], Strand[strand], feature_id=fid,
                                     feature_types=["t"], sequence_name="chr1", parent_or_seq_chunk_parent=parent)
                     for fid, blocks, strand in m[2]]
            fcs.append(FeatureIntervalCollection(feats, feature_collection_id=m[1], sequence_name="chr1",
                                                 parent_or_seq_chunk_parent=parent))
    return AnnotationCollection(genes=genes, feature_collections=fcs, sequence_name="chr1",
                                parent_or_seq_chunk_parent=parent)


def member_span(m):
    starts = [b[0] for x in m[2] for b in x[1]]
    ends = [b[1] for x in m[2] for b in x[1]]
    return min(starts), max(ends)


def member_coding(m):
    return m[0] == "gene" and any(x[2] is not None for x in m[2])


def ids_of(col):
    return sorted([g.gene_id for g in col.genes] + [f.feature_collection_id for f in col.feature_collections])


SPECS = [
    [("gene", "g1", [("t1", [(2, 8), (12, 18)], (4, 16), "PLUS"), ("t2", [(2, 6)], None, "PLUS")]),
     ("fc", "f1", [("x1", [(5, 9)], "MINUS")]),
     ("gene", "g2", [("t3", [(20, 30)], None, "MINUS")])],
    [("gene", "g1", [("t1", [(1, 30)], (1, 28), "PLUS")]),
     ("gene", "g2", [("t2", [(5, 9)], (5, 8), "MINUS")]),
     ("fc", "f1", [("x1", [(10, 14), (16, 20)], "PLUS"), ("x2", [(11, 13)], "PLUS")])],
    [("fc", "f1", [("x1", [(0, 4)], "PLUS")]),
     ("gene", "g1", [("t1", [(4, 10), (14, 22)], (6, 20), "MINUS"), ("t2", [(8, 12), (16, 26)], None, "MINUS")])],
]


class PositionQuery(Case):
    props = ("C09",)
    proved = False
    name = "bounded: query_by_position end to end"
    func = "gene.collections.AnnotationCollection.query_by_position"
    scope = "3 collections (genes with 1-2 isoforms, nested and overlapping members, feature collections) on a 40 bp " \
            "sequence, whole chromosome and two chunk parents; every range on a grid (quick: step 3) x completely_within " \
            "x coding_only"
    call = "col.query_by_position(start, end, coding_only=co, completely_within=cw)"
    raises = {"InvalidQueryError": lambda i: i.invalid}
    ensures = {
        "exactly-the-specified-members": lambda i, r: ids_of(r) == i.expected,
        "documented-bounds": lambda i, r: (r.start, r.end) == (i.start, i.end),
        "members-keep-coordinates-and-ids": lambda i, r: all(
            _same_member(i.col, r, mid) for mid in i.expected),
        "member-sequence-is-source-restricted": lambda i, r: all(_seq_ok(i.col, r, mid, i.start, i.end)
                                                                 for mid in i.expected),
    }

    def inputs(self, S):
        spec = SPECS[S.const("spec")]
        chunk = S.const("chunk")
        col = build_collection(spec, chunk=tuple(chunk) if chunk else None)
        start, end, cw, co = S.const("start"), S.const("end"), S.const("cw"), S.const("co")
        invalid = start < 0 or start > end or start < col.start or end > col.end or start == end
        exp = []
        for m in spec:
            s, e = member_span(m)
            if co and not member_coding(m):
                continue
            ok = (start <= s and e <= end) if cw else (max(s, start) < min(e, end))
            if ok:
                exp.append(m[1])
        return NS(col=col, start=start, end=end, cw=cw, co=co, invalid=invalid, expected=sorted(exp))

    def domain(self, tier):
        step = 3 if tier == "quick" else 1
        for k in range(len(SPECS)):
            for chunk in (None, [0, 34], [1, 40]):
                lo, hi = (0, 40) if chunk is None else chunk
                for start in range(lo, hi, step):
                    for end in range(start, hi + 1, step):
                        for cw in (True, False):
                            for co in (False, True):
                                yield dict(spec=k, chunk=chunk, start=start, end=end, cw=cw, co=co)


def _find(col, mid):
    for g in col.genes:
        if g.gene_id == mid:
            return g
    for f in col.feature_collections:
        if f.feature_collection_id == mid:
            return f
    return None


def _same_member(src, res, mid):
    a, b = _find(src, mid), _find(res, mid)
    if a is None or b is None:
        return False
    return a.to_dict() == b.to_dict() and str(a.guid) == str(b.guid)


def _seq_ok(src, res, mid, start, end):
    """every child of the member has, in the result, the source spliced sequence restricted to the new bounds."""
    a, b = _find(src, mid), _find(res, mid)
    for ca, cb in zip(a.iter_children(), b.iter_children()):
        if not cb.has_sequence or cb.chunk_relative_location.is_empty:
            continue
        exp = "".join(GENOME[p] for s, e in zip(ca._genomic_starts, ca._genomic_ends) for p in range(s, e)
                      if start <= p < end)
        got = str(cb.get_spliced_sequence())
        if ca.strand.name == "MINUS":
            comp = {"A": "T", "C": "G", "G": "C", "T": "A"}
            exp = "".join(comp[c] for c in reversed(exp))
        if got.upper() != exp:
            return False
    return True


class IdQueries(Case):
    props = ("C09",)
    proved = False
    name = "bounded: identifier / GUID / interval-GUID queries"
    func = "gene.collections.AnnotationCollection.query_by_interval_guids"
    scope = "3 collections; all ordered subsets of <= 3 member GUIDs / child GUIDs / identifiers with a foreign id " \
            "inserted at every position"
    call = "_run(col, kind, ids)"
    ensures = {
        "exactly-the-matching-members": lambda i, r: r[0] == i.expected_members,
        "only-requested-children-kept": lambda i, r: r[1] == i.expected_children,
    }

    def inputs(self, S):
        from uuid import UUID
        spec = SPECS[S.const("spec")]
        col = build_collection(spec, with_seq=False)
        kind, names = S.const("kind"), S.const("ids")
        child_of = {}
        member_of = {}
        for m in col.iter_children():
            mid = getattr(m, "gene_id", None) or m.feature_collection_id
            member_of[mid] = m
            for c in m.iter_children():
                cid = getattr(c, "transcript_id", None) or c.feature_id
                child_of[cid] = (mid, c)
        foreign = UUID("00000000-0000-0000-0000-000000000001")

        def _run(col, kind, names):
            if kind == "members":
                ids = [member_of[n].guid if n in member_of else foreign for n in names]
                res = col.query_by_guids(ids)
            elif kind == "identifiers":
                res = col.query_by_feature_identifiers(list(names))
            else:
                ids = [child_of[n][1].guid if n in child_of else foreign for n in names]
                fn = {"children": col.query_by_interval_guids, "transcripts": col.query_by_transcript_interval_guids,
                      "features": col.query_by_feature_interval_guids}[kind]
                res = fn(ids)
            kept = {}
            for m in res.iter_children():
                mid = getattr(m, "gene_id", None) or m.feature_collection_id
                kept[mid] = sorted(getattr(c, "transcript_id", None) or c.feature_id for c in m.iter_children())
            return sorted(kept), kept

        if kind in ("members", "identifiers"):
            exp_m = sorted({n for n in names if n in member_of})
            exp_c = {mid: sorted(getattr(c, "transcript_id", None) or c.feature_id for c in member_of[mid].iter_children())
                     for mid in exp_m}
        else:
            exp_c = {}
            for n in names:
                if n not in child_of:
                    continue
                mid, c = child_of[n]
                is_tx = hasattr(c, "transcript_id")
                if kind == "transcripts" and not is_tx:
                    continue
                if kind == "features" and is_tx:
                    continue
                exp_c.setdefault(mid, set()).add(n)
            exp_c = {k: sorted(v) for k, v in exp_c.items()}
            exp_m = sorted(exp_c)
        return NS(col=col, kind=kind, ids=names, _run=_run, expected_members=exp_m, expected_children=exp_c)

    def domain(self, tier):
        for k, spec in enumerate(SPECS):
            members = [m[1] for m in spec]
            kids = [x[0] for m in spec for x in m[2]]
            for kind, pool in (("members", members), ("identifiers", members), ("children", kids),
                               ("transcripts", kids), ("features", kids)):
                for n in range(1, 3 if tier == "quick" else 4):
                    for combo in itertools.permutations(pool, n):
                        yield dict(spec=k, kind=kind, ids=list(combo))
                        for pos in range(n + 1):
                            yield dict(spec=k, kind=kind, ids=list(combo[:pos]) + ["FOREIGN"] + list(combo[pos:]))


CASES = [PositionQuery(), IdQueries()]
