"""Generate and discharge the obligations of one Case (function under contract)."""
import ast
import time
import traceback

import z3

from .values import *  # noqa
from .repo import Repo
from .engine import Engine, explore, frontier
from .symex import Frame
from .sources import EngineSource, NS, Skip
from .spec import SKIP


class Verdict:
    def __init__(self, name):
        self.name = name
        self.status = "discharged"  # discharged | refuted | unknown
        self.paths = 0
        self.seconds = 0.0
        self.prims = None
        self.detail = ""
        self.backend = "z3"

    def add(self, status, seconds=0.0, prims=None, detail=""):
        self.paths += 1
        self.seconds += seconds
        if status == "sat":
            if self.status != "refuted":
                self.status = "refuted"
                self.prims = prims
                self.detail = detail() if callable(detail) else str(detail)
        elif status == "unknown":
            if self.status == "discharged":
                self.status = "unknown"
                self.detail = detail() if callable(detail) else str(detail)

    def to_json(self):
        return dict(name=self.name, status=self.status, paths=self.paths, seconds=round(self.seconds, 4),
                    prims=self.prims, detail=self.detail, backend=self.backend)


class CaseResult:
    def __init__(self, case_name):
        self.case = case_name
        self.verdicts = {}
        self.covers = {}
        self.error = None
        self.paths = 0
        self.seconds = 0.0
        self.solver_seconds = 0.0
        self.trusted = []
        self.calls = []
        self.files = {}

    def v(self, label):
        if label not in self.verdicts:
            self.verdicts[label] = Verdict(label)
        return self.verdicts[label]

    def to_json(self):
        return dict(case=self.case, verdicts=[v.to_json() for v in self.verdicts.values()], covers=self.covers,
                    error=self.error, paths=self.paths, seconds=round(self.seconds, 3),
                    solver_seconds=round(self.solver_seconds, 3), trusted=self.trusted, calls=self.calls,
                    files=self.files)


def _check(solver, cond, timeout_ms, _retry=True):
    """Is ``pc => cond`` valid?  returns ('unsat'|'sat'|'unknown', model, seconds).
    An 'unknown' that used up the whole budget (a timeout, as opposed to the solver giving up on quantifiers at once)
    is retried once with three times the budget: wall-clock budgets must not flip a verdict on a loaded machine."""
    st, m, dt = _check_once(solver, cond, timeout_ms)
    if st == "unknown" and _retry and dt * 1000 >= 0.8 * timeout_ms:
        for seed in (7, 23):
            s2 = z3.Solver()
            s2.set("random_seed", seed)
            s2.add(*solver.assertions())
            st, m, dt2 = _check_once(s2, cond, 3 * timeout_ms)
            dt += dt2
            if st != "unknown":
                break
    return st, m, dt


def _check_once(solver, cond, timeout_ms):
    t = time.time()
    solver.set("timeout", timeout_ms)
    if cond is True:
        return "unsat", None, 0.0
    if cond is False:
        r = solver.check()
        dt = time.time() - t
        if r == z3.sat:
            return "sat", solver.model(), dt
        if r == z3.unsat:
            return "unsat", None, dt
        return "unknown", None, dt
    r = solver.check(z3.Not(cond))
    dt = time.time() - t
    if r == z3.unsat:
        return "unsat", None, dt
    if r == z3.sat:
        return "sat", solver.model(), dt
    return "unknown", None, dt


def make_engine(case, repo, summaries_lib, seed=0, concrete=False):
    summaries = {}
    loops = {}
    # concrete runs (CPython cross-check) execute the real bodies everywhere: only the library stubs stay
    for s in list(summaries_lib.get("default", [])) + ([] if concrete else list(case.summaries)):
        if s in getattr(case, "no_summaries", ()):
            continue
        summaries[s] = summaries_lib["summaries"][s]
    for key in case.loops:
        loops[key] = summaries_lib["loops"][key]
    eng = Engine(repo, summaries=summaries, loop_specs=loops, timeout_ms=case.timeout_ms, seed=seed)
    for k, h in summaries_lib.get("attr_hooks", {}).items():
        eng.attr_hooks[k] = h
    for k, h in summaries_lib.get("externals", {}).items():
        eng.externals[k] = h
    eng.recursive_only = set(summaries_lib.get("recursive_only", ()))
    eng.external_consts = dict(summaries_lib.get("external_consts", {}))
    return eng


def run_case_call(case, eng, S):
    inp = case.inputs(S)
    eng.ctx = dict(inp=inp, S=S)
    finfo_mod = _module_for(case, eng.repo)
    fr = Frame(None, finfo_mod, dict(inp.__dict__))
    expr = ast.parse(case.call, mode="eval").body
    return eng.eval(expr, fr)


def _module_for(case, repo):
    if case.module is not None:
        return repo.module(case.module)
    f = repo.find(case.func)
    return f.module if hasattr(f, "module") else f


def verify_case(case, repo=None, summaries_lib=None, seed=0, scope=None, initial=None):
    repo = repo or Repo()
    summaries_lib = summaries_lib or {"summaries": {}, "loops": {}}
    res = CaseResult(case.name)
    t0 = time.time()
    if getattr(case, "static", None) is not None:
        return verify_static(case, repo, res, t0)
    if getattr(case, "ground", None) is not None:
        return verify_ground(case, repo, summaries_lib, res, t0)
    try:
        eng = make_engine(case, repo, summaries_lib, seed, concrete=scope is not None)
        eng.concrete_mode = scope is not None
        ctxs = []

        def run(e):
            e.ctx = {}
            try:
                S = EngineSource(e)
                S.scope = scope
                return run_case_call(case, e, S)
            finally:
                e.ctx["ghost"] = dict(e.ghost)
                if e.ctx.get("inp") is not None:
                    e.ctx["inp"].__dict__["ghost"] = e.ctx["ghost"]
                ctxs.append(e.ctx)

        paths = explore(eng, run, initial=initial)
        res.paths = len(paths)
        raises = dict(case.raises)
        n_return = 0
        seen_raise = set()
        for p, ctx in zip(paths, ctxs):
            res.solver_seconds += p.solver_time
            S = ctx.get("S")
            inp = ctx.get("inp")

            def prims_of(model, neg=None, _solver=p.solver):
                """primitives of a counter-model; a SMALL one is looked for first (readable, replayable)."""
                try:
                    if S is None or model is None:
                        return None
                    if neg is not None:
                        for bound in (24, 200):
                            _solver.set("timeout", 3000)
                            if _solver.check(neg, *S.bound_constraints(bound)) == z3.sat:
                                model = _solver.model()
                                break
                    return S.prims_from_model(model)
                except Exception as ex:  # pragma: no cover
                    return {"_error": repr(ex)}

            for ob in p.side:
                res.v(ob.name).add(ob.status, ob.seconds, prims_of(ob.model), ob.note)
            if p.kind == "abort":
                continue
            if p.kind == "unsupported":
                res.error = str(p.value)
                continue
            if inp is None:
                continue
            solver = p.solver
            if p.kind == "return":
                n_return += 1
                for label, f in case.ensures.items():
                    name = "post:" + label
                    try:
                        cond = f(inp, p.value)
                        if cond is SKIP:
                            continue
                        if label in case.known:
                            from .spec import Or as _Or
                            cond = _Or(case.known[label]["carve"](inp), cond)
                    except Exception as ex:
                        st, m, dt = _check(solver, False, case.timeout_ms)
                        res.v(name).add(st, dt, prims_of(m), (lambda _v=p.value, _ex=ex: f"postcondition not evaluable on result "
                                                             f"{_short(_v)}: {type(_ex).__name__}: {_ex}"))
                        continue
                    st, m, dt = _check(solver, _tobool(cond), case.timeout_ms)
                    res.v(name).add(st, dt, prims_of(m, _neg(_tobool(cond)) if st == "sat" and not isinstance(cond, bool)
                                                     else None), (lambda _v=p.value: f"returned {_short(_v)}"))
                for exc, w in raises.items():
                    cond = _tobool(w(inp))
                    st, m, dt = _check(solver, _neg(cond), case.timeout_ms)
                    res.v("raises:" + exc).add(st, dt, prims_of(m), (lambda _v=p.value, _e=exc: f"returned {_short(_v)} although {_e} "
                                                                   "is specified"))
            elif p.kind == "raise":
                cls = p.value
                seen_raise.add(cls)
                if cls in raises:
                    cond = _tobool(raises[cls](inp))
                    st, m, dt = _check(solver, cond, case.timeout_ms)
                    res.v("raises:" + cls).add(st, dt, prims_of(m), f"{cls} raised outside its condition")
                    for exc, w in raises.items():
                        if exc == cls:
                            continue
                        cond = _tobool(w(inp))
                        st, m, dt = _check(solver, _neg(cond), case.timeout_ms)
                        res.v("raises:" + exc).add(st, dt, prims_of(m), f"{cls} raised although {exc} is specified")
                    res.v("no-other-exception").add("unsat")
                elif _may_raise(case, eng.repo, cls):
                    res.v("no-other-exception").add("unsat")
                    res.covers["may-raise:" + cls] = True
                else:
                    st, m, dt = _check(solver, False, case.timeout_ms)
                    res.v("no-other-exception").add(st, dt, prims_of(m), f"undocumented {cls} escapes")
        if n_return:
            res.v("no-other-exception").add("unsat")
        res.covers["return"] = n_return > 0 or not case.ensures  # a raises-only contract states no return clause
        for exc in raises:
            res.covers["raise:" + exc] = exc in seen_raise
        for label in case.ensures:
            if n_return == 0:
                res.v("post:" + label)  # create; stays 'discharged' vacuously -> flagged by cover
        res.trusted = sorted(eng.trusted_used)
        res.calls = sorted(eng.calls_seen)
        res.files = repo.hashes()
    except Unsupported as ex:
        res.error = "unsupported: " + str(ex)
    except Exception as ex:  # checker crash
        res.error = "crash: " + "".join(traceback.format_exception(type(ex), ex, ex.__traceback__))[-3000:]
    res.seconds = time.time() - t0
    return res


def case_frontier(case, repo, summaries_lib, seed, scope, depth):
    """decision prefixes partitioning the path space of the case (see engine.frontier)."""
    eng = make_engine(case, repo, summaries_lib, seed, concrete=scope is not None)
    eng.concrete_mode = scope is not None

    def run(e):
        e.ctx = {}
        S = EngineSource(e)
        S.scope = scope
        return run_case_call(case, e, S)

    return frontier(eng, run, depth)


def _exc_bases(repo, cls):
    """names of ``cls`` and its base classes (repo exception classes by AST, builtins by the engine's table)."""
    from .repo import BUILTIN_EXC_PARENT
    out, todo = [], [cls]
    while todo:
        c = todo.pop()
        if c in out:
            continue
        out.append(c)
        if c in BUILTIN_EXC_PARENT:
            if BUILTIN_EXC_PARENT[c]:
                todo.append(BUILTIN_EXC_PARENT[c])
            continue
        for modname in ("exc", "io.exc", "io.gff3.exc", "io.genbank.exc"):
            try:
                mod = repo.module(modname)
            except Exception:
                continue
            ci = getattr(mod, "classes", {}).get(c)
            if ci is not None:
                for b in ci.node.bases:
                    todo.append(ast.unparse(b).split(".")[-1])
                break
    return out


def _may_raise(case, repo, cls):
    allowed = getattr(case, "may_raise", ())
    if not allowed:
        return False
    try:
        return any(b in allowed for b in _exc_bases(repo, cls))
    except Exception:
        return cls in allowed


def _tobool(c):
    if isinstance(c, bool):
        return c
    return c


def _neg(c):
    if isinstance(c, bool):
        return not c
    return z3.Not(c)


class _Lazy:
    """repr computed only if the text is actually used (z3 pretty-printing of big terms is slow)."""

    def __init__(self, v):
        self.v = v

    def __str__(self):
        return _describe(self.v, 0)[:300]

    __repr__ = __str__

    def __format__(self, spec):
        return str(self)


def _describe(v, depth):
    if depth > 2:
        return "..."
    if isinstance(v, z3.ExprRef):
        s = v.sexpr()
        return s if len(s) < 80 else s[:80] + "..."
    if isinstance(v, Obj):
        items = []
        for k, x in list(v.attrs.items())[:8]:
            if not k.startswith("$"):
                items.append(f"{k}={_describe(x, depth + 1)}")
        return f"<{v.cls.name} " + ", ".join(items) + ">"
    if isinstance(v, (list, tuple)):
        return "[" + ", ".join(_describe(x, depth + 1) for x in list(v)[:6]) + "]"
    try:
        s = repr(v)
    except Exception:
        s = "<unprintable>"
    return s if len(s) < 120 else s[:120] + "..."


def _short(v):
    return _Lazy(v)


def run_concrete(case, repo, summaries_lib, prims):
    """Run the case in the engine on concrete primitives (encoding cross-check). Returns an outcome description."""
    eng = make_engine(case, repo, summaries_lib, concrete=True)
    eng.concrete_mode = True
    eng.reset_path([])
    S = EngineSource(eng, prims)
    try:
        v = run_case_call(case, eng, S)
        return ("return", v, eng.ctx.get("inp"))
    except PyExc as e:
        return ("raise", e.cls, eng.ctx.get("inp") if hasattr(eng, "ctx") else None)


def verify_ground(case, repo, summaries_lib, res, t0):
    """Finite domain decided completely: the real code is executed by the engine on every element of the domain and
    every clause is evaluated to a ground truth value (no solver needed)."""
    try:
        eng = make_engine(case, repo, summaries_lib)
        n = 0
        n_return = 0
        seen_raise = set()
        for prims in case.ground():
            n += 1
            eng.reset_path([])
            S = EngineSource(eng, prims)
            try:
                v = run_case_call(case, eng, S)
                kind = "return"
            except PyExc as e:
                kind, v = "raise", e.cls
            except Skip:
                continue
            if len(eng.trace) != 0:
                raise Unsupported("ground case forked: inputs are not fully concrete")
            inp = eng.ctx.get("inp")
            if kind == "return":
                n_return += 1
                for label, f in case.ensures.items():
                    try:
                        ok = f(inp, v)
                        if ok is SKIP:
                            continue
                        ok = bool(ok) if not is_sym(ok) else z3.is_true(z3.simplify(ok))
                        if not ok and label in case.known and bool(case.known[label]["carve"](inp)):
                            ok = True
                        detail = f"returned {_short(v)}"
                    except Exception as ex:
                        ok, detail = False, f"postcondition not evaluable: {type(ex).__name__}: {ex}"
                    res.v("post:" + label).add("unsat" if ok else "sat", 0.0, None if ok else prims, detail)
                for exc, w in case.raises.items():
                    ok = not bool(w(inp))
                    res.v("raises:" + exc).add("unsat" if ok else "sat", 0.0, None if ok else prims,
                                               f"returned although {exc} is specified")
                res.v("no-other-exception").add("unsat")
            else:
                seen_raise.add(v)
                if v in case.raises:
                    ok = bool(case.raises[v](inp))
                    res.v("raises:" + v).add("unsat" if ok else "sat", 0.0, None if ok else prims,
                                             f"{v} raised outside its condition")
                    res.v("no-other-exception").add("unsat")
                elif _may_raise(case, eng.repo, v):
                    res.v("no-other-exception").add("unsat")
                else:
                    res.v("no-other-exception").add("sat", 0.0, prims, f"undocumented {v} escapes")
        for vd in res.verdicts.values():
            vd.backend = "ground evaluation in the executor (finite domain, exhaustive)"
        res.paths = n
        res.covers["return"] = n_return > 0 or not case.ensures
        for exc in case.raises:
            res.covers["raise:" + exc] = exc in seen_raise
        res.trusted = sorted(eng.trusted_used)
        res.calls = sorted(eng.calls_seen)
        res.files = repo.hashes()
    except Unsupported as ex:
        res.error = "unsupported: " + str(ex)
    except Exception as ex:
        res.error = "crash: " + "".join(traceback.format_exception(type(ex), ex, ex.__traceback__))[-3000:]
    res.seconds = time.time() - t0
    return res


def verify_static(case, repo, res, t0):
    """frame / kind / order / identity obligations decided by the static back end (pyvc.static) on the real AST."""
    from .static import analyse, public_methods
    try:
        spec = case.static
        targets = []
        for cq in spec["classes"]:
            targets += public_methods(repo, [cq])
            if spec.get("constructors") and "__init__" in repo.find(cq).methods:
                targets.append(cq + ".__init__")  # constructors too (they may write fields; 'order' rules apply)
        for q in spec.get("functions", ()):
            targets.append(q)
        kinds = spec.get("kinds")
        out = analyse(repo, targets)
        n = 0
        for q, obs in out.items():
            for ob in obs:
                k = ob.name.split(":")[0]
                if kinds and k not in kinds:
                    continue
                label = f"{q}/{ob.name}"
                if label in spec.get("accepted", {}):
                    continue  # site reviewed by hand: listed as an assumption in the evidence
                if label in spec.get("known", {}):
                    if not ob.ok:
                        res.covers["known:" + spec["known"][label]] = True
                    continue
                v = res.v(label)
                v.backend = "static frame/kind/order analysis on the AST"
                v.add("unsat" if ob.ok else "sat", 0.0, None, ob.detail)
                n += 1
        res.paths = n
        res.covers["return"] = len(out) > 0
        res.calls = sorted(out)
        res.files = repo.hashes()
    except Exception as ex:
        res.error = "crash: " + "".join(traceback.format_exception(type(ex), ex, ex.__traceback__))[-3000:]
    res.seconds = time.time() - t0
    return res
