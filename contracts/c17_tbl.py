"""C17 — NCBI feature-table export.  Proved: TblFeature._location_to_str lists exactly the blocks as 1-based inclusive
intervals in 5'->3' order with the partial marks on the first start / last end (1..3 blocks, all coordinates, symbolic
text model).  BOUNDED: whole files written by collection_to_tbl, read back by an independent 5-column reader."""
import io
import itertools

from pyvc.spec import *  # noqa
from pyvc.sources import NS
from .common import *  # noqa
from .gene_common import *  # noqa
from .lib import LIB  # noqa

TBL = "io.ncbi.tbl_writer."


class LocationToStr(Case):
    props = ("C17",)
    func = TBL + "TblFeature._location_to_str"
    module = "io.ncbi.tbl_writer"

    def __init__(self, n):
        self.n = n
        self.name = f"TblFeature._location_to_str[{n} blocks]"
        self.call = "MRNATblFeature._location_to_str(feat)"
        self.ensures = {"rows-5p-to-3p-one-based-with-partial-marks": lambda i, r: text_equals(r, _expected_rows(i))}

    def inputs(self, S):
        n = self.n
        starts, ends = block_lists(S, "b", n)
        strand = strand_of(S, "strand")
        loc = S.new(COMPOUND, starts, ends, strand) if n > 1 else S.new(SINGLE, starts[0], ends[0], strand)
        p5, p3 = S.bool("partial5"), S.bool("partial3")
        if S.mode == "sym":
            # the marks are produced by control flow on these flags: case split
            p5 = S.e.branch(p5)
            p3 = S.e.branch(p3)
        if S.mode == "native":
            cls = S.cls(TBL + "MRNATblFeature")
            feat = cls.__new__(cls)
            feat.location, feat.start_is_incomplete, feat.end_is_complete = loc, p5, p3
        else:
            from pyvc.values import Obj
            feat = Obj(S.e.repo.find(TBL + "MRNATblFeature"), dict(location=loc, start_is_incomplete=p5,
                                                                  end_is_complete=p3))
        plus = (strand.members[strand.idx][0] if hasattr(strand, "members") else strand.name) == "PLUS"
        return NS(feat=feat, starts=starts, ends=ends, plus=plus, p5=p5, p3=p3,
                  MRNATblFeature=S.cls(TBL + "MRNATblFeature"))

    def samples(self, rng):
        d = sample_blocks(rng, "b", self.n)
        d.update(strand=rng.choice(["PLUS", "MINUS"]), partial5=rng.random() < 0.5, partial3=rng.random() < 0.5)
        return d

    def observe(self, r):
        from .c14_bed import BedText
        return BedText.observe(self, r)


def _expected_rows(i):
    n = len(i.starts)
    pairs = [(i.starts[k] + 1, i.ends[k]) for k in range(n)]
    if not i.plus:
        pairs = [(b, a) for a, b in pairs][::-1]
    out = []
    for k, (a, b) in enumerate(pairs):
        if k:
            out.append("\n")
        if k == 0 and i.p5:
            out.append("<")
        out.append(a)
        out.append("\t")
        if k == n - 1 and i.p3:
            out.append(">")
        out.append(b)
        out.append("\t" + ("mRNA" if k == 0 else "") + "\t\t")
    return out


# ---- bounded whole-file check ---------------------------------------------------------------------------------------
GENOME = "AAATGCCCGGGTTTCATCCCTGACCCAAATGAAACCCTAGTTTGGGTTACATCATGGGAATT" * 2
COMP = {"A": "T", "C": "G", "G": "C", "T": "A"}
STOPS = {"TAA", "TAG", "TGA"}
STARTS = {"DEFAULT": {"ATG"}, "STANDARD": {"ATG", "TTG", "CTG"},
          "PROKARYOTE": {"ATG", "TTG", "CTG", "ATT", "ATC", "ATA", "GTG"}}


def read_tbl(text):
    """independent reader: [(header, [feature])], feature = dict(type, rows[(start,end)], quals[(k,v)])."""
    out = []
    cur = None
    for line in text.splitlines():
        if line.startswith(">Features "):
            out.append((line[len(">Features "):], []))
            cur = None
            continue
        cols = line.split("\t")
        if len(cols) != 5:
            raise ValueError(f"not five columns: {line!r}")
        if cols[0] != "":
            if cols[2] != "":
                cur = dict(type=cols[2], rows=[], quals=[])
                out[-1][1].append(cur)
            cur["rows"].append((cols[0], cols[1]))
        else:
            cur["quals"].append((cols[3], cols[4]))
    return out


def spliced(blocks, strand):
    s = "".join(GENOME[a:b] for a, b in blocks)
    return s if strand == "PLUS" else "".join(COMP[c] for c in reversed(s))


class TblFile(Case):
    props = ("C17",)
    proved = False
    name = "bounded: collection_to_tbl files read back by an independent reader"
    func = TBL + "collection_to_tbl"
    scope = "two collections (contigs) with 3 genes each generated from 6 exon layouts x both strands x coding with " \
            "start frame 0/1/2 or non-coding, CDS with/without start and stop codon; flavours EUKARYOTIC / PROKARYOTIC; " \
            "locus tag steps 1 and 5; seeds 0 and 7"
    call = "_export(cols, flavor, step, seed)"
    ensures = {
        "headers-name-the-sequences": lambda i, r: [h for h, _ in r[0]] == ["contigA", "contigB"],
        "reproducible-for-a-fixed-seed": lambda i, r: r[1] == r[2],
        "gene-rows-5p-to-3p": lambda i, r: all(_gene_ok(f, m) for (_h, feats), ms in zip(r[0], i.models)
                                               for f, m in zip([x for x in feats if x["type"] == "gene"], ms)),
        "locus-tags-unique-and-stepping": lambda i, r: [dict(f["quals"]).get("locus_tag") for _h, feats in r[0]
                                                        for f in feats if f["type"] == "gene"] == [
            f"LT_{(k + 1) * i.step}" for k in range(sum(len(ms) for ms in i.models))],
        "cds-rows-partials-codon-start": lambda i, r: all(
            _cds_ok(f, m, i.table) for (_h, feats), ms in zip(r[0], i.models)
            for f, m in zip([x for x in feats if x["type"] == "CDS"], [m for m in ms if m["cds"]])),
        "mrna-only-in-eukaryotic-flavour": lambda i, r: all(
            (sum(1 for x in feats if x["type"] == "mRNA") == (sum(1 for m in ms if m["cds"]) if i.flavor == "EUKARYOTIC"
                                                               else 0)) for (_h, feats), ms in zip(r[0], i.models)),
    }

    def inputs(self, S):
        from inscripta.biocantor.gene import (AnnotationCollection, GeneInterval, TranscriptInterval, CDSFrame, Biotype)
        from inscripta.biocantor.gene.cds import CDSInterval
        from inscripta.biocantor.location.strand import Strand
        from inscripta.biocantor.location.location_impl import CompoundInterval, SingleInterval
        from inscripta.biocantor.io.parser import seq_to_parent
        from inscripta.biocantor.io.ncbi.tbl_writer import collection_to_tbl, GenbankFlavor
        from inscripta.biocantor.gene.codon import TranslationTable
        cols, models = [], []
        for name, genes in zip(("contigA", "contigB"), S.const("genes")):
            parent = seq_to_parent(GENOME, seq_id=name)
            gs, ms = [], []
            for gi, entry in enumerate(genes):
                blocks, strand, cds, f0 = entry[:4]
                split = entry[4] if len(entry) > 4 else None
                blocks = [tuple(b) for b in blocks]
                kw = {}
                cb = None
                if cds is not None:
                    cb = [(max(s, cds[0]), min(e, cds[1])) for s, e in blocks if max(s, cds[0]) < min(e, cds[1])]
                    if split is not None and len(cb) == 1 and cb[0][0] < split < cb[0][1]:
                        # a single-exon transcript whose CDS is listed as two ADJACENT blocks (0 bp gap): the export
                        # must merge them like the blocks of multi-exon transcripts
                        cb = [(cb[0][0], split), (split, cb[0][1])]
                    st = Strand[strand]
                    loc = (SingleInterval(cb[0][0], cb[0][1], st) if len(cb) == 1 else
                           CompoundInterval([b[0] for b in cb], [b[1] for b in cb], st))
                    kw = dict(cds_starts=[b[0] for b in cb], cds_ends=[b[1] for b in cb],
                              cds_frames=CDSInterval.construct_frames_from_location(loc, CDSFrame(f0)))
                tx = TranscriptInterval([b[0] for b in blocks], [b[1] for b in blocks], Strand[strand],
                                        transcript_id=f"t{gi}", sequence_name=name, parent_or_seq_chunk_parent=parent,
                                        transcript_type=Biotype.protein_coding if cds else Biotype.ncRNA, **kw)
                gs.append(GeneInterval([tx], gene_id=f"g{gi}", gene_symbol=f"sym{name}{gi}", sequence_name=name,
                                       gene_type=Biotype.protein_coding if cds else Biotype.ncRNA,
                                       parent_or_seq_chunk_parent=parent))
                ms.append(dict(blocks=blocks, strand=strand, cds=cb, f0=f0))
            cols.append(AnnotationCollection(genes=gs, sequence_name=name, parent_or_seq_chunk_parent=parent))
            models.append(ms)

        def _export(cols, flavor, step, seed):
            texts = []
            for _rep in range(2):
                buf = io.StringIO()
                collection_to_tbl(cols, buf, translation_table=TranslationTable[S.const("table")],
                                  locus_tag_prefix="LT", genbank_flavor=GenbankFlavor[flavor],
                                  locus_tag_jump_size=step, random_seed=seed)
                texts.append(buf.getvalue())
            return read_tbl(texts[0]), texts[0], texts[1]

        return NS(cols=cols, models=models, flavor=S.const("flavor"), step=S.const("step"), seed=S.const("seed"),
                  table=S.const("table"), _export=_export)

    def domain(self, tier):
        layouts = [[(2, 23)], [(29, 38)], [(2, 11), (14, 23)], [(3, 12), (12, 24)], [(53, 60)], [(1, 8), (10, 20), (25, 40)]]
        genes = []
        for bl in layouts:
            for strand in ("PLUS", "MINUS"):
                genes.append([bl, strand, None, 0])
                for f0 in (0, 1, 2):
                    genes.append([bl, strand, [bl[0][0], bl[-1][1]], f0])
                genes.append([bl, strand, [bl[0][0] + 1, bl[-1][1] - 1], 0])
        for strand in ("PLUS", "MINUS"):
            genes.append([[(2, 23)], strand, [2, 23], 0, 11])
            genes.append([[(29, 38)], strand, [29, 38], 0, 32])
            genes.append([[(53, 60)], strand, [53, 60], 0, 56])
        triples = [genes[k:k + 3] for k in range(0, len(genes) - 2, 3)]
        if tier == "quick":
            triples = triples[::2] + triples[-2:]
        for a, b in zip(triples, triples[1:] + triples[:1]):
            for flavor in ("EUKARYOTIC", "PROKARYOTIC"):
                for step, seed, table in ((1, 0, "DEFAULT"), (5, 7, "PROKARYOTE")):
                    yield dict(genes=[a, b], flavor=flavor, step=step, seed=seed, table=table)


def _merge_adjacent(blocks):
    out = []
    for s, e in blocks:
        if out and out[-1][1] == s:
            out[-1] = (out[-1][0], e)
        else:
            out.append((s, e))
    return out


def _expected_pairs(blocks, strand):
    # TblGene merges blocks separated by a 0 bp gap (NCBI does not accept adjacent intervals)
    pairs = [(s + 1, e) for s, e in _merge_adjacent(blocks)]
    if strand == "MINUS":
        pairs = [(b, a) for a, b in pairs][::-1]
    return pairs


def _strip(x):
    return int(x.lstrip("<>"))


def _gene_ok(f, m):
    hull = [(m["blocks"][0][0], m["blocks"][-1][1])]
    return [(_strip(a), _strip(b)) for a, b in f["rows"]] == _expected_pairs(hull, m["strand"])


def _cds_ok(f, m, table):
    rows = f["rows"]
    if [(_strip(a), _strip(b)) for a, b in rows] != _expected_pairs(m["cds"], m["strand"]):
        return False
    seq = spliced(m["cds"], m["strand"])
    f0 = m["f0"]
    inframe = seq[f0:]
    first = inframe[:3]
    start_partial = first not in STARTS[table]
    ends_on_stop = (len(seq) - f0) % 3 == 0 and inframe[-3:] in STOPS and len(inframe) >= 3
    end_partial = not ends_on_stop
    if rows[0][0].startswith("<") != start_partial:
        return False
    if rows[-1][1].startswith(">") != end_partial:
        return False
    q = dict(f["quals"])
    return q.get("codon_start") == str(f0 + 1)


CASES = [LocationToStr(1), LocationToStr(2), LocationToStr(3), TblFile()]
