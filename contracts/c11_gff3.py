"""C11 — GFF3 export half: attribute escaping, attribute column layout, row arithmetic / phase / ID-Parent wiring of
to_gff, nine-column rendering.  The parse-back leg (io/gff3/parser.py, gffutils) is not reachable here."""
import itertools
from urllib.parse import unquote

from pyvc.spec import *  # noqa
from pyvc.sources import NS
from .common import *  # noqa
from .gene_common import *  # noqa
from .c04_liftover import chunk_parent
from .lib import LIB  # noqa

ROWS = "io.gff3.rows."
HOSTILE = ["\t", ";", "=", "%", "\n", "\r", " ", ">", "&", '"', ",", "a", "B", "3", "é"]
RESERVED_RAW = {"\t", "\n", "\r", ";", "=", ">", " "}


class Escape(Case):
    """escape_key / escape_value on every string of length <= 2 over a hostile alphabet and of length 3 over
    {'%','3','B',';','a'}: the output contains no raw reserved separator, decodes (percent-decoding) back to the input,
    and every escape is '%' + two upper-case hex digits of the character code."""
    props = ("C11",)
    name = "GFFAttributes.escape_key / escape_value[all short strings over a hostile alphabet]"
    func = ROWS + "GFFAttributes.escape_value"
    module = "io.gff3.rows"
    call = ("(GFFAttributes.escape_value(s), GFFAttributes.escape_value(s, escape_comma=True), "
            "GFFAttributes.escape_key(s), GFFAttributes.escape_key(s, lower=True))")
    ensures = {
        "decodes-back": lambda i, r: (unquote(r[0]) == i.s and unquote(r[1]) == i.s and unquote(r[2]) == i.s)
        if i.s else (r[0] == "nan" and r[1] == "nan"),
        "no-raw-separator": lambda i, r: not (set(r[0]) | set(r[2])) & RESERVED_RAW and not set(r[1]) & (
            RESERVED_RAW | {","}),
        "comma-kept-as-value-separator-only-when-not-escaping": lambda i, r: ("," in r[0]) == ("," in i.s),
        "lower-cased-key": lambda i, r: unquote(r[3]) == i.s.lower() or "%" in r[3],
        "untouched-characters-unchanged": lambda i, r: all(ch in r[0] for ch in i.s if ch not in
                                                           "\t;=%\n\r >"),
    }

    def inputs(self, S):
        return NS(s=S.const("s"), GFFAttributes=S.cls(ROWS + "GFFAttributes"))

    def ground(self):
        yield {"s": ""}
        for n in (1, 2):
            for t in itertools.product(HOSTILE, repeat=n):
                yield {"s": "".join(t)}
        for t in itertools.product(["%", "3", "B", ";", "a", "2"], repeat=3):
            yield {"s": "".join(t)}


class AttributesColumn(Case):
    """GFFAttributes.__str__: ID first, Parent iff given, Name iff given, then qualifier keys sorted; reserved
    attributes are never emitted from qualifiers (raise or drop); values sorted and comma-joined."""
    props = ("C11",)
    name = "GFFAttributes.__str__[all small qualifier dictionaries]"
    func = ROWS + "GFFAttributes.__str__"
    module = "io.gff3.rows"
    call = "str(GFFAttributes(id='i;d', qualifiers=q, name=name, parent=parent, raise_on_reserved_attributes=strict))"
    raises = {"GFF3ExportException": lambda i: i.strict and any(k in ("ID", "Parent", "Name") and v for k, v in i.raw)}
    ensures = {
        "layout": lambda i, r: r == _expected_attrs(i),
    }

    def inputs(self, S):
        raw = [(k, list(v)) for k, v in S.const("q")]
        q = {}
        for k, v in raw:
            q[k] = set(v) if S.mode == "native" else S.e.make_set(list(v))
        return NS(q=q, raw=raw, name=S.const("name"), parent=S.const("parent"), strict=S.const("strict"),
                  GFFAttributes=S.cls(ROWS + "GFFAttributes"))

    def ground(self):
        keys = ["zeta", "Alpha", "ID", "Parent", "Name", "Dbxref", "k=1"]
        vals = [[], ["v"], ["b b", "a;a"]]
        for n in (0, 1, 2):
            for ks in itertools.combinations(keys, n):
                for vs in itertools.product(vals, repeat=n):
                    for name, parent in ((None, None), ("nm", "p,1")):
                        for strict in (True, False):
                            yield dict(q=[[k, v] for k, v in zip(ks, vs)], name=name, parent=parent, strict=strict)


def _esc(s, comma=False):
    m = {"\t": "%09", ";": "%3B", "=": "%3D", "\n": "%0A", "\r": "%0D", ">": "%3E", " ": "%20", "%": "%25"}
    if comma:
        m[","] = "%2C"
    return "".join(m.get(ch, ch) for ch in s) if s else "nan"


def _expected_attrs(i):
    out = ["ID=" + _esc("i;d", True)]
    if i.parent is not None:
        out.append("Parent=" + _esc(i.parent, True))
    if i.name is not None:
        out.append("Name=" + _esc(i.name, True))
    for k, v in sorted(i.raw):
        if not v:
            continue
        if k in ("ID", "Parent", "Name"):
            continue
        gff_reserved = k in ("Alias", "Target", "Gap", "Derives_from", "Note", "Dbxref", "Ontology_term", "Is_circular")
        key = _esc(k) if gff_reserved else _esc(k).lower()
        out.append(key + "=" + ",".join(sorted(_esc(x) for x in v)))
    return ";".join(out)


class TranscriptRows(Case):
    """TranscriptInterval.to_gff: one transcript row, one exon row per exon, one CDS row per CDS block; coordinates
    1-based inclusive = source blocks; strand; phase '.' on non-CDS rows and frame-derived on CDS rows; exon / CDS
    rows name the transcript row's ID as Parent; IDs pairwise different."""
    props = ("C11",)
    func = TRANSCRIPT + ".to_gff"

    def __init__(self, n, chunk=False, cut=False):
        self.n, self.chunk, self.cut = n, chunk, cut
        self.tier = "thorough" if (chunk and n > 1) else "quick"
        mode = "chunk-relative" if chunk else "chromosome"
        self.name = f"TranscriptInterval.to_gff[{n} exons, coding, {mode}]"
        self.call = f"list(tx.to_gff(parent='gene1', chromosome_relative_coordinates={not chunk}))"
        if cut:
            # chromosome-coordinate export of a transcript built on a chunk that cuts it anywhere: the rows are those
            # of the whole-chromosome transcript (all exons, all CDS blocks, phases from the CHROMOSOME frames)
            self.name = f"TranscriptInterval.to_gff[{n} exons, coding, chromosome coordinates, chunk cutting the transcript]"
            self.shard_depth = 4
        self.ensures = {
            "row-count-and-types": lambda i, r: [_etype(x.type) for x in r] == ["transcript"] + ["exon"] * n + ["CDS"] * n,
            "transcript-row": lambda i, r: And(r[0].start == i.exons[0][0] + 1, r[0].end == i.exons[-1][1]),
            "exon-rows-are-source-blocks": lambda i, r: And(*[
                And(r[1 + k].start == i.exons[k][0] + 1, r[1 + k].end == i.exons[k][1]) for k in range(n)]),
            "cds-rows-are-cds-blocks": lambda i, r: And(*[
                And(r[1 + n + k].start == i.cds[k][0] + 1, r[1 + n + k].end == i.cds[k][1]) for k in range(n)]),
            "start-le-end-one-based": lambda i, r: And(*[And(1 <= x.start, x.start <= x.end) for x in r]),
            "strand-everywhere": lambda i, r: all(_same_enum(x.strand, i.strand) for x in r),
            "phase-only-on-cds-rows": lambda i, r: all(_ename(x.phase) == "NONE" for x in r[:1 + n]),
            "cds-phase-is-frame-derived": lambda i, r: And(*[
                enum_value(r[1 + n + k].phase) == Mod(-i.frames[k], 3) for k in range(n)]),
            "parent-wiring": lambda i, r: And(
                r[0].attributes.parent == "gene1",
                *[same_text(x.attributes.parent, r[0].attributes.id) for x in r[1:]]),
            "ids-pairwise-different": lambda i, r: all(
                same_text(r[a].attributes.id, r[b].attributes.id) is False
                for a in range(len(r)) for b in range(a + 1, len(r))),
            "seqid-and-source": lambda i, r: all(x.seqid == "chr1" and x.source == "BioCantor" for x in r),
        }

    def inputs(self, S):
        n = self.n
        starts, ends = block_lists(S, "tx", n)
        strand = strand_of(S, "strand")
        cds_s, cds_e, c0, c1 = cds_in_exons(S, starts, ends)
        off = 0
        cp = None
        if self.cut:
            cp, cs, ce = chunk_parent(S)
            S.assume(Or(*[Max(starts[k], cs) < Min(ends[k], ce) for k in range(n)]))  # some exon base on the chunk
        elif self.chunk:
            cp, cs, ce = chunk_parent(S)
            S.assume(And(cs <= starts[0], ends[-1] <= ce))
            off = cs
        frames_fn = S.fn(CDS + ".construct_frames_from_location")
        loc = S.new(COMPOUND, cds_s, cds_e, strand) if n > 1 else S.new(SINGLE, cds_s[0], cds_e[0], strand)
        f0 = S.enum_const(FRAME, "ONE")
        fl = frames_fn(loc, f0) if S.mode == "native" else S.e.call(frames_fn, [loc, f0], {})
        tx = S.new(TRANSCRIPT, starts, ends, strand, cds_starts=cds_s, cds_ends=cds_e, cds_frames=fl,
                   sequence_name="chr1", transcript_symbol="sym", parent_or_seq_chunk_parent=cp)
        fvals = [enum_value(f) for f in fl]
        return NS(tx=tx, strand=strand, exons=[(s - off, e - off) for s, e in zip(starts, ends)],
                  cds=[(s - off, e - off) for s, e in zip(cds_s, cds_e)], frames=fvals)

    def samples(self, rng):
        d = sample_blocks(rng, "tx", self.n, lo=2, length=(2, 3, 5))
        d["strand"] = rng.choice(["PLUS", "MINUS"])
        sample_cds(rng, d)
        if self.cut:
            cs = rng.randint(0, d["tx_ends"][-1] - 1)
            ce = rng.randint(cs + 1, d["tx_ends"][-1] + 3)
            d.update(chunk_start=cs, chunk_end=ce, chunk_seq="".join(rng.choice("ACGT") for _ in range(ce - cs)))
        elif self.chunk:
            cs = rng.randint(0, d["tx_starts"][0])
            ce = d["tx_ends"][-1] + rng.randint(0, 3)
            d.update(chunk_start=cs, chunk_end=ce, chunk_seq="".join(rng.choice("ACGT") for _ in range(ce - cs)))
        return d

    def observe(self, r):
        from pyvc.check import default_observe as o
        return [[_etype(x.type), o(x.start), o(x.end), _ename(x.strand), _ename(x.phase)] for x in r]


class TranscriptRowsChunkCut(Case):
    """chunk-relative GFF rows of a single-exon coding transcript built on a chunk that CUTS it anywhere (at least one
    exon base visible): transcript / exon rows = the visible part in chunk coordinates (1-based inclusive); a CDS row
    only when a CDS base is visible, covering the visible CDS part, with the phase of the reading frame AT the first
    visible CDS base: (bases cut at the 5' end - start frame) mod 3."""
    props = ("C11", "C07")
    func = TRANSCRIPT + ".to_gff"
    shard_depth = 5
    name = "TranscriptInterval.to_gff[1 exon, coding, chunk-relative, chunk cutting the transcript]"
    call = "list(tx.to_gff(parent='gene1', chromosome_relative_coordinates=False))"
    ensures = {
        "row-types": lambda i, r: ([_etype(x.type) for x in r] == ["transcript", "exon", "CDS"]) if len(r) == 3 else (
            [_etype(x.type) for x in r] == ["transcript", "exon"]),
        "cds-row-iff-a-cds-base-is-visible": lambda i, r: (i.cvs < i.cve) if len(r) == 3 else Not(i.cvs < i.cve),
        "transcript-and-exon-rows-are-the-visible-part": lambda i, r: And(*[
            And(x.start == i.vs - i.cs + 1, x.end == i.ve - i.cs) for x in r[:2]]),
        "cds-row-is-the-visible-cds-part": lambda i, r: And(r[2].start == i.cvs - i.cs + 1, r[2].end == i.cve - i.cs)
        if len(r) == 3 else True,
        "cds-phase-is-the-frame-at-the-first-visible-base": lambda i, r: (
            enum_value(r[2].phase) == Mod(i.d5 - i.f, 3)) if len(r) == 3 else True,
        "strand-and-phase-columns": lambda i, r: And(all(_same_enum(x.strand, i.strand) for x in r),
                                                     all(_ename(x.phase) == "NONE" for x in r[:2])),
    }

    def inputs(self, S):
        starts, ends = block_lists(S, "tx", 1)
        strand = strand_of(S, "strand")
        cds_s, cds_e, c0, c1 = cds_in_exons(S, starts, ends)
        f = S.enum(FRAME, "frame")
        S.assume(Not(enum_name_is(f, "NONE")))
        if S.mode == "sym":
            f = S.e.enum_concretize(f)
        cp, cs, ce = chunk_parent(S)
        s, e = starts[0], ends[0]
        S.assume(Max(s, cs) < Min(e, ce))
        tx = S.new(TRANSCRIPT, starts, ends, strand, cds_starts=cds_s, cds_ends=cds_e, cds_frames=[f],
                   sequence_name="chr1", transcript_symbol="sym", parent_or_seq_chunk_parent=cp)
        plus = (strand.members[strand.idx][0] if hasattr(strand, "members") else strand.name) == "PLUS"
        cvs, cve = Max(cds_s[0], cs), Min(cds_e[0], ce)
        d5 = (cvs - cds_s[0]) if plus else (cds_e[0] - cve)
        return NS(tx=tx, strand=strand, cs=cs, vs=Max(s, cs), ve=Min(e, ce), cvs=cvs, cve=cve, d5=d5, f=enum_value(f))

    def samples(self, rng):
        d = sample_blocks(rng, "tx", 1, lo=2, length=(5, 8, 12))
        d["strand"] = rng.choice(["PLUS", "MINUS"])
        sample_cds(rng, d)
        cs = rng.randint(0, d["tx_ends"][-1] - 1)
        ce = rng.randint(cs + 1, d["tx_ends"][-1] + 3)
        d.update(chunk_start=cs, chunk_end=ce, chunk_seq="".join(rng.choice("ACGT") for _ in range(ce - cs)),
                 frame=rng.choice(["ZERO", "ONE", "TWO"]))
        return d

    observe = TranscriptRows.observe


class FeatureRows(Case):
    """FeatureInterval.to_gff: one feature row and one sub-region row per block, 1-based inclusive coordinates of the
    source blocks in the exported coordinate system (adjacent blocks stay separate rows), phase '.' everywhere."""
    props = ("C11", "C07")
    func = FEATURE + ".to_gff"

    def __init__(self, n, chunk=False):
        self.n, self.chunk = n, chunk
        mode = "chunk-relative" if chunk else "chromosome"
        self.name = f"FeatureInterval.to_gff[{n} blocks, {mode}]"
        self.call = f"list(f.to_gff(parent='fc1', chromosome_relative_coordinates={not chunk}))"
        self.ensures = {
            "row-count": lambda i, r: len(r) == 1 + n,
            "feature-row-is-span": lambda i, r: And(r[0].start == i.blocks[0][0] + 1, r[0].end == i.blocks[-1][1]),
            "block-rows-are-source-blocks": lambda i, r: And(*[
                And(r[1 + k].start == i.blocks[k][0] + 1, r[1 + k].end == i.blocks[k][1]) for k in range(n)]),
            "strand-everywhere": lambda i, r: all(_same_enum(x.strand, i.strand) for x in r),
            "no-phase": lambda i, r: all(_ename(x.phase) == "NONE" for x in r),
            "parent-wiring": lambda i, r: And(
                r[0].attributes.parent == "fc1",
                *[same_text(x.attributes.parent, r[0].attributes.id) for x in r[1:]]),
            "ids-pairwise-different": lambda i, r: all(
                same_text(r[a].attributes.id, r[b].attributes.id) is False
                for a in range(len(r)) for b in range(a + 1, len(r))),
        }

    def inputs(self, S):
        starts, ends = block_lists(S, "f", self.n)
        strand = strand_of(S, "strand")
        off, cp = 0, None
        if self.chunk:
            cp, cs, ce = chunk_parent(S)
            S.assume(And(cs <= starts[0], ends[-1] <= ce))
            off = cs
        f = S.new(FEATURE, starts, ends, strand, sequence_name="chr1", feature_id="f1", parent_or_seq_chunk_parent=cp)
        return NS(f=f, strand=strand, blocks=[(s - off, e - off) for s, e in zip(starts, ends)])

    def samples(self, rng):
        d = sample_blocks(rng, "f", self.n, lo=2, length=(1, 2, 3, 5))
        d["strand"] = rng.choice(["PLUS", "MINUS"])
        if self.chunk:
            cs = rng.randint(0, d["f_starts"][0])
            ce = d["f_ends"][-1] + rng.randint(0, 3)
            d.update(chunk_start=cs, chunk_end=ce, chunk_seq="".join(rng.choice("ACGT") for _ in range(ce - cs)))
        return d

    def observe(self, r):
        from pyvc.check import default_observe as o
        return [[_etype(x.type), o(x.start), o(x.end), _ename(x.strand), _ename(x.phase)] for x in r]


QKEYS = ("product", "protein_id", "note")


class GeneRowQualifiers(Case):
    """GeneInterval.to_gff, all rows materialised BEFORE any is rendered (as AnnotationCollection.to_gff does, which
    sorts the row objects first): every row carries exactly its own level's qualifiers - gene row: the gene's;
    transcript / exon rows: gene's + transcript's + protein id; CDS rows: those + product.  Nothing a child adds may
    appear on the gene row or on a sibling isoform (complete finite domain of qualifier placements, two isoforms)."""
    props = ("C11",)
    name = "GeneInterval.to_gff[row qualifiers per level, two isoforms, all placements]"
    func = "gene.gene.GeneInterval.to_gff"
    module = "gene.gene"
    call = ("[(r.type.name, [sorted(r.attributes.attributes.get(k, ())) for k in KEYS], r.attributes.parent is None) "
            "for r in list(GeneInterval(txs, gene_id='g1', sequence_name='chr1', qualifiers=gq).to_gff())]")
    ensures = {
        "row-kinds": lambda i, r: [x[0] for x in r] == ["GENE"] + ["TRANSCRIPT", "EXON", "CDS"] * 2,
        "gene-row-has-only-gene-qualifiers": lambda i, r: r[0][1] == [sorted(set(i.gq.get(k, ()))) for k in QKEYS],
        "isoform-rows-have-gene+own-qualifiers": lambda i, r: all(
            r[1 + 3 * j + t][1] == _expected_level(i, j, t) for j in range(2) for t in range(3)),
    }

    def inputs(self, S):
        zero = S.enum_const(FRAME, "ZERO")
        plus = S.enum_const(STRAND, "PLUS")
        spec = S.const("spec")
        gq = {k: list(v) for k, v in spec["gene"]}
        txs = []
        for j, t in enumerate(spec["tx"]):
            s = 10 * j
            txs.append(S.new(TRANSCRIPT, [s], [s + 9], plus, cds_starts=[s], cds_ends=[s + 9], cds_frames=[zero],
                             transcript_id=f"tx{j}", sequence_name="chr1", product=t["product"], protein_id=t["protein_id"],
                             qualifiers={k: list(v) for k, v in t["q"]}))
        return NS(txs=txs, gq=gq, tq=[{k: list(v) for k, v in t["q"]} for t in spec["tx"]],
                  prod=[t["product"] for t in spec["tx"]], pid=[t["protein_id"] for t in spec["tx"]],
                  KEYS=QKEYS, GeneInterval=S.cls("gene.gene.GeneInterval"))

    def ground(self):
        genes = [[], [["product", ["family"]]], [["note", ["n1"]], ["protein_id", ["gp"]]]]
        txq = [[], [["product", ["own"]]]]
        for g in genes:
            for q0, q1 in itertools.product(txq, repeat=2):
                for p0, p1 in (("iso 1", "iso 2"), (None, "iso 2"), ("iso 1", None)):
                    for i0, i1 in (("P1", "P2"), (None, "P2")):
                        yield dict(spec=dict(gene=g, tx=[dict(q=q0, product=p0, protein_id=i0),
                                                         dict(q=q1, product=p1, protein_id=i1)]))

    def observe(self, r):
        return [[x[0], [list(v) for v in x[1]], bool(x[2])] for x in r]


def _expected_level(i, j, t):
    """QKEYS value lists on row t (0 transcript, 1 exon, 2 CDS) of isoform j."""
    out = []
    for k in QKEYS:
        vals = set(i.gq.get(k, ())) | set(i.tq[j].get(k, ()))
        if k == "protein_id" and i.pid[j]:
            vals.add(i.pid[j])
        if k == "product" and t == 2 and i.prod[j]:
            vals.add(i.prod[j])
        out.append(sorted(vals))
    return out


def _etype(t):
    return t.members[t.idx][1] if hasattr(t, "members") else t.value


def _ename(e):
    return e.members[e.idx][0] if hasattr(e, "members") else e.name


def _same_enum(a, b):
    return enum_eq(a, b) if hasattr(a, "idx") else a is b


class CollectionRowOrder(Case):
    """AnnotationCollection.to_gff: the rows of ALL children, ordered by start (whatever the nesting of the loci: a
    host gene with two exons, a locus nested in it, a third locus starting before the host's second exon ...), every
    row kept exactly once, and every Parent attribute naming an ID defined on an EARLIER row."""
    props = ("C11", "C20")
    name = "AnnotationCollection.to_gff[rows of three loci ordered by start, parents first, any nesting]"
    func = "gene.collections.AnnotationCollection.to_gff"
    module = "gene.collections"
    shard_depth = 4
    call = "[(r.start, r.end, r.attributes.id, r.attributes.parent) for r in col.to_gff()]"
    ensures = {
        "ordered-by-start": lambda i, r: And(*[r[k][0] <= r[k + 1][0] for k in range(len(r) - 1)]),
        "every-row-exactly-once": lambda i, r: And(
            len(r) == 10,
            # rows are identified by their ID text; all ten IDs pairwise different
            all(same_text(r[a][2], r[b][2]) is False for a in range(len(r)) for b in range(a + 1, len(r))),
            # the multiset of (start, end) pairs is the expected one: compare the sums of starts and of ends and the
            # presence of every expected pair
            *[Or(*[And(x[0] == s + 1, x[1] == e) for x in r]) for s, e in i.expected_spans]),
        "parent-defined-on-an-earlier-row": lambda i, r: all(
            x[3] is None or any(same_text(r[b][2], x[3]) is True for b in range(a)) for a, x in enumerate(r)),
    }

    def inputs(self, S):
        strand = strand_of(S, "strand")
        h_s, h_e = block_lists(S, "host", 2, allow_adjacent=False)
        s1, e1, s2, e2 = S.int("s1"), S.int("e1"), S.int("s2"), S.int("e2")
        S.assume(And(0 <= s1, s1 < e1, 0 <= s2, s2 < e2))
        host = S.new(GENE_Q, [S.new(TRANSCRIPT, h_s, h_e, strand, transcript_id="txh", sequence_name="chr1")],
                     gene_id="host", sequence_name="chr1")
        g1 = S.new(GENE_Q, [S.new(TRANSCRIPT, [s1], [e1], strand, transcript_id="tx1", sequence_name="chr1")],
                   gene_id="g1", sequence_name="chr1")
        g2 = S.new(GENE_Q, [S.new(TRANSCRIPT, [s2], [e2], strand, transcript_id="tx2", sequence_name="chr1")],
                   gene_id="g2", sequence_name="chr1")
        col = S.new("gene.collections.AnnotationCollection", genes=[host, g1, g2], sequence_name="chr1")
        spans = [(h_s[0], h_e[1])] * 2 + [(h_s[0], h_e[0]), (h_s[1], h_e[1])] + [(s1, e1)] * 3 + [(s2, e2)] * 3
        return NS(col=col, expected_spans=spans)

    def samples(self, rng):
        a = rng.randint(0, 5)
        b = a + rng.randint(1, 4)
        c = b + rng.randint(2, 9)
        d = c + rng.randint(1, 4)
        s1 = rng.randint(0, d)
        s2 = rng.randint(0, d + 2)
        return dict(host_starts=[a, c], host_ends=[b, d], strand=rng.choice(["PLUS", "MINUS"]), s1=s1,
                    e1=s1 + rng.randint(1, 4), s2=s2, e2=s2 + rng.randint(1, 4))

    def observe(self, r):
        from pyvc.check import default_observe as o
        return [[o(x[0]), o(x[1]), x[3] is None] for x in r]


GENE_Q = "gene.gene.GeneInterval"


class RowText(Case):
    """GFFRow.__str__: nine tab-separated columns in the documented order."""
    props = ("C11",)
    name = "GFFRow.__str__[nine columns]"
    func = ROWS + "GFFRow.__str__"
    module = "io.gff3.rows"
    call = ("str(GFFRow('chr1', 'BioCantor', BioCantorFeatureTypes.CDS, start, end, '.', strand, CDSPhase.ONE, "
            "GFFAttributes(id='x', qualifiers={})))")
    ensures = {"nine-columns": lambda i, r: text_equals(r, ["chr1\tBioCantor\tCDS\t", i.start, "\t", i.end, "\t.\t" +
                                                             {"PLUS": "+", "MINUS": "-", "UNSTRANDED": "."}[_ename(i.strand)]
                                                             + "\t1\tID=x"])}

    def inputs(self, S):
        return NS(start=S.int("start"), end=S.int("end"), strand=strand_of(S, "strand", directed=False),
                  CDSPhase=S.cls("gene.cds_frame.CDSPhase"))

    def samples(self, rng):
        return dict(start=rng.randint(1, 99), end=rng.randint(1, 999), strand=rng.choice(["PLUS", "MINUS", "UNSTRANDED"]))

    def observe(self, r):
        from .c14_bed import BedText
        return BedText.observe(self, r)


CASES = [Escape(), AttributesColumn(), RowText(), TranscriptRows(1), TranscriptRows(2), TranscriptRows(1, True),
         TranscriptRows(2, True), FeatureRows(2), FeatureRows(2, True), FeatureRows(3, True),
         GeneRowQualifiers(), CollectionRowOrder(), TranscriptRows(1, cut=True), TranscriptRows(2, cut=True), TranscriptRowsChunkCut()]

CANARIES = [
    dict(name="gff: start not shifted to 1-based", props=("C11",), file="inscripta/biocantor/gene/transcript.py",
         old="                BioCantorFeatureTypes.EXON,\n                start + 1,",
         new="                BioCantorFeatureTypes.EXON,\n                start,",
         case="TranscriptInterval.to_gff[1 exons, coding, chromosome]", expect="post:exon-rows-are-source-blocks"),
]


# ---- bounded: export -> library parse-back (natively: the GFF3 parser needs gffutils' sqlite database) ---------------
HOSTILE = ["plain", "semi;colon", "a=b", "100% sure", "tab\tin", "x>y&z", "two words", "café", "line\nbreak"]


class ParseBack(Case):
    """'Parsing the exported file returns, for every gene, the same exons, CDS blocks, frames, strand and identifiers
    (ids, symbols, locus tag, biotypes, protein id, product, other qualifiers up to documented case-folding)':
    AnnotationCollection.to_gff text written to a temporary file, read by the library's own parser
    (gffutils.create_db with the parser's default arguments + io.gff3.parser._parse_genes - the step before the
    marshmallow schema, which cannot be imported here), compared with the source model field by field.
    Qualifier values avoid comma and double quote (excluded by the property's quantifier)."""
    props = ("C11",)
    proved = False
    name = "bounded: GFF3 export read back by the library's parser (gffutils + _parse_genes)"
    func = "io.gff3.parser._parse_genes"
    scope = ("collections of 2 genes drawn from: 1-3 exon transcripts x both strands x {coding with start frame 0/1/2, "
             "CDS a sub-interval of the exons; non-coding}, genes with 1-2 isoforms, identifiers present or absent, "
             "qualifier keys in mixed case and values over a hostile alphabet (; = % tab > & space unicode newline)")
    call = "_roundtrip(col)"
    # known finding F-C11-1: the parser reads transcript_biotype (and transcript_name) from the GENE row
    known = {"transcript-fields": dict(id="F-C11-1", carve=lambda i: any(
        t["type"] != g["type"] for g in i.model for t in g["txs"]))}
    ensures = {
        "same-genes-in-order": lambda i, r: [g["gene_id"] for g in r] == [g["gene_id"] for g in i.model],
        "gene-fields": lambda i, r: all(
            (p["gene_id"], p["gene_symbol"], p["locus_tag"], p["gene_type"]) == (g["gene_id"], g["symbol"], g["locus_tag"], g["type"])
            and _quals(p["qualifiers"]) == _fold(g["quals"]) for p, g in zip(r, i.model)),
        "exons-cds-frames-strand": lambda i, r: all(
            len(p["transcripts"]) == len(g["txs"]) and all(
                (pt["exon_starts"], pt["exon_ends"], pt["strand"]) == ([a for a, _ in t["exons"]], [b for _, b in t["exons"]], g["strand"])
                and (pt["cds_starts"], pt["cds_ends"], pt["cds_frames"]) == (
                    ([a for a, _ in t["cds"]], [b for _, b in t["cds"]], t["frames"]) if t["cds"] else (None, None, None))
                for pt, t in zip(_by_id(p["transcripts"]), _by_id(g["txs"], "tid")))
            for p, g in zip(r, i.model)),
        "transcript-fields": lambda i, r: all(
            (pt["transcript_id"], pt["transcript_type"], pt["protein_id"], pt["product"]) == (t["tid"], t["type"], t["protein_id"], t["product"])
            and (t["symbol"] is None or pt["transcript_symbol"] == t["symbol"])
            for p, g in zip(r, i.model) for pt, t in zip(_by_id(p["transcripts"]), _by_id(g["txs"], "tid"))),
        # children carry their parents' qualifiers in the file (documented), so a parsed transcript has the union
        "transcript-qualifiers-are-own-plus-gene's": lambda i, r: all(
            _quals(pt["qualifiers"]) == _merge(_fold(t["quals"]), _fold(g["quals"]))
            for p, g in zip(r, i.model) for pt, t in zip(_by_id(p["transcripts"]), _by_id(g["txs"], "tid"))),
    }

    def inputs(self, S):
        import os
        import tempfile
        from inscripta.biocantor.gene import (AnnotationCollection, GeneInterval, TranscriptInterval, CDSFrame, Biotype)
        from inscripta.biocantor.gene.cds import CDSInterval
        from inscripta.biocantor.location.strand import Strand
        from inscripta.biocantor.location.location_impl import CompoundInterval, SingleInterval
        model = S.const("genes")
        genes = []
        for g in model:
            txs = []
            for t in g["txs"]:
                kw = {}
                if t["cds"]:
                    st = Strand[g["strand"]]
                    cb = t["cds"]
                    loc = (SingleInterval(cb[0][0], cb[0][1], st) if len(cb) == 1 else
                           CompoundInterval([a for a, _ in cb], [b for _, b in cb], st))
                    fr = CDSInterval.construct_frames_from_location(loc, CDSFrame[t["f0"]])
                    t["frames"] = [f.name for f in fr]
                    kw = dict(cds_starts=[a for a, _ in cb], cds_ends=[b for _, b in cb], cds_frames=fr)
                txs.append(TranscriptInterval([a for a, _ in t["exons"]], [b for _, b in t["exons"]], Strand[g["strand"]],
                                              transcript_id=t["tid"], transcript_symbol=t["symbol"],
                                              transcript_type=Biotype[t["type"]], protein_id=t["protein_id"],
                                              product=t["product"], qualifiers={k: list(v) for k, v in t["quals"]},
                                              sequence_name="chr1", **kw))
            genes.append(GeneInterval(txs, gene_id=g["gene_id"], gene_symbol=g["symbol"], locus_tag=g["locus_tag"],
                                      gene_type=Biotype[g["type"]], qualifiers={k: list(v) for k, v in g["quals"]},
                                      sequence_name="chr1"))
        col = AnnotationCollection(genes=genes, sequence_name="chr1")

        def _roundtrip(col):
            import gffutils
            gp = S.tolerant_module("io.gff3.parser")
            text = "##gff-version 3\n" + "\n".join(str(r) for r in col.to_gff()) + "\n"
            fd, path = tempfile.mkstemp(suffix=".gff3")
            try:
                os.write(fd, text.encode("utf-8"))
                os.close(fd)
                db = gffutils.create_db(path, ":memory:", **gp.GffutilsParseArgs().__dict__)
                return gp._parse_genes("chr1", db)
            finally:
                os.unlink(path)

        return NS(col=col, model=model, _roundtrip=_roundtrip)

    def domain(self, tier):
        layouts = [[(2, 23)], [(2, 11), (14, 23)], [(3, 12), (12, 24)], [(1, 8), (10, 20), (25, 40)]]
        txs = []
        k = 0
        for bl in layouts:
            for coding in (True, False):
                for f0 in (("ZERO", "ONE", "TWO") if coding else ("ZERO",)):
                    k += 1
                    cds = None
                    if coding:
                        lo, hi = bl[0][0] + 1, bl[-1][1] - 1
                        cds = [(max(a, lo), min(b, hi)) for a, b in bl if max(a, lo) < min(b, hi)]
                    h = HOSTILE[k % len(HOSTILE)]
                    txs.append(dict(exons=bl, cds=cds, f0=f0, tid=f"t{k}", symbol=(f"sym{k}" if k % 3 else None),
                                    type="protein_coding" if coding else "lncRNA",
                                    protein_id=(f"prot{k}" if coding and k % 2 else None),
                                    product=(h if coding else None),
                                    quals=[["Remark", [h]], [f"key{k % 4}", ["v1", HOSTILE[(k + 3) % len(HOSTILE)]]]],
                                    frames=None))
        genes = []
        for j in range(0, len(txs) - 1, 2):
            for strand in ("PLUS", "MINUS"):
                # (identifiers in the file are content digests: every transcript gets its own id per gene)
                a = dict(txs[j], tid=f"{txs[j]['tid']}a{strand[0]}")
                a2 = dict(txs[j], tid=f"{txs[j]['tid']}b{strand[0]}")
                b = dict(txs[j + 1], tid=f"{txs[j + 1]['tid']}b{strand[0]}")
                # one single-isoform gene and one two-isoform gene per pair of layouts
                gtype = a["type"]
                genes.append(dict(gene_id=f"g{j}{strand[0]}", symbol=f"G{j}", locus_tag=(f"LT{j}" if j % 4 else None),
                                  type=gtype, strand=strand, txs=[a],
                                  quals=[["Gene_Key", [HOSTILE[j % len(HOSTILE)]]]]))
                genes.append(dict(gene_id=f"h{j}{strand[0]}", symbol=None, locus_tag=f"LX{j}", type=a["type"], strand=strand,
                                  txs=[a2, b], quals=[]))
        pairs = [genes[k:k + 2] for k in range(0, len(genes) - 1, 2)]
        if tier == "quick":
            pairs = pairs[::2]
        for p in pairs:
            yield dict(genes=p)

    def observe(self, r):
        return [[g["gene_id"], [t["transcript_id"] for t in g["transcripts"]]] for g in r]


def _fold(pairs):
    """documented case-folding: non-reserved qualifier keys are written lower-cased; values are kept as sets"""
    out = {}
    for k, v in pairs:
        out.setdefault(k.lower(), set()).update(str(x) for x in v)
    return {k: sorted(v) for k, v in out.items()}


def _quals(d):
    return {k: sorted(v) for k, v in (d or {}).items()}


def _merge(a, b):
    out = {k: set(v) for k, v in a.items()}
    for k, v in b.items():
        out.setdefault(k, set()).update(v)
    return {k: sorted(v) for k, v in out.items()}


def _by_id(ts, key="transcript_id"):
    return sorted(ts, key=lambda t: str(t[key]))


CASES.append(ParseBack())
