"""C01 / C02 — compound x compound set algebra and compound interval forms, proved for ALL integer coordinates with
the block counts fixed (1 or 2 blocks per operand; the real code runs on the real objects, every comparison forks)."""
from pyvc.spec import *  # noqa
from pyvc.sources import NS
from .common import *  # noqa
from .gene_common import block_lists, sample_blocks, strand_of
from .c02_single import covers_pos, wf_result, blocks_of, obs_loc
from .lib import LIB  # noqa


def loc(S, name, n, strand):
    starts, ends = block_lists(S, name, n)
    obj = S.new(COMPOUND, starts, ends, strand) if n > 1 else S.new(SINGLE, starts[0], ends[0], strand)
    return obj, starts, ends


def cov(starts, ends, p):
    return Or(*[And(s <= p, p < e) for s, e in zip(starts, ends)])


class PairAlgebra(Case):
    props = ("C02",)
    func = COMPOUND + ".intersection"

    def __init__(self, na, nb, op):
        self.na, self.nb, self.op = na, nb, op
        self.tier = "thorough" if na + nb >= 5 else "quick"
        self.name = f"{op}[{na} x {nb} blocks, all coordinates]"
        self.call = {"intersection": "a.intersection(b, match_strand=False)",
                     "minus": "a.minus(b, match_strand=False)",
                     "union": "a.union(b)",
                     "has_overlap": "a.has_overlap(b)",
                     "contains": "a.contains(b)"}[op]
        A = lambda i: cov(i.as_, i.ae, i.p)  # noqa
        B = lambda i: cov(i.bs, i.be, i.p)  # noqa
        if op == "intersection":
            self.ensures = {"position-set": lambda i, r: Iff(covers_pos(r, i.p), And(A(i), B(i))),
                            "normalised": lambda i, r: wf_result(r)}
        elif op == "minus":
            self.ensures = {"position-set": lambda i, r: Iff(covers_pos(r, i.p), And(A(i), Not(B(i))))}
        elif op == "union":
            self.ensures = {"position-set": lambda i, r: Iff(covers_pos(r, i.p), Or(A(i), B(i))),
                            "well-formed": lambda i, r: wf_result(r, optimized=False)}
        elif op == "has_overlap":
            self.ensures = {"iff-common-position": lambda i, r: Iff(r, _exists_common(i))}
        else:
            self.ensures = {"iff-subset": lambda i, r: Iff(r, _subset(i))}

    def inputs(self, S):
        strand = strand_of(S, "strand")
        a, as_, ae = loc(S, "a", self.na, strand)
        b, bs, be = loc(S, "b", self.nb, strand)
        return NS(a=a, b=b, as_=as_, ae=ae, bs=bs, be=be, p=S.int("p"))

    def samples(self, rng):
        d = sample_blocks(rng, "a", self.na)
        d.update(sample_blocks(rng, "b", self.nb))
        d.update(strand=rng.choice(["PLUS", "MINUS"]), p=rng.randint(0, 14))
        return d

    def observe(self, r):
        from pyvc.check import default_observe as o
        if class_name(r) in ("_EmptyLocation", "SingleInterval", "CompoundInterval"):
            return obs_loc(r)[:2]
        return o(r)


def _exists_common(i):
    """some position lies in both (blocks non-empty): a block of a and a block of b overlap."""
    return Or(*[Max(s1, s2) < Min(e1, e2) for s1, e1 in zip(i.as_, i.ae) for s2, e2 in zip(i.bs, i.be)])


def _subset(i):
    """every block of b lies inside the union of a's blocks (a's blocks disjoint, possibly adjacent)."""
    def block_in_a(s, e):
        # covered by one block, or by two adjacent blocks of a
        one = Or(*[And(sa <= s, e <= ea) for sa, ea in zip(i.as_, i.ae)])
        two = False
        n = len(i.as_)
        runs = []
        for lo in range(n):
            for hi in range(lo + 1, n):
                # blocks lo..hi of a are pairwise adjacent and together contain [s, e)
                runs.append(And(*[i.ae[t] == i.as_[t + 1] for t in range(lo, hi)], i.as_[lo] <= s, e <= i.ae[hi]))
        two = Or(*runs) if runs else False
        return Or(one, two)
    return And(*[block_in_a(s, e) for s, e in zip(i.bs, i.be)])


class CompoundIntervalForm(Case):
    """CompoundInterval.relative_interval_to_parent_location for 2 (3: thorough) blocks, all coordinates: the j-th
    base of the result is the point-wise image of relative position a+j."""
    props = ("C01",)
    func = COMPOUND + ".relative_interval_to_parent_location"

    def __init__(self, n):
        self.n = n
        self.tier = "thorough" if n >= 4 else "quick"
        self.name = f"CompoundInterval.relative_interval_to_parent_location[{n} blocks, all coordinates]"
        self.call = ("(lambda r: (r.relative_to_parent_pos(j), len(r), r.strand))"
                     "(loc.relative_interval_to_parent_location(x, y, Strand.PLUS)), loc.relative_to_parent_pos(x + j)")
        self.call = ("((lambda r: (r.relative_to_parent_pos(j), len(r), r.strand))"
                     "(loc.relative_interval_to_parent_location(x, y, Strand.PLUS)), loc.relative_to_parent_pos(x + j))")
        self.module = "location.location_impl"
        self.ensures = {
            "same-base-same-order": lambda i, r: r[0][0] == r[1],
            "length": lambda i, r: r[0][1] == i.y - i.x,
            "strand": lambda i, r: enum_eq(r[0][2], i.strand) if hasattr(i.strand, "idx") else r[0][2] is i.strand,
        }

    def inputs(self, S):
        strand = strand_of(S, "strand")
        l, starts, ends = loc(S, "loc", self.n, strand)
        total = sum((e - s for s, e in zip(starts, ends)), 0)
        x, y, j = S.int("x"), S.int("y"), S.int("j")
        S.assume(And(0 <= x, x < y, y <= total, 0 <= j, j < y - x))
        return NS(loc=l, x=x, y=y, j=j, strand=strand, Strand=S.cls(STRAND))

    def samples(self, rng):
        d = sample_blocks(rng, "loc", self.n)
        total = sum(e - s for s, e in zip(d["loc_starts"], d["loc_ends"]))
        x = rng.randint(0, total - 1)
        y = rng.randint(x + 1, total)
        d.update(strand=rng.choice(["PLUS", "MINUS"]), x=x, y=y, j=rng.randint(0, y - x - 1))
        return d


CASES = [PairAlgebra(na, nb, op) for op in ("intersection", "minus", "union", "has_overlap", "contains")
         for na, nb in ((2, 1), (1, 2), (2, 2), (3, 2))]
CASES += [CompoundIntervalForm(2), CompoundIntervalForm(3), CompoundIntervalForm(4)]
