"""Frame conditions per property: every property is stated about VALUES returned by calls, so it presupposes that the
classes it runs through do not change observable state behind the caller's back (an answer may not depend on which
calls came before).  The static frame back end (pyvc/static.py: only declared memo slots, written only by their owning
accessor, or objects allocated in the call may be written; operands and their containers are never mutated) is run on
the classes each property depends on, so a cache or an aliasing slip in one of them fails that property's check, not
only C10's."""
from pyvc.spec import *  # noqa

L = "location.location_impl."
AI, AFI, AFIC = "gene.interval.AbstractInterval", "gene.interval.AbstractFeatureInterval", \
    "gene.interval.AbstractFeatureIntervalCollection"
GROUPS = {
    ("C01", "C02"): [L + "SingleInterval", L + "CompoundInterval", L + "_EmptyLocation", "location.location.Location"],
    ("C03",): ["sequence.sequence.Sequence", L + "SingleInterval", L + "CompoundInterval"],
    ("C04",): ["parent.parent.Parent", "sequence.sequence.Sequence", AI],
    ("C05", "C07"): ["gene.cds.CDSInterval", AFI, AI],
    ("C06",): ["gene.transcript.TranscriptInterval", AFI, AI],
    ("C08",): ["gene.transcript.TranscriptInterval", "gene.cds.CDSInterval", "gene.feature.FeatureInterval",
               "gene.gene.GeneInterval", "gene.feature.FeatureIntervalCollection", "gene.variants.VariantInterval",
               "gene.variants.VariantIntervalCollection", "gene.collections.AnnotationCollection", AI, AFI],
    ("C09",): ["gene.collections.AnnotationCollection", AFIC, AI],
    ("C11",): ["io.gff3.rows.GFFAttributes", "io.gff3.rows.GFFRow", AFI,
               "gene.gene.GeneInterval", "gene.transcript.TranscriptInterval", "gene.cds.CDSInterval",
               "gene.feature.FeatureInterval", "gene.feature.FeatureIntervalCollection"],
    ("C13",): ["gene.variants.VariantInterval", "gene.variants.VariantIntervalCollection"],
    ("C14",): ["gene.feature.FeatureInterval", "gene.transcript.TranscriptInterval", "gene.cds.CDSInterval", AFI, AI,
               "io.bed.bed.BED12"],
    ("C16",): ["gene.collections.AnnotationCollection", "gene.gene.GeneInterval", "gene.feature.FeatureIntervalCollection"],
    ("C18",): [AFI],
    ("C19",): [L + "SingleInterval", L + "CompoundInterval", "parent.parent.Parent", "sequence.sequence.Sequence"],
    ("C20",): ["gene.gene.GeneInterval", "gene.feature.FeatureIntervalCollection", AFIC,
               "gene.collections.AnnotationCollection"],
}


# Known finding F-C10-3: these memoised accessors read ``_location``, which the collection constructors re-assign IN PLACE on
# their children (``_reset_parent`` / ``_liftover_this_location_to_seq_chunk_parent``) without invalidating the
# per-object caches: ``tx.has_sequence`` asked before ``GeneInterval([tx], parent_or_seq_chunk_parent=P)`` stays False
# afterwards while a fresh twin says True.  The list is the set of sites on the pinned tree (never extended at run
# time): a NEW memoised accessor over a re-assignable field is reported as a violation.
_R = "frame:memoised-accessor-reads-only-construction-time-fields"
STALE_MEMO_SITES = {f"{q}/{_R}": "F-C10-3" for q in (
    "gene.cds.CDSInterval._prepare_multi_exon_window_for_scan_codon_locations",
    "gene.cds.CDSInterval._prepare_single_exon_window_for_scan_codon_locations",
    "gene.cds.CDSInterval.chromosome_codon_locations",
    "gene.cds.CDSInterval.chunk_relative_codon_locations",
    "gene.cds.CDSInterval.extract_sequence",
    "gene.cds.CDSInterval.has_in_frame_stop",
    "gene.cds.CDSInterval.translate",
    "gene.interval.AbstractFeatureInterval._chunk_relative_bounded_chromosome_location",
    "gene.interval.AbstractFeatureInterval.chunk_relative_gaps_location",
    "gene.interval.AbstractFeatureInterval.chunk_relative_span",
    "gene.interval.AbstractFeatureInterval.get_genomic_sequence",
    "gene.interval.AbstractFeatureInterval.get_reference_sequence",
    "gene.interval.AbstractFeatureInterval.get_spliced_sequence",
    "gene.interval.AbstractInterval._chunk_relative_bounded_chromosome_location",
    "gene.interval.AbstractInterval.has_sequence",
    "gene.transcript.TranscriptInterval.get_transcript_sequence",
)}


# module-level constructors of parents that the classes of these properties are built on: they may keep no state
# between calls either (a cache keyed without the sequence text hands back another genome's chunk)
PARENT_BUILDERS = ["io.parser.seq_chunk_to_parent", "io.parser.seq_to_parent"]
GROUP_FUNCTIONS = {("C04",): PARENT_BUILDERS, ("C05", "C07"): PARENT_BUILDERS, ("C09",): PARENT_BUILDERS}


def _mk(props, classes):
    class Frame(Case):
        pass
    c = Frame()
    c.props = props
    c.name = "frame conditions (no hidden state) on the classes this property runs through: " + ", ".join(
        x.split(".")[-1] for x in classes)
    c.func = classes[0] + ".__init__"
    # identifiers are digests of the stored fields: where C08 is concerned, a field may not store a container whose
    # ORDER comes from set iteration (the 'order' obligations of the static back end)
    kinds = ("frame", "identity", "kind", "order") if "C08" in props else ("frame", "identity", "kind")
    c.static = dict(classes=classes, kinds=kinds, accepted={}, known=dict(STALE_MEMO_SITES), constructors="C08" in props,
                    functions=list(GROUP_FUNCTIONS.get(props, [])))
    return c


CASES = [_mk(p, cl) for p, cl in GROUPS.items()]
