"""Path-forking symbolic executor for the Python subset of DESIGN.md 2.2.

Forking is done by re-execution: one run follows one path, recording at every symbolic decision which alternatives
were feasible; the driver (``explore``) then re-runs with other decision prefixes.  Loops over symbolic-length
sequences are cut by contract invariants, calls to functions with a registered summary are replaced by it, all other
repo calls execute the real body taken from the AST of the file on disk.
"""
import ast
import itertools
import time

import z3

from .values import *  # noqa
from .repo import ClassInfo, FuncInfo, ModuleInfo, BUILTIN_EXC_PARENT

MAX_CALL_DEPTH = 40


class Frame:
    def __init__(self, finfo, module, locals_=None, closure=None):
        self.finfo = finfo
        self.module = module
        self.locals = locals_ if locals_ is not None else {}
        self.closure = closure
        self.loop_counter = 0

    def lookup(self, name):
        f = self
        while f is not None:
            if name in f.locals:
                return True, f.locals[name]
            f = f.closure
        return False, None


class Obligation:
    """Result of one side obligation on one path."""

    def __init__(self, name, status, model=None, seconds=0.0, note=""):
        self.name = name
        self.status = status  # 'unsat' (holds) | 'sat' (refuted) | 'unknown'
        self.model = model
        self.seconds = seconds
        self.note = note


class Interp:
    def __init__(self, repo, summaries=None, loop_specs=None, axioms=None, timeout_ms=10000, seed=0):
        self.repo = repo
        self.summaries = summaries or {}
        self.loop_specs = loop_specs or {}
        self.axioms = list(axioms or [])
        self.timeout_ms = timeout_ms
        self.feas_timeout_ms = 300
        self.seed = seed
        self._enum_cache = {}
        self._fresh = itertools.count()
        self.input_syms = {}
        self.reset_path([])

    # ------------------------------------------------------------------ path management
    def reset_path(self, prefix):
        self.prefix = list(prefix)
        self.pos = 0
        self.trace = []  # (choice, feasible list)
        self.pc = []
        self.solver = z3.Solver()
        self.solver.set("timeout", self.timeout_ms)
        self.solver.set("random_seed", self.seed)
        self.qf_solver = z3.Solver()  # quantifier-free part of the path condition: fast feasibility pre-check
        self.qf_solver.set("timeout", 1000)
        self.has_quant = False
        for a in self.axioms:
            self._add(a)
        self.side = []  # Obligation results on this path
        self.depth = 0
        self._fresh = itertools.count()
        self.solver_time = 0.0
        self.ghost = {}
        self.call_stack = []
        self.branch_budget = None  # frontier pass: number of branching decisions still allowed on this path

    def fresh_int(self, hint="v"):
        return z3.Int(f"{hint}!{next(self._fresh)}")

    def fresh_bool(self, hint="b"):
        return z3.Bool(f"{hint}!{next(self._fresh)}")

    def fresh_array(self, hint="a"):
        return z3.Array(f"{hint}!{next(self._fresh)}", z3.IntSort(), z3.IntSort())

    def assume(self, cond):
        if cond is True:
            return
        if cond is False:
            raise PathAbort()
        cond = z3.simplify(cond)
        if z3.is_true(cond):
            return
        if z3.is_false(cond):
            raise PathAbort()
        self.pc.append(cond)
        self._add(cond)

    def _add(self, cond):
        self.solver.add(cond)
        if _has_quantifier(cond):
            self.has_quant = True
        else:
            self.qf_solver.add(cond)

    def _feasible(self, c):
        """May ``c`` hold on this path?  Sound over-approximation: 'False' only on an unsat answer."""
        t = time.time()
        try:
            if self.qf_solver.check(c) == z3.unsat:
                return False
            if not self.has_quant:
                return True
            self.solver.set("timeout", self.feas_timeout_ms)
            return self.solver.check(c) != z3.unsat
        finally:
            self.solver_time += time.time() - t

    def _check(self, *assumptions, proof=False):
        t = time.time()
        budget = self.timeout_ms if proof else self.feas_timeout_ms
        self.solver.set("timeout", budget)
        r = self.solver.check(*assumptions)
        if proof and r == z3.unknown and (time.time() - t) * 1000 >= 0.8 * budget:
            # timed out (not 'gave up on quantifiers'): quantifier instantiation is sensitive to the search order, so the
            # same query is retried on FRESH solvers with other random seeds and three times the budget (a verdict must
            # not flip on a loaded machine)
            for seed in (7, 23):
                s2 = z3.Solver()
                s2.set("timeout", 3 * budget)
                s2.set("random_seed", seed)
                s2.add(*self.solver.assertions())
                r = s2.check(*assumptions)
                if r != z3.unknown:
                    break
        self.solver_time += time.time() - t
        return r

    def decide(self, conds):
        """Choose among exhaustive, mutually exclusive conditions; returns the chosen index."""
        if self.pos < len(self.prefix):
            # replaying a recorded prefix: feasibility of this choice was established when it was recorded
            choice = self.prefix[self.pos]
            self.trace.append((choice, [choice]))
            self.pos += 1
            c = conds[choice]
            if c is not True:
                if c is False:
                    raise PathAbort()
                self.pc.append(c)
                self._add(c)
            return choice
        feas = []
        for i, c in enumerate(conds):
            if c is True:
                feas.append(i)
                continue
            if c is False:
                continue
            if self._feasible(c):
                feas.append(i)
        if not feas:
            raise PathAbort()
        if self.pos < len(self.prefix):
            choice = self.prefix[self.pos]
            if choice not in feas:
                raise PathAbort()
        else:
            choice = feas[0]
        if self.branch_budget is not None and len(feas) > 1:
            if self.branch_budget <= 0:
                raise FrontierReached()
            self.branch_budget -= 1
        self.trace.append((choice, feas))
        self.pos += 1
        c = conds[choice]
        if c is not True:
            self.pc.append(c)
            self._add(c)
        return choice

    def branch(self, cond):
        """Python-level ``if cond`` on an already truth-converted value (bool or z3 Bool)."""
        if isinstance(cond, bool):
            return cond
        cond = z3.simplify(cond)
        if z3.is_true(cond):
            return True
        if z3.is_false(cond):
            return False
        return self.decide([cond, z3.Not(cond)]) == 0

    def prove(self, name, cond, note="", split=True):
        """Side obligation: ``cond`` must follow from the path condition.  Recorded, then assumed.
        A conjunction is proved conjunct by conjunct (earlier conjuncts are available for later ones)."""
        if split and isinstance(cond, z3.BoolRef) and z3.is_and(cond) and cond.num_args() > 1:
            for idx, c in enumerate(cond.children()):
                self.prove(f"{name}#{idx}", c, note, split=False)
            return
        if cond is True:
            self.side.append(Obligation(name, "unsat", note=note))
            return
        if cond is False:
            cond = z3.BoolVal(False)
        t = time.time()
        r = self._check(z3.Not(cond), proof=True)
        dt = time.time() - t
        if r == z3.unsat:
            self.side.append(Obligation(name, "unsat", seconds=dt, note=note))
        elif r == z3.sat:
            self.side.append(Obligation(name, "sat", model=self.solver.model(), seconds=dt, note=note))
        else:
            self.side.append(Obligation(name, "unknown", seconds=dt, note=note))
        # continue under the assumption that it holds (standard assert-then-assume)
        self.assume(cond)

    # ------------------------------------------------------------------ enums
    def enum_members(self, cls):
        """Canonical members [(name, value)] and alias map name->index for an Enum class."""
        key = cls.qualname
        if key not in self._enum_cache:
            members, alias = [], {}
            byval = {}
            for c in reversed(cls.mro(self.repo)):
                for name in c.member_order:
                    if name.startswith("_"):
                        continue
                    expr = c.class_assigns[name]
                    try:
                        val = ast.literal_eval(expr)
                    except Exception:
                        val = self._const_eval(c.module, expr, cls_ctx=(cls, members, alias))
                    if isinstance(val, (list, dict, set)):
                        continue
                    hv = (type(val).__name__, val)
                    if hv in byval:
                        alias[name] = byval[hv]
                    else:
                        byval[hv] = len(members)
                        alias[name] = len(members)
                        members.append((name, val))
            self._enum_cache[key] = (members, alias)
        return self._enum_cache[key]

    def enum_member(self, cls, name):
        members, alias = self.enum_members(cls)
        if name not in alias:
            raise PyExc("AttributeError", name)
        return EnumVal(cls, alias[name], members)

    def enum_sym(self, cls, hint="e"):
        members, _ = self.enum_members(cls)
        idx = z3.Int(f"{hint}")
        self.assume(z3.And(idx >= 0, idx < len(members)))
        return EnumVal(cls, idx, members)

    def enum_concretize(self, e):
        """Fork until the member is concrete."""
        if e.concrete:
            return e
        n = len(e.members)
        i = self.decide([e.idx == k for k in range(n)])
        return EnumVal(e.cls, i, e.members)

    def enum_value(self, e):
        if e.concrete:
            return e.value
        vals = [v for _, v in e.members]
        if all(isinstance(v, int) and not isinstance(v, bool) for v in vals):
            expr = z3.IntVal(vals[-1])
            for k in range(len(vals) - 2, -1, -1):
                expr = z3.If(e.idx == k, z3.IntVal(vals[k]), expr)
            return expr
        return self.enum_concretize(e).value

    def enum_from_value(self, cls, v):
        members, _ = self.enum_members(cls)
        if is_sym(v):
            conds = [v == mv for _, mv in members if isinstance(mv, int)]
            idxs = [k for k, (_, mv) in enumerate(members) if isinstance(mv, int)]
            other = z3.And([z3.Not(c) for c in conds]) if conds else True
            i = self.decide(conds + [other])
            if i == len(conds):
                raise PyExc("ValueError", "not a valid enum value")
            return EnumVal(cls, idxs[i], members)
        if isinstance(v, EnumVal):
            if v.cls is cls:
                return v
            v = self.enum_value(v)
        for k, (_, mv) in enumerate(members):
            if type(mv) is type(v) and mv == v or (isinstance(mv, int) and isinstance(v, int) and mv == v
                                                    and not isinstance(v, bool)):
                return EnumVal(cls, k, members)
        raise PyExc("ValueError", f"{v!r} is not a valid {cls.name}")

    # ------------------------------------------------------------------ constants
    def _const_eval(self, module, expr, cls_ctx=None):
        fr = Frame(None, module)
        return self.eval(expr, fr)

    # ------------------------------------------------------------------ truthiness / comparison helpers
    def resolve(self, v):
        """Resolve an OptVal to None or its payload by forking."""
        if isinstance(v, OptVal):
            if v.resolved is None:
                isn = self.branch(v.is_none)
                v.resolved = "none" if isn else "val"
            return None if v.resolved == "none" else v.val
        return v

    def truth(self, v):
        v = self.resolve(v)
        if v is None:
            return False
        if isinstance(v, bool) or is_symbool(v):
            return v
        if isinstance(v, int):
            return v != 0
        if is_symint(v):
            return v != 0
        if isinstance(v, (str, list, tuple, dict, set, frozenset, bytes)):
            return len(v) != 0
        if isinstance(v, (SList, LazySeq)):
            return v.length != 0 if is_sym(v.length) else (v.length != 0)
        if isinstance(v, SymStr):
            return v.length != 0
        if type(v).__name__ == "MSet":
            if v.items:
                return True
            return _or([_z3i(hi) > _z3i(lo) for lo, hi in v.ranges])
        if isinstance(v, EnumVal):
            if v.cls.is_int_enum(self.repo):
                return self.enum_value(v) != 0
            if v.cls.is_str_enum(self.repo):
                return len(self.enum_concretize(v).value) != 0
            return True
        if isinstance(v, Obj):
            m = v.cls.find_method(self.repo, "__bool__")
            if m is not None:
                return self.truth(self.call_function(FuncVal(m, self_val=v), [], {}))
            m = v.cls.find_method(self.repo, "__len__")
            if m is not None:
                n = self.call_function(FuncVal(m, self_val=v), [], {})
                return n != 0
            return True
        if isinstance(v, Opaque):
            return v.truth
        if isinstance(v, float):
            return v != 0
        return True

    def to_bool(self, v):
        return self.branch(self.truth(v))

    def sym_eq(self, a, b):
        """Python ``a == b`` as bool or z3 Bool."""
        a = self.resolve(a)
        b = self.resolve(b)
        if a is None or b is None:
            return a is None and b is None
        if isinstance(a, EnumVal) or isinstance(b, EnumVal):
            if isinstance(a, EnumVal) and isinstance(b, EnumVal):
                if a.cls is not b.cls:
                    return False
                if a.concrete and b.concrete:
                    return a.idx == b.idx
                return a.idx == b.idx
            e, o = (a, b) if isinstance(a, EnumVal) else (b, a)
            if e.cls.is_int_enum(self.repo) and is_int(o):
                return self.enum_value(e) == o
            if e.cls.is_str_enum(self.repo) and isinstance(o, str):
                return self.enum_concretize(e).value == o
            return False
        if is_boolish(a) and is_boolish(b):
            if isinstance(a, bool) and isinstance(b, bool):
                return a == b
            return _z3b(a) == _z3b(b)
        if (is_int(a) or is_boolish(a)) and (is_int(b) or is_boolish(b)):
            a2, b2 = _as_int(a), _as_int(b)
            if isinstance(a2, int) and isinstance(b2, int):
                return a2 == b2
            return a2 == b2
        if isinstance(a, (tuple, list)) and isinstance(b, (tuple, list)):
            if type(a) is not type(b) or len(a) != len(b):
                return False
            parts = [self.sym_eq(x, y) for x, y in zip(a, b)]
            return _and(parts)
        if type(a).__name__ == "MSet" or type(b).__name__ == "MSet":
            if type(a).__name__ != type(b).__name__:
                if isinstance(a, (set, frozenset)) or isinstance(b, (set, frozenset)):
                    raise Unsupported("MSet vs builtin set comparison")
                return False
            if a.ranges or b.ranges:
                raise Unsupported("equality of sets with symbolic ranges")
            if len(a.items) != len(b.items):
                return False
            return _and([_or([self.sym_eq(x, y) for y in b.items]) for x in a.items])
        if isinstance(a, Obj):
            m = a.cls.find_method(self.repo, "__eq__")
            if m is not None:
                return self.truth(self.call_function(FuncVal(m, self_val=a), [b], {}))
            return a is b
        if isinstance(b, Obj):
            m = b.cls.find_method(self.repo, "__eq__")
            if m is not None:
                return self.truth(self.call_function(FuncVal(m, self_val=b), [a], {}))
            return a is b
        ta = isinstance(a, Opaque) and a.tag == "text"
        tb = isinstance(b, Opaque) and b.tag == "text"
        if ta or tb:
            return self.text_eq(a, b)
        if (isinstance(a, Opaque) and isinstance(b, Opaque) and a is not b
                and "$digest_args" in a.attrs and "$digest_args" in b.attrs):
            # two digests (library identifiers): equal exactly when their arguments are equal - 'equal content => equal
            # digest' is the function property, 'different content => different digest' is the collision-freeness of
            # md5 on the inputs at hand (assumption, listed with the digest_object summary).  Needed so that the
            # duplicate-member guards of the collections (``guid in self.guid_map``) are executed, not skipped.
            try:
                return self.sym_eq(a.attrs["$digest_args"], b.attrs["$digest_args"])
            except Unsupported:
                return False
        if isinstance(a, Opaque) or isinstance(b, Opaque):
            if isinstance(a, Opaque) and "__eq__" in a.methods:
                return a.methods["__eq__"](self, b)
            if isinstance(b, Opaque) and "__eq__" in b.methods:
                return b.methods["__eq__"](self, a)
            return a is b
        if is_sym(a) or is_sym(b):
            return False
        try:
            return a == b
        except Exception:
            return a is b

    def text_eq(self, a, b):
        """Equality of symbolic texts (literal pieces and decimal renderings of symbolic ints, see make_text).
        Two texts of the SAME shape are equal iff their integer parts are equal (str(int) is injective and the
        literal separators contain no digits / signs where it matters); a concrete string is parsed against the
        shape.  Shapes that cannot be compared this way are refused (Unsupported), never answered 'different'."""
        import re

        def parts_of(x):
            if isinstance(x, Opaque) and x.tag == "text":
                return list(x.attrs["parts"])
            if isinstance(x, Opaque) and x.tag == "str(int)":
                return [("int", x.attrs["int"])]
            if isinstance(x, str):
                return [x] if x else []
            return None

        pa, pb = parts_of(a), parts_of(b)
        if pa is None or pb is None:
            return a is b
        if a is b:
            return True

        def shape(ps):
            return [p if isinstance(p, str) else p[0] for p in ps]

        if len(pa) == len(pb) and all((isinstance(x, str) and isinstance(y, str)) or
                                      (not isinstance(x, str) and not isinstance(y, str) and x[0] == y[0])
                                      for x, y in zip(pa, pb)):
            conds = []
            for x, y in zip(pa, pb):
                if isinstance(x, str):
                    if x != y:
                        return False
                elif x[0] == "int":
                    conds.append(_as_int(x[1]) == _as_int(y[1]))
                else:  # atom: uninterpreted strings, compared by identity
                    if x[1] is not y[1]:
                        raise Unsupported("equality of texts with distinct uninterpreted pieces")
            conds = [c for c in conds if c is not True]
            if any(c is False for c in conds):
                return False
            return _and(conds) if conds else True
        # a concrete string against a shape: match the literals, parse the integers
        conc, sym = (pa, pb) if all(isinstance(p, str) for p in pa) else (pb, pa) if all(isinstance(p, str) for p in pb) else (None, None)
        if conc is not None and all(isinstance(p, str) or p[0] == "int" for p in sym):
            text = "".join(conc)
            rx = "^" + "".join(re.escape(p) if isinstance(p, str) else r"(-?\d+)" for p in sym) + "$"
            m = re.match(rx, text)
            if not m:
                return False
            ints = [p[1] for p in sym if not isinstance(p, str)]
            conds = [_as_int(v) == int(g) for v, g in zip(ints, m.groups())]
            return _and(conds) if conds else True
        # decisively different literal heads
        ha = pa[0] if pa and isinstance(pa[0], str) else ""
        hb = pb[0] if pb and isinstance(pb[0], str) else ""
        if ha and hb and not (ha.startswith(hb) or hb.startswith(ha)):
            return False
        raise Unsupported(f"equality of symbolic texts of different shapes: {shape(pa)} vs {shape(pb)}")

    def sym_is(self, a, b):
        a = self.resolve(a)
        b = self.resolve(b)
        if a is None or b is None:
            return a is None and b is None
        if isinstance(a, EnumVal) and isinstance(b, EnumVal):
            return self.sym_eq(a, b)
        if is_boolish(a) and is_boolish(b):
            return self.sym_eq(a, b)
        if isinstance(a, (ClassRef, BuiltinType)):
            return a == b
        if is_int(a) and is_int(b):
            return self.sym_eq(a, b)
        return a is b

    def sym_lt(self, op, a, b):
        """op in '<','<=','>','>='."""
        a = self.resolve(a)
        b = self.resolve(b)
        if a is None or b is None:
            raise PyExc("TypeError", "ordering comparison with None")
        if isinstance(a, EnumVal) and a.cls.is_int_enum(self.repo):
            a = self.enum_value(a)
        if isinstance(b, EnumVal) and b.cls.is_int_enum(self.repo):
            b = self.enum_value(b)
        if (is_int(a) or is_boolish(a)) and (is_int(b) or is_boolish(b)):
            a, b = _as_int(a), _as_int(b)
            return {"<": a < b, "<=": a <= b, ">": a > b, ">=": a >= b}[op]
        if isinstance(a, (tuple, list)) and isinstance(b, (tuple, list)) and type(a) is type(b):
            # lexicographic, left to right (later elements are only compared when the earlier ones may be equal)
            strict = op in ("<", ">")
            base = "<" if op in ("<", "<=") else ">"

            def rec(i):
                if i >= len(a) or i >= len(b):
                    if len(a) == len(b):
                        return not strict
                    return (len(a) < len(b)) if base == "<" else (len(a) > len(b))
                eq = self.sym_eq(a[i], b[i])
                if eq is True:
                    return rec(i + 1)
                lt = self.sym_lt(base, a[i], b[i])
                if eq is False:
                    return lt
                return _or([lt, _and([eq, rec(i + 1)])])

            return rec(0)
        if isinstance(a, str) and isinstance(b, str):
            return {"<": a < b, "<=": a <= b, ">": a > b, ">=": a >= b}[op]
        if isinstance(a, Obj):
            mname = {"<": "__lt__", "<=": "__le__", ">": "__gt__", ">=": "__ge__"}[op]
            m = a.cls.find_method(self.repo, mname)
            if m is not None:
                return self.truth(self.call_function(FuncVal(m, self_val=a), [b], {}))
            if "total_ordering" in " ".join(a.cls.decorators):
                lt = a.cls.find_method(self.repo, "__lt__")
                if lt is not None:
                    l = self.truth(self.call_function(FuncVal(lt, self_val=a), [b], {}))
                    e = self.sym_eq(a, b)
                    return {"<=": _or([l, e]), ">": _and([_not(l), _not(e)]), ">=": _not(l)}[op]
        if isinstance(a, EnumVal):
            m = a.cls.find_method(self.repo, "__lt__")
            if m is not None and op == "<":
                return self.truth(self.call_function(FuncVal(m, self_val=a), [b], {}))
            if m is not None and "total_ordering" in " ".join(a.cls.decorators):
                l = self.truth(self.call_function(FuncVal(m, self_val=a), [b], {}))
                e = self.sym_eq(a, b)
                return {"<=": _or([l, e]), ">": _and([_not(l), _not(e)]), ">=": _not(l)}[op]
        if isinstance(a, float) or isinstance(b, float):
            return {"<": a < b, "<=": a <= b, ">": a > b, ">=": a >= b}[op]
        raise PyExc("TypeError", f"'{op}' not supported between {type(a).__name__} and {type(b).__name__}")


_QF_SEEN = set()  # ids of sub-terms already known to be quantifier-free (terms are kept alive by the path)


def _has_quantifier(e, _seen=None):
    if not isinstance(e, z3.ExprRef):
        return False
    seen = _QF_SEEN
    if len(seen) > 2000000:
        seen.clear()
    stack = [e]
    while stack:
        x = stack.pop()
        if z3.is_quantifier(x):
            return True
        i = x.get_id()
        if i in seen:
            continue
        seen.add(i)
        stack.extend(x.children())
    return False


def _z3i(v):
    return z3.IntVal(v) if isinstance(v, int) else v


def _z3b(v):
    return z3.BoolVal(v) if isinstance(v, bool) else v


def _as_int(v):
    if isinstance(v, bool):
        return int(v)
    if is_symbool(v):
        return z3.If(v, 1, 0)
    return v


def _and(parts):
    parts = [p for p in parts if p is not True]
    if any(p is False for p in parts):
        return False
    if not parts:
        return True
    if len(parts) == 1:
        return parts[0]
    return z3.And(*[_z3b(p) for p in parts])


def _or(parts):
    parts = [p for p in parts if p is not False]
    if any(p is True for p in parts):
        return True
    if not parts:
        return False
    if len(parts) == 1:
        return parts[0]
    return z3.Or(*[_z3b(p) for p in parts])


def _not(p):
    if isinstance(p, bool):
        return not p
    return z3.Not(p)
