"""The assembled executor (builtins, trusted library models) and the path-exploration driver."""
import ast
import time

import z3

from .values import *  # noqa
from .repo import Repo, ClassInfo, FuncInfo
from .symex import Frame, Interp, Obligation, _and, _or, _not, _as_int, _z3b
from .symex_eval import EvalMixin, SliceVal, MSet, sym_min, sym_max, sym_abs, _z
from .symex_stmt import StmtMixin, LoopSpec, NS


def _dc_fields(c):
    import ast as _ast
    return [st.target.id for st in c.node.body if isinstance(st, _ast.AnnAssign) and isinstance(st.target, _ast.Name)]


class SuperProxy:
    def __init__(self, obj, cls):
        self.obj = obj
        self.cls = cls


class Engine(StmtMixin, EvalMixin, Interp):
    def __init__(self, repo, **kw):
        self._const_cache = {}
        self.attr_hooks = {}
        self.inline_only = set()
        self.recursive_only = set()
        self.concrete_mode = False
        self.call_stack = []
        self.calls_seen = set()
        self.trusted_used = set()
        self.order_sensitive = []
        self.class_state = {}  # (class qualname, attribute) -> mutable class-level value, evaluated once
        self.builtins = {}
        self.externals = {}
        super().__init__(repo, **kw)
        self._install_builtins()

    # ------------------------------------------------------------------ super()
    def e_Call(self, node, frame):
        if isinstance(node.func, ast.Name) and node.func.id == "super" and not node.args:
            ok, selfv = frame.lookup("self")
            if not ok:
                ok, selfv = frame.lookup("cls")
            return SuperProxy(selfv, frame.finfo.cls)
        return StmtMixin.e_Call(self, node, frame)

    def getattr(self, v, name):
        if isinstance(v, SuperProxy):
            target = v.obj
            cls = target.cls if isinstance(target, (Obj, ClassRef)) else None
            mro = cls.mro(self.repo)
            i = mro.index(v.cls)
            for c in mro[i + 1:]:
                if name in c.methods:
                    m = c.methods[name]
                    if m.is_property:
                        return self.call_function(FuncVal(m, self_val=target), [], {})
                    return FuncVal(m, self_val=target)
            if name == "__init__":
                return BuiltinFn("object.__init__", lambda interp, a, k: None)
            if name == "__new__":
                return BuiltinFn("object.__new__", lambda interp, a, k: Obj(a[0].cls))
            raise PyExc("AttributeError", f"super().{name}")
        return EvalMixin.getattr(self, v, name)

    # ------------------------------------------------------------------ builtins
    def _install_builtins(self):
        B = self.builtins

        def reg(name):
            def deco(f):
                B[name] = BuiltinFn(name, f)
                return f
            return deco

        for exc in ("ValueError", "TypeError", "KeyError", "IndexError", "AttributeError", "StopIteration",
                    "NotImplementedError", "Exception", "AssertionError", "RuntimeError", "ZeroDivisionError"):
            B[exc] = BuiltinFn(exc, lambda interp, a, k, _e=exc: PyExc(_e))
        for w in ("Warning", "UserWarning", "DeprecationWarning", "FutureWarning", "RuntimeWarning"):
            # warning categories only ever reach warnings.warn (a no-op, A6): an inert value
            B[w] = BuiltinFn(w, lambda interp, a, k, _w=w: Opaque(_w))
        B["None"] = None
        B["True"] = True
        B["False"] = False
        B["NotImplemented"] = Opaque("NotImplemented")

        @reg("len")
        def _len(interp, args, kw):
            v = interp.resolve(args[0])
            if isinstance(v, (list, tuple, str, dict, set, frozenset, range, bytes)):
                return len(v)
            if isinstance(v, (SList, LazySeq, SymStr)):
                return v.length
            if isinstance(v, MSet):
                if v.ranges:
                    raise Unsupported("len of set with symbolic ranges")
                return len(v.items)
            if isinstance(v, Obj):
                m = v.cls.find_method(interp.repo, "__len__")
                if m is not None:
                    return interp.call_function(FuncVal(m, self_val=v), [], {})
            if isinstance(v, Opaque) and "__len__" in v.methods:
                return v.methods["__len__"](interp)
            if v is None:
                raise PyExc("TypeError", "object of type 'NoneType' has no len()")
            raise PyExc("TypeError", f"object of type {type(v).__name__} has no len()")

        @reg("abs")
        def _abs(interp, args, kw):
            return sym_abs(_as_int(interp.resolve(args[0])))

        def minmax(which):
            def f(interp, args, kw):
                keyf = kw.get("key")
                if keyf is not None:
                    # min / max with key=: the FIRST element whose key is minimal / maximal (CPython semantics)
                    items = interp.iterate_concrete(args[0]) if len(args) == 1 else list(args)
                    if not items:
                        if "default" in kw:
                            return kw["default"]
                        raise PyExc("ValueError", which + "() arg is an empty sequence")
                    acc = interp.resolve(items[0])
                    acck = interp.call(keyf, [acc], {})
                    for x in items[1:]:
                        x = interp.resolve(x)
                        xk = interp.call(keyf, [x], {})
                        if is_int(acck) and is_int(xk):
                            better = (xk < acck) if which == "min" else (xk > acck)
                        else:
                            better = interp.sym_lt("<", xk, acck) if which == "min" else interp.sym_lt(">", xk, acck)
                        if interp.branch(better):
                            acc, acck = x, xk
                    return acc
                if len(args) == 1:
                    seq = interp.resolve(args[0])
                    if is_int(seq) or isinstance(seq, bool):
                        raise PyExc("TypeError", "'int' object is not iterable")
                    s, c = interp._as_sequence(seq)
                    if isinstance(s, (SList, LazySeq)) and not isinstance(s.length, int):
                        h = interp.externals.get("builtins." + which + ".symbolic")
                        if h is None:
                            raise Unsupported(which + " over symbolic-length sequence")
                        return h(interp, s, kw)
                    items = interp.iterate_concrete(seq)
                else:
                    items = list(args)
                if not items:
                    if "default" in kw:
                        return kw["default"]
                    raise PyExc("ValueError", which + "() arg is an empty sequence")
                acc = interp.resolve(items[0])
                for x in items[1:]:
                    x = interp.resolve(x)
                    if is_int(acc) and is_int(x):
                        acc = sym_min(acc, x) if which == "min" else sym_max(acc, x)
                    else:
                        lt = interp.sym_lt("<", x, acc) if which == "min" else interp.sym_lt(">", x, acc)
                        if interp.branch(lt):
                            acc = x
                return acc
            return f

        B["min"] = BuiltinFn("min", minmax("min"))
        B["max"] = BuiltinFn("max", minmax("max"))

        @reg("sum")
        def _sum(interp, args, kw):
            items = interp.iterate_concrete(args[0])
            acc = args[1] if len(args) > 1 else 0
            for x in items:
                acc = interp.binop(ast.Add(), acc, x)
            return acc

        @reg("range")
        def _range(interp, args, kw):
            args = [interp.resolve(a) for a in args]
            if all(isinstance(a, int) for a in args):
                return range(*args)
            if len(args) == 1:
                lo, hi, st = 0, args[0], 1
            elif len(args) == 2:
                lo, hi, st = args[0], args[1], 1
            else:
                lo, hi, st = args
            if not isinstance(st, int) or st <= 0:
                raise Unsupported("range with symbolic or non-positive step")
            n = interp.clamp0((_z(hi) - _z(lo) + (st - 1)) / st if st != 1 else _z(hi) - _z(lo))
            if st == 1:
                if isinstance(lo, int) and lo == 0:
                    return LazySeq(n, lambda i: i, "range")
                return LazySeq(n, lambda i, _lo=lo: _lo + i, "range")
            return LazySeq(n, lambda i, _lo=lo, _st=st: _lo + i * _st, "range")

        @reg("zip")
        def _zip(interp, args, kw):
            seqs = [interp.resolve(a) for a in args]
            norm = []
            for s in seqs:
                if isinstance(s, SymIter):
                    s = interp.iter_remaining(s) if isinstance(s.seq, (SList, LazySeq)) else interp.iterate_concrete(s)
                norm.append(s)
            if any(isinstance(s, LazySeq) and s.length is None for s in norm):
                # an endless counter zipped with finite sequences
                finite = [interp.iterate_concrete(s) for s in norm if not (isinstance(s, LazySeq) and s.length is None)]
                n = min(len(f) for f in finite) if finite else 0
                cols = [([s.get(i) for i in range(n)] if (isinstance(s, LazySeq) and s.length is None)
                         else interp.iterate_concrete(s)[:n]) for s in norm]
                return [tuple(t) for t in zip(*cols)]
            if any(isinstance(s, (SList, LazySeq)) and not isinstance(s.length, int) for s in norm):
                if not all(isinstance(s, (SList, LazySeq)) for s in norm):
                    raise Unsupported("zip of symbolic and concrete sequences")
                n = norm[0].length
                for s in norm[1:]:
                    n = sym_min(n, s.length)
                return LazySeq(n, lambda i, _n=norm: tuple(s.get(i) for s in _n), "zip")
            lists = [interp.iterate_concrete(s) for s in norm]
            return [tuple(t) for t in zip(*lists)]

        @reg("enumerate")
        def _enum(interp, args, kw):
            start = args[1] if len(args) > 1 else kw.get("start", 0)
            s = interp.resolve(args[0])
            sq, c = interp._as_sequence(s)
            if isinstance(sq, (SList, LazySeq)) and not isinstance(sq.length, int):
                sq = interp.iter_remaining(s) if isinstance(s, SymIter) else sq
                return LazySeq(sq.length, lambda i, _s=sq: (i + start, _s.get(i)), "enumerate")
            return [(i + start, x) for i, x in enumerate(interp.iterate_concrete(s))]

        @reg("reversed")
        def _rev(interp, args, kw):
            s = interp.resolve(args[0])
            if isinstance(s, SymStr):
                n = s.length
                return SymIter(LazySeq(n, lambda i, _s=s, _n=n: SymChar(z3.Select(_s.arr, _n - 1 - i),
                                                                           getattr(_s, "alphabet", None)), "reversed-chars"), 0)
            if isinstance(s, (SList, LazySeq)):
                if isinstance(s, SList):
                    s = s.copy()
                n = s.length
                return SymIter(LazySeq(n, lambda i, _s=s, _n=n: _s.get(_n - 1 - i), "reversed"), 0)
            return SymIter(list(reversed(interp.iterate_concrete(s))), 0)

        @reg("iter")
        def _iter(interp, args, kw):
            s = interp.resolve(args[0])
            if isinstance(s, SymIter):
                return s
            if isinstance(s, SList):
                return SymIter(s.copy(), 0)
            if isinstance(s, LazySeq):
                return SymIter(s, 0)
            if s is None:
                raise PyExc("TypeError", "'NoneType' object is not iterable")
            return SymIter(interp.iterate_concrete(s), 0)

        @reg("next")
        def _next(interp, args, kw):
            it = interp.resolve(args[0])
            if it is None:
                raise PyExc("TypeError", "'NoneType' object is not an iterator")
            if not isinstance(it, SymIter):
                raise PyExc("TypeError", f"'{type(it).__name__}' object is not an iterator")
            s = it.seq
            n = s.length if isinstance(s, (SList, LazySeq)) else len(s)
            has = interp.branch(_z(it.cursor) < _z(n)) if (is_sym(n) or is_sym(it.cursor)) else it.cursor < n
            if not has:
                if len(args) > 1:
                    return args[1]
                raise PyExc("StopIteration")
            v = s.get(it.cursor) if isinstance(s, (SList, LazySeq)) else s[it.cursor]
            it.cursor = it.cursor + 1
            return v

        @reg("isinstance")
        def _isinst(interp, args, kw):
            v, t = interp.resolve(args[0]), args[1]
            ts = t if isinstance(t, tuple) else (t,)
            return any(interp.isinstance1(v, x) for x in ts)

        @reg("type")
        def _type(interp, args, kw):
            v = interp.resolve(args[0])
            return interp.type_of(v)

        @reg("any")
        def _any(interp, args, kw):
            s = interp.resolve(args[0])
            sq, c = interp._as_sequence(s)
            if isinstance(sq, (SList, LazySeq)) and not isinstance(sq.length, int):
                sq = interp.iter_remaining(s) if isinstance(s, SymIter) else sq
                j = interp.fresh_int("j")
                # exact: any(...) <=> exists j. elem(j); elements must be pure boolean expressions
                wit = interp.fresh_int("w")
                ex = interp.fresh_bool("any")
                el_w = interp.truth(sq.get(wit))
                el_j = interp.truth(sq.get(j))
                interp.assume(z3.Implies(ex, z3.And(wit >= 0, wit < sq.length, _z3b(el_w))))
                interp.assume(z3.Implies(z3.Not(ex), z3.ForAll([j], z3.Implies(z3.And(j >= 0, j < sq.length),
                                                                              z3.Not(_z3b(el_j))))))
                return ex
            for x in interp.iterate_concrete(s):
                if interp.to_bool(x):
                    return True
            return False

        @reg("all")
        def _all(interp, args, kw):
            s = interp.resolve(args[0])
            sq, c = interp._as_sequence(s)
            if isinstance(sq, (SList, LazySeq)) and not isinstance(sq.length, int):
                sq = interp.iter_remaining(s) if isinstance(s, SymIter) else sq
                j = interp.fresh_int("j")
                wit = interp.fresh_int("w")
                al = interp.fresh_bool("all")
                el_w = interp.truth(sq.get(wit))
                el_j = interp.truth(sq.get(j))
                interp.assume(z3.Implies(z3.Not(al), z3.And(wit >= 0, wit < sq.length, z3.Not(_z3b(el_w)))))
                interp.assume(z3.Implies(al, z3.ForAll([j], z3.Implies(z3.And(j >= 0, j < sq.length), _z3b(el_j)))))
                return al
            for x in interp.iterate_concrete(s):
                if not interp.to_bool(x):
                    return False
            return True

        @reg("tuple")
        def _tuple(interp, args, kw):
            if not args:
                return ()
            s = interp.resolve(args[0])
            sq, c = interp._as_sequence(s)
            if isinstance(sq, (SList, LazySeq)) and not isinstance(sq.length, int):
                return interp.iter_remaining(s) if isinstance(s, SymIter) else (sq.copy() if isinstance(sq, SList)
                                                                                 else sq)
            return tuple(interp.iterate_concrete(s))

        @reg("list")
        def _list(interp, args, kw):
            if not args:
                return []
            s = interp.resolve(args[0])
            sq, c = interp._as_sequence(s)
            if isinstance(sq, (SList, LazySeq)) and not isinstance(sq.length, int):
                return interp.iter_remaining(s) if isinstance(s, SymIter) else (sq.copy() if isinstance(sq, SList)
                                                                                 else sq)
            return list(interp.iterate_concrete(s))

        @reg("set")
        def _set(interp, args, kw):
            if not args:
                return MSet()
            return interp.make_set(interp.iterate_concrete(args[0]))

        @reg("frozenset")
        def _fset(interp, args, kw):
            if not args:
                return MSet()
            return interp.make_set(interp.iterate_concrete(args[0]))

        @reg("dict")
        def _dict(interp, args, kw):
            d = {}
            if args:
                a = interp.resolve(args[0])
                if isinstance(a, dict):
                    d.update(a)
                else:
                    for k, v in interp.iterate_concrete(a):
                        d[k] = v
            d.update(kw)
            return d

        @reg("sorted")
        def _sorted(interp, args, kw):
            return interp.do_sorted(args[0], kw.get("key"), kw.get("reverse", False))

        @reg("str")
        def _str(interp, args, kw):
            if not args:
                return ""
            return interp.to_str(args[0])

        @reg("map")
        def _map(interp, args, kw):
            fn = args[0]
            lists = [interp.iterate_concrete(a) for a in args[1:]]
            return SymIter([interp.call(fn, list(t), {}) for t in zip(*lists)], 0)

        @reg("repr")
        def _repr(interp, args, kw):
            v = interp.resolve(args[0])
            if isinstance(v, (str, int)) or v is None:
                return repr(v)
            return Opaque("str")

        @reg("int")
        def _int(interp, args, kw):
            v = interp.resolve(args[0])
            if isinstance(v, (int, str, float)) and not is_sym(v):
                try:
                    return int(v)
                except ValueError:
                    raise PyExc("ValueError", "invalid literal for int()")
            if is_symint(v):
                return v
            if is_symbool(v):
                return _as_int(v)
            if isinstance(v, EnumVal):
                return interp.enum_value(v)
            raise Unsupported("int() of " + type(v).__name__)

        @reg("bool")
        def _bool(interp, args, kw):
            return interp.truth(args[0]) if args else False

        @reg("hasattr")
        def _hasattr(interp, args, kw):
            try:
                interp.getattr(args[0], args[1])
                return True
            except PyExc as e:
                if e.cls == "AttributeError":
                    return False
                raise

        @reg("getattr")
        def _getattr(interp, args, kw):
            try:
                return interp.getattr(args[0], args[1])
            except PyExc as e:
                if e.cls == "AttributeError" and len(args) > 2:
                    return args[2]
                raise

        @reg("hash")
        def _hash(interp, args, kw):
            return Opaque("hash")

        @reg("print")
        def _print(interp, args, kw):
            fh = kw.get("file")
            if isinstance(fh, Opaque) and "$lines" in fh.attrs:
                # print(..., file=<text sink of the contract>): the rendered text is appended to the sink
                sep, end = kw.get("sep", " "), kw.get("end", "\n")
                parts = [interp.to_str(a) for a in args]
                if not all(isinstance(x, str) for x in parts) or not isinstance(sep, str) or not isinstance(end, str):
                    raise Unsupported("print of symbolic text to a file object")
                fh.attrs["$lines"].append(sep.join(parts) + end)
                return None
            interp.output.append(("print", args, kw))
            return None

        @reg("id")
        def _id(interp, args, kw):
            return id(args[0])

        @reg("divmod")
        def _divmod(interp, args, kw):
            return (interp.binop(ast.FloorDiv(), args[0], args[1]), interp.binop(ast.Mod(), args[0], args[1]))

        for t in ("object",):
            B[t] = BuiltinType(t)
        B["slice"] = BuiltinFn("slice", lambda interp, a, k: SliceVal(*(list(a) + [None] * (3 - len(a)))) if len(a) > 1
                               else SliceVal(None, a[0], None))
        # type names usable in isinstance / type() comparisons while also callable
        self.type_names = {"int", "str", "list", "tuple", "set", "dict", "bool", "frozenset", "float"}
        self.output = []

        # trusted external library models
        X = self.externals
        X["functools.reduce"] = self.ext_reduce
        X["itertools.chain"] = self.ext_chain
        X["itertools.islice"] = self.ext_islice
        X["itertools.count"] = lambda interp, a, k: LazySeq(None, lambda i, _s=(a[0] if a else 0): _s + i, "count")
        X["itertools.zip_longest"] = self.ext_zip_longest
        X["itertools.groupby"] = self.ext_groupby
        X["itertools.product"] = self.ext_product
        X["heapq.merge"] = self.ext_heapq_merge
        X["bisect.bisect_right"] = X["bisect.bisect"] = lambda interp, a, k: self.ext_bisect(a, k, right=True)
        X["bisect.bisect_left"] = lambda interp, a, k: self.ext_bisect(a, k, right=False)
        # the operator module: function forms of the binary / in-place operators (same semantics as the syntax)
        _bin = {"add": ast.Add, "sub": ast.Sub, "mul": ast.Mult, "floordiv": ast.FloorDiv, "mod": ast.Mod,
                "or_": ast.BitOr, "and_": ast.BitAnd, "xor": ast.BitXor}
        for _n, _op in _bin.items():
            X["operator." + _n] = (lambda interp, a, k, _op=_op: interp.binop(_op(), a[0], a[1]))
        for _n, _op in {"iadd": ast.Add, "isub": ast.Sub, "ior": ast.BitOr, "iand": ast.BitAnd}.items():
            X["operator." + _n] = (lambda interp, a, k, _op=_op: interp.aug(_op(), a[0], a[1]))
        for _n, _sym in {"lt": "<", "le": "<=", "gt": ">", "ge": ">="}.items():
            X["operator." + _n] = (lambda interp, a, k, _s=_sym: interp.sym_lt(_s, a[0], a[1]))
        X["operator.eq"] = lambda interp, a, k: interp.sym_eq(a[0], a[1])
        X["warnings.warn"] = lambda interp, a, k: None
        X["dataclasses.astuple"] = lambda interp, a, k: tuple(
            a[0].attrs[f] for c in reversed(a[0].cls.mro(interp.repo)) for f in _dc_fields(c))
        X["functools.lru_cache"] = lambda interp, a, k: BuiltinFn("identity", lambda i2, a2, k2: a2[0])

    def clamp0(self, expr):
        """max(expr, 0); the plain expression when the path condition already implies expr >= 0 (keeps index terms
        in the shape quantifier instantiation can match)."""
        if isinstance(expr, int):
            return max(expr, 0)
        expr = z3.simplify(expr)
        if self._check(expr < 0) == z3.unsat:
            return expr
        return sym_max(expr, 0)

    def isinstance1(self, v, t):
        if isinstance(t, ClassRef):
            if isinstance(v, Obj):
                return v.cls.is_subclass_of(self.repo, t.cls)
            if isinstance(v, EnumVal):
                return v.cls.is_subclass_of(self.repo, t.cls)
            if isinstance(v, Opaque):
                return v.attrs.get("$class") == t.cls.name
            return False
        if isinstance(t, BuiltinFn):
            n = t.name
            if n == "int":
                return is_int(v) or is_boolish(v)
            if n == "bool":
                return is_boolish(v)
            if n == "str":
                return isinstance(v, (str, SymStr)) or (isinstance(v, Opaque) and v.tag.startswith("str")) or (
                    isinstance(v, EnumVal) and v.cls.is_str_enum(self.repo))
            if n == "list":
                return isinstance(v, (list, SList))
            if n == "tuple":
                return isinstance(v, tuple)
            if n == "set":
                return isinstance(v, (set, MSet))
            if n == "dict":
                return isinstance(v, dict)
            if n == "frozenset":
                return isinstance(v, frozenset)
            if n == "slice":
                return isinstance(v, SliceVal)
        if isinstance(t, ExternalRef):
            if isinstance(v, Opaque):
                return v.attrs.get("$class") == (t.attr or t.dotted) or v.tag == (t.attr or t.dotted)
            return False
        raise Unsupported(f"isinstance against {t}")

    def type_of(self, v):
        if isinstance(v, Obj):
            return ClassRef(v.cls)
        if isinstance(v, EnumVal):
            return ClassRef(v.cls)
        if is_boolish(v):
            return self.builtins["bool"]
        if is_int(v):
            return self.builtins["int"]
        if isinstance(v, str):
            return self.builtins["str"]
        if isinstance(v, list):
            return self.builtins["list"]
        if isinstance(v, tuple):
            return self.builtins["tuple"]
        if isinstance(v, dict):
            return self.builtins["dict"]
        if isinstance(v, (set, MSet)):
            return self.builtins["set"]
        if v is None:
            return BuiltinType("NoneType")
        if isinstance(v, Opaque):
            return BuiltinType(v.attrs.get("$class", v.tag))
        return BuiltinType(type(v).__name__)

    def sym_is(self, a, b):
        if isinstance(a, BuiltinFn) or isinstance(b, BuiltinFn):
            return isinstance(a, BuiltinFn) and isinstance(b, BuiltinFn) and a.name == b.name
        return Interp.sym_is(self, a, b)

    # ------------------------------------------------------------------ sorted
    def do_sorted(self, seq, key=None, reverse=False):
        seq = self.resolve(seq)
        sq, c = self._as_sequence(seq)
        if isinstance(sq, (SList, LazySeq)) and not isinstance(sq.length, int):
            h = self.externals.get("builtins.sorted.symbolic")
            if h is None:
                raise Unsupported("sorted over symbolic-length sequence")
            return h(self, sq, key, reverse)
        items = self.iterate_concrete(seq)
        self.trusted_used.add("sorted")
        keys = [self.call(key, [x], {}) if key is not None else x for x in items]
        out = []  # stable insertion sort, forking on comparisons
        for x, kx in zip(items, keys):
            pos = len(out)
            # find first position whose key is strictly greater (stable)
            for i, (y, ky) in enumerate(out):
                gt = self.sym_lt("<", kx, ky) if not reverse else self.sym_lt(">", kx, ky)
                if self.branch(gt if isinstance(gt, bool) or is_symbool(gt) else self.truth(gt)):
                    pos = i
                    break
            out.insert(pos, (x, kx))
        return [x for x, _ in out]

    # ------------------------------------------------------------------ methods of python containers
    def py_method(self, v, name, args, kwargs):
        args = [self.resolve(a) for a in args]
        if isinstance(v, list):
            if name == "append":
                v.append(args[0])
                return None
            if name == "extend":
                v.extend(self.iterate_concrete(args[0]))
                return None
            if name == "pop":
                try:
                    return v.pop(*args)
                except IndexError:
                    raise PyExc("IndexError", "pop from empty list")
            if name == "insert":
                v.insert(args[0], args[1])
                return None
            if name == "copy":
                return list(v)
            if name == "reverse":
                v.reverse()
                return None
            if name == "sort":
                v[:] = self.do_sorted(list(v), kwargs.get("key"), kwargs.get("reverse", False))
                return None
            if name == "index":
                for i, x in enumerate(v):
                    if self.branch(self.sym_eq(x, args[0])):
                        return i
                raise PyExc("ValueError", "not in list")
            if name == "count":
                return sum(1 for x in v if self.branch(self.sym_eq(x, args[0])))
            if name == "clear":
                v.clear()
                return None
            if name == "remove":
                for i, x in enumerate(v):
                    if self.branch(self.sym_eq(x, args[0])):
                        del v[i]
                        return None
                raise PyExc("ValueError", "list.remove(x): x not in list")
        if isinstance(v, dict):
            if name == "get":
                try:
                    return self.getitem(v, args[0])
                except PyExc as e:
                    if e.cls == "KeyError":
                        return args[1] if len(args) > 1 else None
                    raise
            if name == "items":
                return [(k, v[k]) for k in v.keys()]
            if name == "keys":
                return list(v.keys())
            if name == "values":
                return list(v.values())
            if name == "copy":
                return dict(v)
            if name == "update":
                if args:
                    a = args[0]
                    if isinstance(a, dict):
                        v.update(a)
                    else:
                        for k, x in self.iterate_concrete(a):
                            v[k] = x
                v.update(kwargs)
                return None
            if name == "pop":
                try:
                    return v.pop(*args)
                except KeyError:
                    raise PyExc("KeyError", repr(args[0]))
            if name == "setdefault":
                return v.setdefault(*args)
            if name == "clear":
                v.clear()
                return None
            if name == "popitem":
                if not v:
                    raise PyExc("KeyError", "popitem(): dictionary is empty")
                return v.popitem()
        if isinstance(v, (set, frozenset)):
            if name in ("add", "discard", "remove", "update", "union", "intersection", "difference", "copy",
                        "issubset", "issuperset", "isdisjoint", "pop", "clear", "intersection_update",
                        "difference_update", "symmetric_difference"):
                conv = []
                for a in args:
                    if isinstance(a, (list, tuple, set, frozenset, dict, SymIter)):
                        conv.append(self.iterate_concrete(a) if not isinstance(a, (set, frozenset)) else a)
                    else:
                        conv.append(a)
                if any(is_sym(x) for a in conv for x in (a if isinstance(a, (list, set, frozenset)) else [a])):
                    raise Unsupported("set method with symbolic members")
                try:
                    if name == "pop":
                        items = self.set_order(v)
                        if not items:
                            raise KeyError
                        v.discard(items[0])
                        return items[0]
                    return getattr(v, name)(*conv)
                except KeyError:
                    raise PyExc("KeyError", "set")
        if isinstance(v, str):
            if name == "format":
                if any(isinstance(a, SymStr) for a in list(args) + list(kwargs.values())):
                    # symbolic text: only plain positional "{}" fields (what the repo uses to join sequence data)
                    import string
                    pieces, nxt = [], 0
                    for lit, field, spec, conv in string.Formatter().parse(v):
                        if lit:
                            pieces.append(lit)
                        if field is None:
                            continue
                        if field != "" or spec or conv or nxt >= len(args):
                            raise Unsupported("str.format with symbolic text and a non-trivial field")
                        a = args[nxt]
                        nxt += 1
                        if not isinstance(a, (str, SymStr)):
                            raise Unsupported("str.format mixing symbolic text and other values")
                        pieces.append(a)
                    return self.symstr_concat(pieces)
                if any(is_sym(a) or isinstance(a, (Obj, Opaque, EnumVal)) for a in list(args) + list(kwargs.values())):
                    return Opaque("str")
                if any(not isinstance(a, (str, int, float, bool, type(None))) for a in list(args) + list(kwargs.values())):
                    raise Unsupported("str.format of an engine value")
                return v.format(*args, **kwargs)
            if name == "join" and v == "":
                src = self.resolve(args[0])
                sq, _c = self._as_sequence(src)
                if isinstance(sq, LazySeq) and not isinstance(sq.length, int):
                    sq = self.iter_remaining(src) if isinstance(src, SymIter) else sq
                    i = z3.Int("jn!i")
                    ch = sq.get(i)
                    if not isinstance(ch, SymChar):
                        raise Unsupported("join over a symbolic-length sequence of non-characters")
                    st = SymStr(z3.Lambda([i], ch.code), sq.length)
                    st.alphabet = ch.alphabet
                    return st
            if name == "join":
                items = self.iterate_concrete(args[0])
                items = [self.resolve(i) for i in items]
                if all(isinstance(i, str) for i in items):
                    return v.join(items)
                if any(isinstance(i, SymStr) for i in items) and all(isinstance(i, (str, SymStr)) for i in items):
                    seq = []
                    for k, it in enumerate(items):
                        if k and v:
                            seq.append(v)
                        seq.append(it)
                    return self.symstr_concat(seq)
                if any(not isinstance(i, (str, Opaque)) for i in items):
                    raise PyExc("TypeError", "sequence item: expected str instance")
                from .symex_eval import make_text
                parts = []
                for k, it in enumerate(items):
                    if k:
                        parts.append(v)
                    parts.append(it)
                return make_text(parts)
            if all(not is_sym(a) for a in args):
                try:
                    r = getattr(v, name)(*args, **kwargs)
                except (ValueError, IndexError, KeyError) as ex:
                    raise PyExc(type(ex).__name__)
                return r
        if isinstance(v, tuple):
            if name == "index":
                return self.py_method(list(v), "index", args, kwargs)
            if name == "count":
                return self.py_method(list(v), "count", args, kwargs)
        if isinstance(v, int) and name == "bit_length":
            return v.bit_length()
        raise Unsupported(f"method {type(v).__name__}.{name}")

    def set_method(self, v, name, args, kwargs):
        args = [self.resolve(a) for a in args]

        def add(target, x):
            if not self.branch(target.member(self, x)):
                target.items.append(x)

        def add_all(target, src):
            src = self.resolve(src)
            sq, c = self._as_sequence(src)
            if isinstance(src, MSet):
                for x in src.items:
                    add(target, x)
                target.ranges.extend(src.ranges)
            elif isinstance(sq, LazySeq) and sq.tag == "range" and not isinstance(sq.length, int):
                lo = sq.get(0)
                target.ranges.append((lo, lo + sq.length))
            else:
                for x in self.iterate_concrete(src):
                    add(target, x)

        if name == "add":
            add(v, args[0])
            return None
        if name == "update":
            for a in args:
                add_all(v, a)
            return None
        if name == "copy":
            return v.copy()
        if name == "union":
            r = v.copy()
            for a in args:
                add_all(r, a)
            return r
        if v.ranges or any(isinstance(a, MSet) and a.ranges for a in args):
            raise Unsupported(f"set.{name} with symbolic ranges")
        if name in ("discard", "remove"):
            for i, x in enumerate(v.items):
                if self.branch(self.sym_eq(x, args[0])):
                    del v.items[i]
                    return None
            if name == "remove":
                raise PyExc("KeyError", "set.remove")
            return None
        if name == "pop":
            if not v.items:
                raise PyExc("KeyError", "pop from an empty set")
            items = self.set_order(v.items)
            x = items[0]
            v.items = [i for i in v.items if i is not x]
            self.order_sensitive.append("set.pop")
            return x
        if name == "clear":
            v.items = []
            return None
        if name in ("intersection", "difference", "issubset", "issuperset", "isdisjoint", "symmetric_difference",
                    "intersection_update", "difference_update"):
            other = MSet()
            for a in args:
                add_all(other, a)
            inter = [x for x in v.items if self.branch(other.member(self, x))]
            diff = [x for x in v.items if not any(x is y for y in inter)]
            if name == "intersection":
                return MSet(inter)
            if name == "difference":
                return MSet(diff)
            if name == "intersection_update":
                v.items = inter
                return None
            if name == "difference_update":
                v.items = diff
                return None
            if name == "issubset":
                return len(diff) == 0
            if name == "isdisjoint":
                return len(inter) == 0
            if name == "issuperset":
                return all(self.branch(v.member(self, y)) for y in other.items)
            if name == "symmetric_difference":
                rest = [y for y in other.items if not self.branch(v.member(self, y))]
                return MSet(diff + rest)
        raise Unsupported(f"set method {name}")

    def seq_method(self, v, name, args, kwargs):
        if isinstance(v, MSet):
            return self.set_method(v, name, args, kwargs)
        if isinstance(v, SList):
            if name == "append":
                x = self.resolve(args[0])
                vals = x if v.arity is not None else (x,)
                v.arrs = tuple(z3.Store(a, v.length, _z(_as_int(y))) for a, y in zip(v.arrs, vals))
                v.length = v.length + 1
                return None
            if name == "copy":
                return v.copy()
        raise Unsupported(f"method {name} on {type(v).__name__}")

    # ------------------------------------------------------------------ library models (trusted; DESIGN 2.5)
    def ext_reduce(self, interp, args, kw):
        self.trusted_used.add("functools.reduce")
        fn = args[0]
        items = self.iterate_concrete(args[1])
        if len(args) > 2:
            acc = args[2]
        else:
            if not items:
                raise PyExc("TypeError", "reduce() of empty iterable with no initial value")
            acc, items = items[0], items[1:]
        for x in items:
            acc = self.call(fn, [acc, x], {})
        return acc

    def ext_chain(self, interp, args, kw):
        self.trusted_used.add("itertools.chain")
        out = []
        for a in args:
            out.extend(self.iterate_concrete(a))
        return SymIter(out, 0)

    def ext_heapq_merge(self, interp, args, kw):
        """heapq.merge(*iterables, key=None, reverse=False): repeatedly yields the smallest HEAD among the inputs (ties:
        the earlier input first) - a sorted result only if every input is sorted.  Comparisons of symbolic keys fork."""
        self.trusted_used.add("heapq.merge")
        if kw.get("reverse"):
            raise Unsupported("heapq.merge(reverse=True)")
        keyf = kw.get("key")
        pools = [list(self.iterate_concrete(a)) for a in args]
        keyed = [[(self.call(keyf, [x], {}) if keyf is not None else x, x) for x in p] for p in pools]
        heads = [0] * len(keyed)
        out = []
        while True:
            best = None
            for j, p in enumerate(keyed):
                if heads[j] >= len(p):
                    continue
                if best is None:
                    best = j
                    continue
                kj, kb = p[heads[j]][0], keyed[best][heads[best]][0]
                lt = (kj < kb) if (is_int(kj) and is_int(kb) and isinstance(kj, int) and isinstance(kb, int)) else self.sym_lt("<", kj, kb)
                if self.branch(lt):
                    best = j
            if best is None:
                break
            out.append(keyed[best][heads[best]][1])
            heads[best] += 1
        return SymIter(out, 0)

    def ext_bisect(self, args, kw, right):
        """bisect.bisect_right / bisect_left(a, x, lo=0, hi=len(a)): CPython's own binary search, step by step (so the
        answer on a list that is NOT sorted is CPython's answer too); comparisons of symbolic members fork.  Lists of
        concrete length only (a symbolic-length list is Unsupported: the caller's finite scopes take over)."""
        self.trusted_used.add("bisect")
        if kw.get("key") is not None:
            raise Unsupported("bisect(key=...)")
        a = list(self.iterate_concrete(args[0]))
        x = args[1]
        lo = args[2] if len(args) > 2 else kw.get("lo", 0)
        hi = args[3] if len(args) > 3 else kw.get("hi")
        hi = len(a) if hi is None else hi
        if not (isinstance(lo, int) and isinstance(hi, int)):
            raise Unsupported("bisect with symbolic lo / hi")
        if lo < 0:
            raise PyExc("ValueError", "lo must be non-negative")
        while lo < hi:
            mid = (lo + hi) // 2
            lt = self.sym_lt("<", x, a[mid]) if right else self.sym_lt("<", a[mid], x)
            if right:
                if self.branch(lt):
                    hi = mid
                else:
                    lo = mid + 1
            else:
                if self.branch(lt):
                    lo = mid + 1
                else:
                    hi = mid
        return lo

    def ext_product(self, interp, args, kw):
        """itertools.product(*iterables): tuples in lexicographic (odometer) order; concrete-length operands only."""
        import itertools as _it
        self.trusted_used.add("itertools.product")
        pools = [list(self.iterate_concrete(a)) for a in args]
        rep = kw.get("repeat", 1)
        if not isinstance(rep, int):
            raise Unsupported("itertools.product with symbolic repeat")
        return SymIter([tuple(t) for t in _it.product(*pools, repeat=rep)], 0)

    def ext_groupby(self, interp, args, kw):
        """itertools.groupby(iterable, key): consecutive runs of equal keys, as (key, list-of-items) pairs (the real
        function yields lazy sub-iterators; the repo's uses consume each group before advancing, for which a list is
        equivalent).  Equality of symbolic keys forks the path."""
        self.trusted_used.add("itertools.groupby")
        items = self.iterate_concrete(args[0])
        key = kw.get("key", args[1] if len(args) > 1 else None)
        out = []
        for x in items:
            k = self.call(key, [x], {}) if key is not None else x
            if out:
                same = self.sym_eq(out[-1][0], k)
                if self.branch(same if isinstance(same, bool) or is_symbool(same) else self.truth(same)):
                    out[-1][1].append(x)
                    continue
            out.append((k, [x]))
        return SymIter([(k, SymIter(list(g), 0)) for k, g in out], 0)

    def ext_islice(self, interp, args, kw):
        self.trusted_used.add("itertools.islice")
        s = self.resolve(args[0])
        if len(args) == 2:
            lo, hi = 0, args[1]
        else:
            lo, hi = args[1], args[2]
        if len(args) > 3 and args[3] not in (None, 1):
            raise Unsupported("islice step")
        lo = 0 if lo is None else lo
        sq, c = self._as_sequence(s)
        if isinstance(sq, (SList, LazySeq)):
            if hi is not None:
                raise Unsupported("islice with stop on symbolic sequence")
            n = sq.length
            return SymIter(LazySeq(sym_max(n - lo, 0), lambda i, _s=sq, _lo=lo: _s.get(i + _lo), "islice"), 0)
        items = self.iterate_concrete(s)
        return SymIter(items[lo:hi], 0)

    def ext_zip_longest(self, interp, args, kw):
        self.trusted_used.add("itertools.zip_longest")
        import itertools as _it
        lists = [self.iterate_concrete(a) for a in args]
        return [tuple(t) for t in _it.zip_longest(*lists, fillvalue=kw.get("fillvalue"))]


# ---------------------------------------------------------------------- exploration driver
class PathResult:
    def __init__(self, kind, value, pc, side, trace, solver, solver_time):
        self.kind = kind  # 'return' | 'raise' | 'abort' | 'unsupported'
        self.value = value
        self.pc = pc
        self.side = side
        self.trace = trace
        self.solver = solver
        self.solver_time = solver_time


def frontier(engine, run, depth, max_nodes=4000):
    """Decision prefixes that partition the path space: every path is cut just before its (depth+1)-th BRANCHING
    decision (two or more feasible alternatives); paths that end earlier are returned whole.  The subtrees below
    the returned prefixes are disjoint and together contain every feasible path, so ``explore(initial=p)`` over all
    of them is the same exploration as ``explore()`` - spread over processes."""
    stack = [([], 0)]
    out = []
    while stack:
        prefix, nb = stack.pop()
        engine.reset_path(prefix)
        engine.branch_budget = depth - nb
        try:
            run(engine)
        except (PyExc, PathAbort):
            pass
        except RecursionError:
            pass
        tr = engine.trace
        out.append([c for c, _ in tr])
        cnt = nb
        for i in range(len(prefix), len(tr)):
            choice, feas = tr[i]
            if len(feas) > 1:
                cnt += 1
            for alt in feas:
                if alt != choice and alt > choice:
                    stack.append(([c for c, _ in tr[:i]] + [alt], cnt))
        if len(out) > max_nodes:
            raise Unsupported(f"frontier larger than {max_nodes}")
    engine.branch_budget = None
    return out


def explore(engine, run, max_paths=20000, initial=None):
    """Run ``run(engine)`` along every feasible path.  ``run`` builds fresh inputs and calls the function.
    ``initial``: explore only the subtree below this decision prefix (one shard of ``frontier``)."""
    stack = [list(initial) if initial else []]
    results = []
    while stack:
        prefix = stack.pop()
        engine.reset_path(prefix)
        try:
            try:
                v = run(engine)
                res = ("return", v)
            except PyExc as e:
                res = ("raise", e.cls)
            except PathAbort:
                res = ("abort", None)
        except RecursionError:
            res = ("unsupported", "RecursionError in interpreter")
        results.append(PathResult(res[0], res[1], list(engine.pc), list(engine.side), list(engine.trace),
                                  engine.solver, engine.solver_time))
        tr = engine.trace
        for i in range(len(prefix), len(tr)):
            choice, feas = tr[i]
            for alt in feas:
                if alt != choice and alt > choice:
                    stack.append([c for c, _ in tr[:i]] + [alt])
        if len(results) > max_paths:
            raise Unsupported(f"more than {max_paths} paths")
    return results
