"""Builders for gene-layer objects.  The REAL constructors are executed (symbolically in the engine, natively under
CPython) on exon lists of a FIXED length n with symbolic integer coordinates: every case built on them is a proof for
all coordinates at that block count (n = 1..3), never a sample."""
from pyvc.spec import *  # noqa
from pyvc.sources import NS
from .common import *  # noqa

FEATURE = "gene.feature.FeatureInterval"
TRANSCRIPT = "gene.transcript.TranscriptInterval"
CDS = "gene.cds.CDSInterval"
FRAME = "gene.cds_frame.CDSFrame"


def block_lists(S, name, n, nonempty=True, allow_adjacent=True, allow_overlap=False):
    """sorted, pairwise disjoint blocks (adjacent allowed): 0 <= s_k < e_k <= s_{k+1}.
    allow_overlap: only sorted by (start, end) - consecutive blocks may overlap or nest (frameshift-style layouts)."""
    old = getattr(S, "scope", None)
    if S.mode == "sym":
        S.scope = n
    starts = list(S.intlist(name + "_starts"))
    ends = list(S.intlist(name + "_ends"))
    if S.mode == "sym":
        S.scope = old
    S.assume(len(starts) == n and len(ends) == n)
    for k in range(n):
        S.assume(And(0 <= starts[k], (starts[k] < ends[k]) if nonempty else (starts[k] <= ends[k])))
    for k in range(n - 1):
        if allow_overlap:
            S.assume(Or(starts[k] < starts[k + 1], And(starts[k] == starts[k + 1], ends[k] <= ends[k + 1])))
        else:
            S.assume((ends[k] <= starts[k + 1]) if allow_adjacent else (ends[k] < starts[k + 1]))
    return starts, ends


def sample_blocks(rng, name, n, lo=0, gap=(0, 1, 3), length=(1, 2, 4)):
    pos = rng.randint(lo, lo + 4)
    st, en = [], []
    for _ in range(n):
        st.append(pos)
        pos += rng.choice(length)
        en.append(pos)
        pos += rng.choice(gap)
    return {name + "_starts": st, name + "_ends": en}


def strand_of(S, name, directed=True):
    st = S.enum(STRAND, name)
    if directed:
        S.assume(Not(is_unstranded(st)))
    if S.mode == "sym":
        st = S.e.enum_concretize(st)
    return st


def cds_in_exons(S, starts, ends, name="cds"):
    """CDS blocks = exons clipped to [c0, c1): one CDS block per exon; c0 inside the first exon, c1 inside the last."""
    n = len(starts)
    c0, c1 = S.int(name + "_c0"), S.int(name + "_c1")
    S.assume(And(starts[0] <= c0, c0 < ends[0], starts[-1] < c1, c1 <= ends[-1], c0 < c1))
    cs = [c0] + list(starts[1:])
    ce = list(ends[:-1]) + [c1]
    return cs, ce, c0, c1


def sample_cds(rng, d, name="cds", exons="tx"):
    st, en = d[exons + "_starts"], d[exons + "_ends"]
    c0 = rng.randint(st[0], en[0] - 1)
    lo = max(st[-1] + 1, c0 + 1)
    c1 = rng.randint(lo, en[-1])
    d[name + "_c0"], d[name + "_c1"] = c0, c1
    return d
