"""C03 — Sequence slicing keeps the recorded location consistent with the characters kept; SingleInterval
extraction on the plus strand is the slice of the parent text (symbolic text of any length)."""
from pyvc.spec import *  # noqa
from pyvc.sources import NS
from .common import *  # noqa
from .lib import LIB  # noqa


def _chars_equal(a, b, n, k):
    """k-th character of a equals k-th of b (k symbolic, 0 <= k < n)."""
    ca = a.arr[k] if hasattr(a, "arr") else ord(a[k])
    cb = b.arr[k] if hasattr(b, "arr") else ord(b[k])
    return ca == cb


class SliceLocated(Case):
    """s[a:b] of a sequence that sits on its parent at a single interval: characters = data[a:b]; the recorded
    location is the parent location of relative [a,b), i.e. exactly the positions of the characters kept."""
    props = ("C03",)
    name = "Sequence.__getitem__[located on a single interval, slice a:b]"
    func = "sequence.sequence.Sequence.__getitem__"
    call = "s[a:b]"
    raises = {"ValueError": lambda i: Not(And(0 <= i.a, i.a <= i.b, i.b <= i.n))}
    ensures = {
        "length": lambda i, r: r._len == i.b - i.a,
        "k-th-character": lambda i, r: Implies(And(0 <= i.k, i.k < i.b - i.a),
                                               _char(r.sequence, i.k) == _char(i.text, i.a + i.k)),
        "recorded-location": lambda i, r: And(
            r.parent.location.start == If(is_plus(i.loc.strand), i.loc.start + i.a, i.loc.end - i.b),
            r.parent.location.end == If(is_plus(i.loc.strand), i.loc.start + i.b, i.loc.end - i.a),
            enum_eq(r.parent.location.strand, i.loc.strand) if hasattr(i.loc.strand, "idx")
            else r.parent.location.strand is i.loc.strand),
        "alphabet-and-type-kept": lambda i, r: And(r.alphabet is i.s.alphabet or _same(r.alphabet, i.s.alphabet)),
    }

    def inputs(self, S):
        loc = single(S, "loc", directed=True)
        text = S.symstr("text")
        S.assume(slen(text) == loc.end - loc.start)
        par = S.new(PARENT, location=loc)
        s = S.new(SEQUENCE, text, S.enum_const(ALPHABET, "NT_STRICT"), type="piece", parent=par,
                  validate_alphabet=False)
        return NS(s=s, loc=loc, text=text, n=slen(text), a=S.int("a"), b=S.int("b"), k=S.int("k"))

    def samples(self, rng):
        s0 = rng.randint(0, 6)
        n = rng.randint(1, 7)
        a = rng.randint(-1, n)
        return dict(loc_start=s0, loc_end=s0 + n, loc_strand=rng.choice(["PLUS", "MINUS"]),
                    text="".join(rng.choice("ACGT") for _ in range(n)), a=a, b=rng.randint(a, n + 1), k=0)

    def observe(self, r):
        from pyvc.check import default_observe as o
        loc = r.parent.location
        return [o(r._len), o(loc.start), o(loc.end)]


def _char(t, k):
    if hasattr(t, "arr"):
        import z3
        return z3.Select(t.arr, k)
    s = str(t)
    return ord(s[k]) if 0 <= k < len(s) else -1


def _same(a, b):
    return enum_eq(a, b) if hasattr(a, "idx") else a is b


COMP4 = {"A": "T", "C": "G", "G": "C", "T": "A"}  # specification (IUPAC complement restricted to ACGT)


def _comp_code(c):
    out = ord("A")
    for k, v in COMP4.items():
        out = If(c == ord(k), ord(v), out)
    return out


class ExtractSingle(Case):
    """SingleInterval.extract_sequence on a parent with symbolic text of ANY length: the i-th base is the parent base
    at the i-th mapped position, complemented on the minus strand (statement, verbatim)."""
    props = ("C03",)
    name = "SingleInterval.extract_sequence[symbolic parent text]"
    func = "location.location_impl.SingleInterval.extract_sequence"
    call = "(lambda s: (len(s), s))(loc.extract_sequence())"
    # an empty parent sequence is falsy (its truth value is its length): the documented NullSequenceException
    raises = {"NullSequenceException": lambda i: i.L == 0,
              "InvalidStrandException": lambda i: And(i.L > 0, is_unstranded(i.loc.strand))}
    ensures = {
        "length": lambda i, r: r[0] == i.loc.end - i.loc.start,
        "i-th-base-is-image-of-i-th-position": lambda i, r: Implies(
            And(0 <= i.k, i.k < r[0]),
            _char(r[1].sequence if hasattr(r[1], "attrs") else str(r[1]), i.k) == If(
                is_plus(i.loc.strand), _char(i.text, i.loc.start + i.k),
                _comp_code(_char(i.text, i.loc.end - 1 - i.k)))),
    }

    def inputs(self, S):
        par, L = parent_with_sequence(S)
        loc = single(S, "loc", par, L)
        seq = par.sequence
        text = seq.sequence if hasattr(seq, "attrs") else str(seq)
        return NS(loc=loc, text=text, k=S.int("k"), L=L)

    def samples(self, rng):
        s0 = rng.randint(0, 6)
        e0 = s0 + rng.randint(0, 6)
        return dict(loc_start=s0, loc_end=e0, loc_strand=rng.choice(["PLUS", "MINUS", "UNSTRANDED"]),
                    seq="".join(rng.choice("ACGT") for _ in range(e0 + rng.randint(0, 3))), k=rng.randint(0, 5))

    def observe(self, r):
        from pyvc.check import default_observe as o
        text = r[1].sequence if hasattr(r[1], "attrs") else str(r[1])
        return [o(r[0]), text if isinstance(text, str) else None]


class ReverseComplementLocated(Case):
    """Sequence.reverse_complement of a sequence that sits on its parent at a single interval, symbolic text of ANY
    length: base k of the result is the complement of base n-1-k, and the recorded location covers the same parent
    positions on the OPPOSITE strand - so base k of the result is still the (complemented) parent base at the k-th
    position of the recorded location.  Twice = identity on text and location."""
    props = ("C03",)
    name = "Sequence.reverse_complement[located on a single interval, symbolic text]"
    func = "sequence.sequence.Sequence.reverse_complement"
    call = "(lambda r: (r, r.reverse_complement(), r.parent.strand))(s.reverse_complement())"
    ensures = {
        "length": lambda i, r: And(r[0]._len == i.n, r[1]._len == i.n),
        "k-th-base-is-complement-of-base-n-1-k": lambda i, r: Implies(
            And(0 <= i.k, i.k < i.n), _char(r[0].sequence, i.k) == _comp_code(_char(i.text, i.n - 1 - i.k))),
        "recorded-location-same-positions-opposite-strand": lambda i, r: And(
            r[0].parent.location.start == i.loc.start, r[0].parent.location.end == i.loc.end,
            Not(_same(r[0].parent.location.strand, i.loc.strand)),
            _same(r[2], r[0].parent.location.strand)),
        "twice-is-identity": lambda i, r: And(
            Implies(And(0 <= i.k, i.k < i.n), _char(r[1].sequence, i.k) == _char(i.text, i.k)),
            r[1].parent.location.start == i.loc.start, r[1].parent.location.end == i.loc.end,
            _same(r[1].parent.location.strand, i.loc.strand)),
    }

    def inputs(self, S):
        loc = single(S, "loc", directed=True)
        text = S.symstr("text")
        # a zero-length location is falsy (its truth value is its length): reverse_complement then drops it
        S.assume(And(slen(text) == loc.end - loc.start, loc.start < loc.end))
        par = S.new(PARENT, location=loc)
        s = S.new(SEQUENCE, text, S.enum_const(ALPHABET, "NT_STRICT"), type="piece", parent=par)
        return NS(s=s, loc=loc, text=text, n=slen(text), k=S.int("k"))

    def samples(self, rng):
        s0 = rng.randint(0, 6)
        n = rng.randint(1, 7)
        return dict(loc_start=s0, loc_end=s0 + n, loc_strand=rng.choice(["PLUS", "MINUS"]),
                    text="".join(rng.choice("ACGT") for _ in range(n)), k=rng.randint(0, 6))

    def observe(self, r):
        from pyvc.check import default_observe as o
        out = []
        for x in r[:2]:
            t = x.sequence if hasattr(x, "attrs") else str(x)
            out.append([t if isinstance(t, str) else None, o(x.parent.location.start), o(x.parent.location.end),
                        x.parent.location.strand.name if hasattr(x.parent.location.strand, "name") else None])
        return out


class ReverseComplementCompoundLocated(Case):
    """Sequence.reverse_complement of a sequence that sits on its parent at a TWO-BLOCK location (an asymmetric layout:
    the blocks differ in length and position): text = reverse complement; the recorded location covers the SAME parent
    blocks on the opposite strand (it is not mirrored), so lifting a position of the result through it still lands on
    the base it was read from."""
    props = ("C03", "C04")
    name = "Sequence.reverse_complement[located on two blocks, symbolic text]"
    func = "sequence.sequence.Sequence.reverse_complement"
    call = "(lambda r: (r, r.parent.location, r.parent.location.strand))(s.reverse_complement())"
    ensures = {
        "k-th-base-is-complement-of-base-n-1-k": lambda i, r: Implies(
            And(0 <= i.k, i.k < i.n), _char(r[0].sequence, i.k) == _comp_code(_char(i.text, i.n - 1 - i.k))),
        "recorded-location-same-blocks-opposite-strand": lambda i, r: And(
            len(_blocks(r[1])) == 2, *[And(a[0] == s_, a[1] == e_) for a, s_, e_ in zip(_blocks(r[1]), i.starts, i.ends)],
            Not(_same(r[2], i.strand))),
    }

    def inputs(self, S):
        from .gene_common import block_lists, strand_of
        starts, ends = block_lists(S, "loc", 2, allow_adjacent=False)
        strand = strand_of(S, "strand")
        text = S.symstr("text")
        S.assume(slen(text) == (ends[0] - starts[0]) + (ends[1] - starts[1]))
        loc = S.new(COMPOUND, starts, ends, strand)
        s = S.new(SEQUENCE, text, S.enum_const(ALPHABET, "NT_STRICT"), type="piece", parent=S.new(PARENT, location=loc))
        return NS(s=s, starts=starts, ends=ends, strand=strand, text=text, n=slen(text), k=S.int("k"))

    def samples(self, rng):
        from .gene_common import sample_blocks
        d = sample_blocks(rng, "loc", 2, gap=(1, 3))
        n = sum(e - s for s, e in zip(d["loc_starts"], d["loc_ends"]))
        d.update(strand=rng.choice(["PLUS", "MINUS"]), text="".join(rng.choice("ACGT") for _ in range(n)), k=rng.randint(0, 8))
        return d

    def observe(self, r):
        from .c02_single import obs_loc
        t = r[0].sequence if hasattr(r[0], "attrs") else str(r[0])
        return [t if isinstance(t, str) else None, obs_loc(r[1])[:3]]


def _blocks(loc):
    from .c02_single import blocks_of
    return blocks_of(loc)


class AppendLocated(Case):
    """Sequence.append of two pieces of one parent (each located on a single interval, same strand), symbolic texts of
    ANY length: the text is the concatenation, the recorded location is the union of the two locations (exactly the
    positions of the characters kept, in 5'->3' order); refused (ValueError, documented) when the second piece is not
    downstream of the first on that strand."""
    props = ("C03",)
    name = "Sequence.append[two located pieces of one parent, symbolic texts]"
    func = "sequence.sequence.Sequence.append"
    call = "a.append(b)"
    raises = {"ValueError": lambda i: If(i.plus, i.la.end > i.lb.start, i.la.start < i.lb.end)}
    ensures = {
        "length": lambda i, r: r._len == i.na + i.nb,
        "k-th-character": lambda i, r: Implies(And(0 <= i.k, i.k < i.na + i.nb), _char(r.sequence, i.k) == If(
            i.k < i.na, _char(i.ta, i.k), _char(i.tb, i.k - i.na))),
        "recorded-location-is-the-union": lambda i, r: Iff(
            _cov_loc(r.parent.location, i.p),
            Or(And(i.la.start <= i.p, i.p < i.la.end), And(i.lb.start <= i.p, i.p < i.lb.end))),
        "strand-kept": lambda i, r: _same(r.parent.location.strand, i.la.strand),
    }

    def inputs(self, S):
        la = single(S, "la", directed=True)
        lb = single(S, "lb", directed=True)
        S.assume(enum_eq(la.strand, lb.strand) if hasattr(la.strand, "idx") else la.strand is lb.strand)
        S.assume(And(la.start < la.end, lb.start < lb.end))
        ta, tb = S.symstr("ta"), S.symstr("tb")
        S.assume(And(slen(ta) == la.end - la.start, slen(tb) == lb.end - lb.start))
        NT = S.enum_const(ALPHABET, "NT_STRICT")
        a = S.new(SEQUENCE, ta, NT, type="piece", parent=S.new(PARENT, id="chr", location=la))
        b = S.new(SEQUENCE, tb, NT, type="piece", parent=S.new(PARENT, id="chr", location=lb))
        return NS(a=a, b=b, la=la, lb=lb, ta=ta, tb=tb, na=slen(ta), nb=slen(tb), k=S.int("k"), p=S.int("p"),
                  plus=is_plus(la.strand))

    def samples(self, rng):
        s0 = rng.randint(0, 6)
        n = rng.randint(1, 4)
        s1 = rng.randint(0, 12)
        m = rng.randint(1, 4)
        st = rng.choice(["PLUS", "MINUS"])
        return dict(la_start=s0, la_end=s0 + n, la_strand=st, lb_start=s1, lb_end=s1 + m, lb_strand=st,
                    ta="".join(rng.choice("ACGT") for _ in range(n)), tb="".join(rng.choice("ACGT") for _ in range(m)),
                    k=rng.randint(0, 7), p=rng.randint(0, 16))

    def observe(self, r):
        from pyvc.check import default_observe as o
        from .c02_single import obs_loc
        t = r.sequence if hasattr(r, "attrs") else str(r)
        return [t if isinstance(t, str) else None, obs_loc(r.parent.location)]


def _cov_loc(loc, p):
    from .c02_single import covers_pos
    return covers_pos(loc, p)


class ToFasta(Case):
    """Sequence.to_fasta(num_chars) (the FASTA section of a GFF3 / the sequence a re-parse attaches): header line
    '>id', then the residues in order, EVERY residue exactly once, in lines of num_chars residues (the last line
    shorter, never empty).  Complete domain: all lengths 1..13 x line widths 1, 2, 3, 5, 12 and lengths 59..62, 119..122
    at the default width 60."""
    props = ("C03", "C11")
    name = "Sequence.to_fasta[all lengths 1..13 x widths; lengths around 60 and 120 at the default width]"
    func = "sequence.sequence.Sequence.to_fasta"
    module = "sequence.sequence"
    call = "seq.to_fasta(w) if w is not None else seq.to_fasta()"
    raises = {"EmptySequenceFastaError": lambda i: len(i.text) == 0}
    ensures = {
        "header-then-all-residues-in-order": lambda i, r: r.split("\n")[0] == ">s1" and "".join(r.split("\n")[1:]) == i.text,
        "line-lengths": lambda i, r: all(len(x) == (i.w or 60) for x in r.split("\n")[1:-1]) and 0 < len(r.split("\n")[-1]) <= (i.w or 60),
    }

    def inputs(self, S):
        text = S.const("text")
        seq = S.new(SEQUENCE, text, S.enum_const(ALPHABET, "NT_STRICT"), id="s1")
        return NS(seq=seq, text=text, w=S.const("w"))

    def ground(self):
        base = "ACGTTGCAAGCTTAGC"
        mk = lambda n: (base * (n // len(base) + 1))[:n]  # noqa
        for n in range(0, 14):
            for w in (1, 2, 3, 5, 12):
                yield dict(text=mk(n), w=w)
        for n in (59, 60, 61, 62, 119, 120, 121, 122):
            yield dict(text=mk(n), w=None)


class ExtractCompound(Case):
    """CompoundInterval.extract_sequence (blocks appended in strand order through Sequence.append) on a parent with
    symbolic text of ANY length, block count fixed: the i-th base is the parent base at the i-th mapped position of the
    point-wise map (C01), complemented on the minus strand."""
    props = ("C03",)
    func = "location.location_impl.CompoundInterval.extract_sequence"
    shard_depth = 3

    def __init__(self, n, overlap=False):
        self.n, self.overlap = n, overlap
        self.name = (f"CompoundInterval.extract_sequence[{n} blocks{', blocks may overlap, nest or share a start' if overlap else ''}"
                     f", symbolic parent text]")
        self.call = "(lambda s: (len(s), s, s.parent.location if s.parent is not None else None))(loc.extract_sequence())"
        if overlap:
            # the i-th mapped position is taken from the REAL point map (proved for every layout under C01), so the
            # clause is the property statement itself and does not depend on the order the constructor stores
            # blocks that share a start in
            self.call = ("(lambda s: (len(s), s, s.parent.location if s.parent is not None else None, "
                         "loc.relative_to_parent_pos(k) if 0 <= k < len(s) else -1))(loc.extract_sequence())")
        self.ensures = {
            "length": lambda i, r: r[0] == sum((e - s for s, e in zip(i.starts, i.ends)), 0),
            "i-th-base-is-image-of-i-th-position": lambda i, r: Implies(
                And(0 <= i.k, i.k < r[0]),
                _char(r[1].sequence if hasattr(r[1], "attrs") else str(r[1]), i.k) == (
                    _char(i.text, _pos(i, i.k)) if i.plus else _comp_code(_char(i.text, _pos(i, i.k))))),
        }
        if overlap:
            self.ensures["i-th-base-is-image-of-i-th-position"] = lambda i, r: Implies(
                And(0 <= i.k, i.k < r[0]),
                _char(r[1].sequence if hasattr(r[1], "attrs") else str(r[1]), i.k) == (
                    _char(i.text, r[3]) if i.plus else _comp_code(_char(i.text, r[3]))))

    def inputs(self, S):
        from .gene_common import block_lists, strand_of
        par, L = parent_with_sequence(S)
        starts, ends = block_lists(S, "loc", self.n, allow_overlap=self.overlap)
        for e in (ends if self.overlap else ends[-1:]):
            S.assume(e <= L)
        strand = strand_of(S, "strand")
        loc = S.new(COMPOUND, starts, ends, strand, par)
        seq = par.sequence
        text = seq.sequence if hasattr(seq, "attrs") else str(seq)
        plus = (strand.members[strand.idx][0] if hasattr(strand, "members") else strand.name) == "PLUS"
        return NS(loc=loc, text=text, k=S.int("k"), q=S.int("q"), L=L, starts=starts, ends=ends, plus=plus)

    def samples(self, rng):
        from .gene_common import sample_blocks
        d = sample_blocks(rng, "loc", self.n)
        if self.overlap:
            bl = sorted((lambda a: (a, a + rng.randint(1, 4)))(rng.randint(0, 6)) for _ in range(self.n))
            d = {"loc_starts": [b[0] for b in bl], "loc_ends": [b[1] for b in bl]}
        d.update(strand=rng.choice(["PLUS", "MINUS"]), k=rng.randint(0, 8), q=rng.randint(0, 20),
                 seq="".join(rng.choice("ACGT") for _ in range(max(d["loc_ends"]) + rng.randint(0, 3))))
        return d

    def observe(self, r):
        from pyvc.check import default_observe as o
        from .c02_single import obs_loc
        text = r[1].sequence if hasattr(r[1], "attrs") else str(r[1])
        return [o(r[0]), text if isinstance(text, str) else None, obs_loc(r[2])[:3] if r[2] is not None else None] + (
            [o(r[3])] if len(r) > 3 else [])


def _cov(loc, q):
    from .c02_single import covers_pos
    return covers_pos(loc, q)


def _pos(i, t):
    """parent position of relative position t (point-wise map of C01 written out for the fixed block count)."""
    n = len(i.starts)
    order = list(range(n)) if i.plus else list(range(n - 1, -1, -1))
    expr = -1
    pre = 0
    parts = []
    for k in order:
        ln = i.ends[k] - i.starts[k]
        parts.append((And(pre <= t, t < pre + ln), (i.starts[k] + (t - pre)) if i.plus else (i.ends[k] - 1 - (t - pre))))
        pre = pre + ln
    for cond, val in reversed(parts):
        expr = If(cond, val, expr)
    return expr


class SplicedOnChunk(Case):
    """FeatureInterval.get_spliced_sequence for a feature built on a sequence chunk (either strand) that contains it:
    the i-th base is the CHROMOSOME base at the i-th mapped position of the feature (complemented on the minus
    strand) - read from the chunk's text through the chunk offset / mirror, i.e. the same sequence the
    whole-chromosome feature has (C07: 'its sequences equal the corresponding stretch of the whole-chromosome
    sequences')."""
    props = ("C03", "C07", "C04")
    func = "gene.interval.AbstractFeatureInterval.get_spliced_sequence"
    module = "gene.feature"
    shard_depth = 3

    def __init__(self, n):
        self.n = n
        self.name = f"FeatureInterval.get_spliced_sequence[{n} blocks, on a sequence chunk of either strand]"
        self.call = "(lambda s: (len(s), s))(f.get_spliced_sequence())"
        self.ensures = {
            "length": lambda i, r: r[0] == sum((e - s for s, e in zip(i.starts, i.ends)), 0),
            "i-th-base-is-the-chromosome-base-at-the-i-th-position": lambda i, r: Implies(
                And(0 <= i.k, i.k < r[0]),
                _char(r[1].sequence if hasattr(r[1], "attrs") else str(r[1]), i.k) == _chrom_base(i, _pos(i, i.k))),
        }

    def inputs(self, S):
        from .gene_common import block_lists, strand_of, FEATURE
        from .c04_liftover import chunk_parent_stranded
        starts, ends = block_lists(S, "f", self.n)
        strand = strand_of(S, "strand")
        cp, cs, ce, minus = chunk_parent_stranded(S)
        S.assume(And(cs <= starts[0], ends[-1] <= ce))
        f = S.new(FEATURE, starts, ends, strand, parent_or_seq_chunk_parent=cp)
        plus = (strand.members[strand.idx][0] if hasattr(strand, "members") else strand.name) == "PLUS"
        return NS(f=f, text=S.symstr("chunk_seq"), k=S.int("k"), starts=starts, ends=ends, plus=plus, cs=cs, ce=ce,
                  minus=minus)

    def samples(self, rng):
        from .gene_common import sample_blocks
        d = sample_blocks(rng, "f", self.n, lo=2)
        cs = rng.randint(0, d["f_starts"][0])
        ce = d["f_ends"][-1] + rng.randint(0, 3)
        d.update(strand=rng.choice(["PLUS", "MINUS"]), k=rng.randint(0, 8), chunk_start=cs, chunk_end=ce,
                 chunk_strand=rng.choice(["PLUS", "MINUS"]), chunk_seq="".join(rng.choice("ACGT") for _ in range(ce - cs)))
        return d

    def observe(self, r):
        from pyvc.check import default_observe as o
        text = r[1].sequence if hasattr(r[1], "attrs") else str(r[1])
        return [o(r[0]), text if isinstance(text, str) else None]


def _chrom_base(i, p):
    """base of the feature's strand at chromosome position p, read from the chunk text: a PLUS chunk holds chromosome
    base p at index p-cs; a MINUS chunk holds its complement at index ce-1-p."""
    plus_strand_base = _comp_code(_char(i.text, i.ce - 1 - p)) if i.minus else _char(i.text, p - i.cs)
    return plus_strand_base if i.plus else _comp_code(plus_strand_base)


CASES = [SliceLocated(), ReverseComplementLocated(), ReverseComplementCompoundLocated(), AppendLocated(), ToFasta(), ExtractSingle(), ExtractCompound(2), ExtractCompound(3), ExtractCompound(2, True), ExtractCompound(3, True), SplicedOnChunk(1), SplicedOnChunk(2)]
