#!/usr/bin/env python3
"""Verify a seeded defect (patch.diff + demo.py) in a scratch worktree of /repo's HEAD and store it under
/verif/seeded/<name>/ with meta.json.  Usage: seed_verify.py <property> <name> <srcdir> "<needs>" """
import json, os, shutil, subprocess, sys, tempfile

prop, name, src, needs = sys.argv[1:5]
wt = tempfile.mkdtemp(prefix="seedchk_", dir="/tmp")
os.rmdir(wt)
def sh(cmd, cwd=None):
    p = subprocess.run(cmd, shell=True, cwd=cwd, capture_output=True, text=True)
    return p.returncode, (p.stdout + p.stderr)
rc, out = sh(f"git -C /repo worktree add -q --detach {wt} HEAD")
assert rc == 0, out
try:
    head = sh("git -C /repo rev-parse --short HEAD")[1].strip()
    demo = os.path.join(src, "demo.py")
    rc0, o0 = sh(f"PYTHONPATH={wt} /venv/bin/python {demo}", cwd=wt)
    rca, oa = sh(f"git apply {os.path.join(src, 'patch.diff')}", cwd=wt)
    if rca != 0:
        rca, oa = sh(f"git apply -3 {os.path.join(src, 'patch.diff')}", cwd=wt)
    rc1, o1 = sh(f"PYTHONPATH={wt} /venv/bin/python {demo}", cwd=wt)
    rct, ot = sh("/venv/bin/python -m pytest -q -p no:cacheprovider --timeout=900 --continue-on-collection-errors 2>&1 | tail -1", cwd=wt)
    ok = rc0 == 0 and rca == 0 and rc1 != 0 and "1466 passed" in ot and "failed" not in ot
    print(f"{name}: demo_clean_rc={rc0} apply_rc={rca} demo_patched_rc={rc1} tests='{ot.strip()}' -> {'OK' if ok else 'REJECT'}")
    if not ok:
        print(o0[-500:], oa[-500:], o1[-300:])
    if ok:
        dst = os.path.join("/verif/seeded", name)
        os.makedirs(dst, exist_ok=True)
        shutil.copy(os.path.join(src, "patch.diff"), dst)
        shutil.copy(demo, dst)
        notes = open(os.path.join(src, "notes.txt")).read() if os.path.exists(os.path.join(src, "notes.txt")) else ""
        json.dump(dict(property=prop, name=name, needs_to_manifest=needs, verified_at_repo_head=head,
                       ran=["demo.py on clean scratch worktree: exit 0", f"demo.py with patch: exit {rc1}",
                            "pytest (BASELINE cmd) with patch: " + ot.strip()],
                       author_notes=notes, demo_failure_tail=o1[-400:]), open(os.path.join(dst, "meta.json"), "w"), indent=1)
finally:
    sh(f"git -C /repo worktree remove --force {wt}")
