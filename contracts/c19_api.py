"""C19 — 'any public operation on valid objects either returns a well-formed value or raises a documented exception -
never an internal error such as AttributeError, IndexError, KeyError or RecursionError'.

A sweep over the PUBLIC API of the location classes: one case per (receiver layout, method); receivers are built by
the real constructors (SingleInterval; CompoundInterval with two blocks that may overlap, nest or be empty; all three
strands), arguments are symbolic (integers, a second location, strands).  Obligation: the call returns, or raises an
exception of the library's hierarchy (LocationException and subclasses ...) or ValueError - anything else
(AttributeError, IndexError, KeyError, TypeError, StopIteration, ...) fails `no-other-exception`; a returned location
is structurally well formed.  The method list is read from the class bodies on every run; methods the verifier cannot
execute are listed (evidence `not_covered`), never silently skipped."""
from pyvc.spec import *  # noqa
from pyvc.sources import NS
from .common import *  # noqa
from .lib import LIB  # noqa

DOCUMENTED = ("BioCantorException", "ValueError", "NotImplementedError")

# method -> argument kinds (i: symbolic int, L: another location, S: strand, D: distance type, b: bool)
LOCATION_API = {
    "blocks": "", "is_contiguous": "", "is_empty": "", "is_overlapping": "", "num_blocks": "", "parent_id": "",
    "parent_type": "", "gap_list": "", "gaps_location": "", "merge_overlapping": "", "optimize_blocks": "",
    "optimize_and_combine_blocks": "", "reverse": "", "reverse_strand": "", "scan_blocks": "",
    "contains": "L", "distance_to": "L", "has_overlap": "L", "intersection": "L", "minus": "L", "union": "L",
    "union_preserve_overlaps": "L", "location_relative_to": "L", "parent_to_relative_location": "L",
    "extend_absolute": "ii", "extend_relative": "ii", "parent_to_relative_pos": "i", "relative_to_parent_pos": "i",
    "relative_interval_to_parent_location": "iiS", "reset_strand": "S", "shift_position": "i", "scan_windows": "iii",
}
PROPERTIES = {"blocks", "is_contiguous", "is_empty", "is_overlapping", "num_blocks", "parent_id", "parent_type",
              "start", "end", "strand"}


def _wf_loc(r):
    """a returned location: 0 <= start <= end for every block; anything else: nothing to say."""
    cn = class_name(r) if hasattr(r, "attrs") or hasattr(r, "start") else None
    if cn not in ("SingleInterval", "CompoundInterval"):
        return True
    from .c02_single import blocks_of
    try:
        bl = blocks_of(r)
    except Exception:
        return True
    return And(*[And(0 <= s, s <= e) for s, e in bl])


class LocationApi(Case):
    props = ("C19",)
    may_raise = DOCUMENTED
    xcheck_n = 10  # CPython cross-check samples per case (quick tier; x10 in the thorough tier)
    module = "location.location_impl"

    def __init__(self, recv, meth, kinds, other="single"):
        self.recv, self.meth, self.kinds, self.other = recv, meth, kinds, other
        # compound x compound set algebra forks on every pair of block comparisons: spread over the pool
        self.shard_depth = 6 if (recv == "compound" and "L" in kinds and other == "compound") else 0
        cls = {"single": "SingleInterval", "compound": "CompoundInterval", "empty": "_EmptyLocation"}[recv]
        self.func = f"location.location_impl.{cls}.{meth}"
        self.name = (f"{cls}.{meth}[{'2 blocks, any layout, ' if recv == 'compound' else ''}any strand"
                     + (f", argument: {other} location" if "L" in kinds else "") + "]: returns or raises a documented error")
        args = []
        for n, k in enumerate(kinds):
            args.append({"i": f"a{n}", "L": "other", "S": f"s{n}", "b": f"b{n}"}[k])
        acc = f"x.{meth}" + ("" if meth in PROPERTIES else "(" + ", ".join(args) + ")")
        # generators / iterators are consumed so that errors raised lazily are seen
        self.call = f"_force({acc})"
        self.ensures = {"returned-location-is-well-formed": lambda i, r: _wf_loc(r)}
        self.allow_uncovered = ("return",)  # a method may be refused for every input of a layout (e.g. empty location)

    def inputs(self, S):
        from .gene_common import block_lists
        ns = {}
        if self.recv == "single":
            ns["x"] = single(S, "x")
        elif self.recv == "compound":
            starts, ends = block_lists(S, "x", 2, nonempty=False, allow_overlap=True)
            st = S.enum(STRAND, "x_strand")
            if S.mode == "sym":
                st = S.e.enum_concretize(st)
            ns["x"] = S.new(COMPOUND, starts, ends, st)
        else:
            f = S.fn("location.location_impl.EmptyLocation")
            ns["x"] = f() if S.mode == "native" else S.e.call(f, [], {})
        for n, k in enumerate(self.kinds):
            if k == "i":
                ns[f"a{n}"] = S.int(f"a{n}")
            elif k == "S":
                ns[f"s{n}"] = S.enum(STRAND, f"s{n}")
            elif k == "b":
                ns[f"b{n}"] = S.bool(f"b{n}")
            elif k == "L":
                if self.other == "single":
                    ns["other"] = single(S, "o")
                else:
                    starts, ends = block_lists(S, "o", 2, nonempty=False, allow_overlap=True)
                    st = S.enum(STRAND, "o_strand")
                    if S.mode == "sym":
                        st = S.e.enum_concretize(st)
                    ns["other"] = S.new(COMPOUND, starts, ends, st)
        if S.mode == "native":
            ns["_force"] = _force
        else:
            from pyvc.values import BuiltinFn, SymIter
            # generators are executed when called in the engine (their items are a list already): drain iterators
            ns["_force"] = BuiltinFn("force", lambda interp, a, k: (
                interp.iterate_concrete(a[0]) if isinstance(interp.resolve(a[0]), SymIter) else a[0]))
        return NS(**ns)

    def samples(self, rng):
        d = {}
        strands = ["PLUS", "MINUS", "UNSTRANDED"]
        if self.recv == "single":
            s = rng.randint(0, 8)
            d.update(x_start=s, x_end=s + rng.randint(0, 5), x_strand=rng.choice(strands))
        elif self.recv == "compound":
            a = rng.randint(0, 6)
            b = a + rng.randint(0, 5)
            c = rng.randint(a, a + 6)
            e = c + rng.randint(0, 5)
            if (c, e) < (a, b):
                a, b, c, e = c, e, a, b
            d.update(x_starts=[a, c], x_ends=[b, e], x_strand=rng.choice(strands))
        for n, k in enumerate(self.kinds):
            if k == "i":
                d[f"a{n}"] = rng.randint(-2, 9)
            elif k == "S":
                d[f"s{n}"] = rng.choice(strands)
            elif k == "b":
                d[f"b{n}"] = rng.random() < 0.5
            elif k == "L":
                if self.other == "single":
                    s = rng.randint(0, 8)
                    d.update(o_start=s, o_end=s + rng.randint(0, 5), o_strand=rng.choice(strands))
                else:
                    a = rng.randint(0, 6)
                    b = a + rng.randint(0, 5)
                    c = rng.randint(a, a + 6)
                    e = c + rng.randint(0, 5)
                    if (c, e) < (a, b):
                        a, b, c, e = c, e, a, b
                    d.update(o_starts=[a, c], o_ends=[b, e], o_strand=rng.choice(strands))
        return d

    def observe(self, r):
        from .c02_single import obs_loc
        from pyvc.check import default_observe as o
        try:
            if class_name(r) in ("SingleInterval", "CompoundInterval", "_EmptyLocation"):
                return obs_loc(r)[:3]
        except Exception:
            pass
        if isinstance(r, (list, tuple)):
            return [self.observe(x) for x in r]
        return o(r)


def _force(v):
    import types
    if isinstance(v, (types.GeneratorType, map, zip, filter)) or type(v).__name__.endswith("iterator"):
        return list(v)
    return v


def _mk_cases():
    from pyvc.repo import Repo
    repo = Repo()
    out = []
    for meth, kinds in LOCATION_API.items():
        for recv in ("single", "compound"):
            cls = repo.find("location.location_impl." + {"single": "SingleInterval", "compound": "CompoundInterval"}[recv])
            if cls.find_method(repo, meth) is None:
                continue  # the class does not offer this method (read from the class bodies on every run)
            if meth == "scan_windows":
                continue  # range() with a symbolic step: outside the verifier's subset; proved for SingleInterval in c05_cds
            if "L" in kinds:
                for other in ("single", "compound"):
                    out.append(LocationApi(recv, meth, kinds, other))
            else:
                out.append(LocationApi(recv, meth, kinds))
    return out


CASES = _mk_cases()


# ---------------------------------------------------------------------------------------- gene-layer accessors
GENE_API = {
    "transcript": ["blocks", "cds_blocks", "cds_chunk_relative_location", "cds_end", "cds_location", "cds_size",
                   "cds_start", "chromosome_gaps_location", "chromosome_intron_location", "chromosome_location",
                   "chromosome_span", "chunk_relative_blocks", "chunk_relative_cds_blocks", "chunk_relative_cds_end",
                   "chunk_relative_cds_size", "chunk_relative_cds_start", "chunk_relative_end",
                   "chunk_relative_gaps_location", "chunk_relative_intron_location", "chunk_relative_location",
                   "chunk_relative_size", "chunk_relative_span", "chunk_relative_start", "chunk_relative_strand",
                   "export_qualifiers", "get_3p_interval", "get_5p_interval", "get_cds_sequence",
                   "get_genomic_sequence", "get_reference_sequence", "get_spliced_sequence", "get_transcript_sequence",
                   "has_sequence", "id", "identifiers", "identifiers_dict", "is_chunk_relative", "is_coding",
                   "is_primary_feature", "is_primary_tx", "name", "num_blocks", "num_chunk_relative_blocks",
                   "relative_blocks", "strand", "to_bed12", "to_dict", "to_gff"],
    "cds": ["blocks", "chromosome_codon_locations", "chromosome_gaps_location", "chromosome_location",
            "chromosome_span", "chunk_relative_blocks", "chunk_relative_codon_locations", "chunk_relative_end",
            "chunk_relative_frames", "chunk_relative_gaps_location", "chunk_relative_location", "chunk_relative_size",
            "chunk_relative_span", "chunk_relative_start", "chunk_relative_strand", "export_qualifiers",
            "extract_sequence", "get_genomic_sequence", "get_reference_sequence", "get_spliced_sequence",
            "has_sequence", "id", "identifiers", "identifiers_dict", "is_chunk_relative", "is_primary_feature", "name",
            "num_blocks", "num_chunk_relative_blocks", "num_chunk_relative_codons", "num_codons",
            "optimize_and_combine_blocks", "optimize_blocks", "relative_blocks", "strand",
            "to_dict", "to_gff"],
    # not in the sweep (outside the verifier's subset: iteration over a symbolic number of codons; covered through
    # chunk_relative_codon_locations / chromosome_codon_locations): scan_codon_locations, scan_chromosome_codon_locations,
    # scan_chunk_relative_codon_locations; Codon lookups on symbolic text: translate, scan_codons, has_valid_stop,
    # has_in_frame_stop, has_canonical_start_codon, get_protein_sequence
}
_GENE_PROPS = None


def _gene_props():
    """which of the names are properties (read from the class bodies)."""
    global _GENE_PROPS
    if _GENE_PROPS is None:
        from pyvc.repo import Repo
        repo = Repo()
        _GENE_PROPS = {}
        for kind, q in (("transcript", "gene.transcript.TranscriptInterval"), ("cds", "gene.cds.CDSInterval")):
            cls = repo.find(q)
            for m in GENE_API[kind]:
                f = cls.find_method(repo, m)
                _GENE_PROPS[(kind, m)] = None if f is None else bool(f.is_property)
    return _GENE_PROPS


class GeneApi(Case):
    """accessors of a (single-exon, coding) TranscriptInterval / CDSInterval, parentless or built on a sequence chunk
    with ANY window - containing the interval, cutting it, holding no CDS base, or missing it altogether: every
    accessor returns or raises a documented (library) exception."""
    props = ("C19", "C07")
    may_raise = DOCUMENTED
    shard_depth = 3
    xcheck_n = 10

    def __init__(self, kind, meth, chunk):
        self.kind, self.meth, self.chunk = kind, meth, chunk
        cls = {"transcript": "gene.transcript.TranscriptInterval", "cds": "gene.cds.CDSInterval"}[kind]
        self.func = f"{cls}.{meth}"
        self.module = cls.rsplit(".", 1)[0]
        self.name = (f"{cls.split('.')[-1]}.{meth}[1 exon, {'on a sequence chunk with any window' if chunk else 'no parent'}]"
                     ": returns or raises a documented error")
        is_prop = _gene_props()[(kind, meth)]
        self.call = f"_force(x.{meth}" + ("" if is_prop else "()") + ")"
        self.ensures = {"returned-location-is-well-formed": lambda i, r: _wf_loc(r)}
        self.allow_uncovered = ("return",)

    def inputs(self, S):
        from .gene_common import block_lists, strand_of, TRANSCRIPT, CDS, FRAME
        starts, ends = block_lists(S, "x", 1)
        strand = strand_of(S, "strand")
        cp = None
        if self.chunk:
            from .c04_liftover import chunk_parent
            cp, cs, ce = chunk_parent(S)
            S.assume(cs < ce)
        f = S.enum(FRAME, "frame")
        S.assume(Not(enum_name_is(f, "NONE")))
        if S.mode == "sym":
            f = S.e.enum_concretize(f)
        if self.kind == "cds":
            x = S.new(CDS, starts, ends, strand, [f], parent_or_seq_chunk_parent=cp)
        else:
            c0, c1 = S.int("c0"), S.int("c1")
            S.assume(And(starts[0] <= c0, c0 < c1, c1 <= ends[0]))
            x = S.new(TRANSCRIPT, starts, ends, strand, cds_starts=[c0], cds_ends=[c1], cds_frames=[f],
                      transcript_id="t1", sequence_name="chr1", parent_or_seq_chunk_parent=cp)
        if S.mode == "native":
            force = _force
        else:
            from pyvc.values import BuiltinFn, SymIter
            force = BuiltinFn("force", lambda interp, a, k: (
                interp.iterate_concrete(a[0]) if isinstance(interp.resolve(a[0]), SymIter) else a[0]))
        return NS(x=x, _force=force)

    def samples(self, rng):
        s = rng.randint(2, 8)
        e = s + rng.randint(3, 12)
        d = dict(x_starts=[s], x_ends=[e], strand=rng.choice(["PLUS", "MINUS"]), frame=rng.choice(["ZERO", "ONE", "TWO"]))
        c0 = rng.randint(s, e - 1)
        d.update(c0=c0, c1=rng.randint(c0 + 1, e))
        if self.chunk:
            cs = rng.randint(0, e + 2)
            ce = cs + rng.randint(1, 10)
            d.update(chunk_start=cs, chunk_end=ce, chunk_seq="".join(rng.choice("ACGT") for _ in range(ce - cs)))
        return d

    def observe(self, r):
        return LocationApi.observe(self, r) if not isinstance(r, dict) else sorted(map(str, r))


def _mk_gene_cases():
    out = []
    props = _gene_props()
    for kind, meths in GENE_API.items():
        for m in meths:
            if props[(kind, m)] is None:
                continue
            for chunk in (False, True):
                out.append(GeneApi(kind, m, chunk))
    return out


GENE_CASES = _mk_gene_cases()
CASES = CASES + GENE_CASES
