"""C03 — Sequence slicing keeps the recorded location consistent with the characters kept; SingleInterval
extraction on the plus strand is the slice of the parent text (symbolic text of any length)."""
from pyvc.spec import *  # noqa
from pyvc.sources import NS
from .common import *  # noqa
from .lib import LIB  # noqa


def _chars_equal(a, b, n, k):
    """k-th character of a equals k-th of b (k symbolic, 0 <= k < n)."""
    ca = a.arr[k] if hasattr(a, "arr") else ord(a[k])
    cb = b.arr[k] if hasattr(b, "arr") else ord(b[k])
    return ca == cb


class SliceLocated(Case):
    """s[a:b] of a sequence that sits on its parent at a single interval: characters = data[a:b]; the recorded
    location is the parent location of relative [a,b), i.e. exactly the positions of the characters kept."""
    props = ("C03",)
    name = "Sequence.__getitem__[located on a single interval, slice a:b]"
    func = "sequence.sequence.Sequence.__getitem__"
    call = "s[a:b]"
    raises = {"ValueError": lambda i: Not(And(0 <= i.a, i.a <= i.b, i.b <= i.n))}
    ensures = {
        "length": lambda i, r: r._len == i.b - i.a,
        "k-th-character": lambda i, r: Implies(And(0 <= i.k, i.k < i.b - i.a),
                                               _char(r.sequence, i.k) == _char(i.text, i.a + i.k)),
        "recorded-location": lambda i, r: And(
            r.parent.location.start == If(is_plus(i.loc.strand), i.loc.start + i.a, i.loc.end - i.b),
            r.parent.location.end == If(is_plus(i.loc.strand), i.loc.start + i.b, i.loc.end - i.a),
            enum_eq(r.parent.location.strand, i.loc.strand) if hasattr(i.loc.strand, "idx")
            else r.parent.location.strand is i.loc.strand),
        "alphabet-and-type-kept": lambda i, r: And(r.alphabet is i.s.alphabet or _same(r.alphabet, i.s.alphabet)),
    }

    def inputs(self, S):
        loc = single(S, "loc", directed=True)
        text = S.symstr("text")
        S.assume(slen(text) == loc.end - loc.start)
        par = S.new(PARENT, location=loc)
        s = S.new(SEQUENCE, text, S.enum_const(ALPHABET, "NT_STRICT"), type="piece", parent=par,
                  validate_alphabet=False)
        return NS(s=s, loc=loc, text=text, n=slen(text), a=S.int("a"), b=S.int("b"), k=S.int("k"))

    def samples(self, rng):
        s0 = rng.randint(0, 6)
        n = rng.randint(1, 7)
        a = rng.randint(-1, n)
        return dict(loc_start=s0, loc_end=s0 + n, loc_strand=rng.choice(["PLUS", "MINUS"]),
                    text="".join(rng.choice("ACGT") for _ in range(n)), a=a, b=rng.randint(a, n + 1), k=0)

    def observe(self, r):
        from pyvc.check import default_observe as o
        loc = r.parent.location
        return [o(r._len), o(loc.start), o(loc.end)]


def _char(t, k):
    if hasattr(t, "arr"):
        import z3
        return z3.Select(t.arr, k)
    s = str(t)
    return ord(s[k]) if 0 <= k < len(s) else -1


def _same(a, b):
    return enum_eq(a, b) if hasattr(a, "idx") else a is b


COMP4 = {"A": "T", "C": "G", "G": "C", "T": "A"}  # specification (IUPAC complement restricted to ACGT)


def _comp_code(c):
    out = ord("A")
    for k, v in COMP4.items():
        out = If(c == ord(k), ord(v), out)
    return out


class ExtractSingle(Case):
    """SingleInterval.extract_sequence on a parent with symbolic text of ANY length: the i-th base is the parent base
    at the i-th mapped position, complemented on the minus strand (statement, verbatim)."""
    props = ("C03",)
    name = "SingleInterval.extract_sequence[symbolic parent text]"
    func = "location.location_impl.SingleInterval.extract_sequence"
    call = "(lambda s: (len(s), s))(loc.extract_sequence())"
    # an empty parent sequence is falsy (its truth value is its length): the documented NullSequenceException
    raises = {"NullSequenceException": lambda i: i.L == 0,
              "InvalidStrandException": lambda i: And(i.L > 0, is_unstranded(i.loc.strand))}
    ensures = {
        "length": lambda i, r: r[0] == i.loc.end - i.loc.start,
        "i-th-base-is-image-of-i-th-position": lambda i, r: Implies(
            And(0 <= i.k, i.k < r[0]),
            _char(r[1].sequence if hasattr(r[1], "attrs") else str(r[1]), i.k) == If(
                is_plus(i.loc.strand), _char(i.text, i.loc.start + i.k),
                _comp_code(_char(i.text, i.loc.end - 1 - i.k)))),
    }

    def inputs(self, S):
        par, L = parent_with_sequence(S)
        loc = single(S, "loc", par, L)
        seq = par.sequence
        text = seq.sequence if hasattr(seq, "attrs") else str(seq)
        return NS(loc=loc, text=text, k=S.int("k"), L=L)

    def samples(self, rng):
        s0 = rng.randint(0, 6)
        e0 = s0 + rng.randint(0, 6)
        return dict(loc_start=s0, loc_end=e0, loc_strand=rng.choice(["PLUS", "MINUS", "UNSTRANDED"]),
                    seq="".join(rng.choice("ACGT") for _ in range(e0 + rng.randint(0, 3))), k=rng.randint(0, 5))

    def observe(self, r):
        from pyvc.check import default_observe as o
        text = r[1].sequence if hasattr(r[1], "attrs") else str(r[1])
        return [o(r[0]), text if isinstance(text, str) else None]


CASES = [SliceLocated(), ExtractSingle()]
