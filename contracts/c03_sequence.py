"""C03 — Sequence slicing keeps the recorded location consistent with the characters kept; SingleInterval
extraction on the plus strand is the slice of the parent text (symbolic text of any length)."""
from pyvc.spec import *  # noqa
from pyvc.sources import NS
from .common import *  # noqa
from .lib import LIB  # noqa


def _chars_equal(a, b, n, k):
    """k-th character of a equals k-th of b (k symbolic, 0 <= k < n)."""
    ca = a.arr[k] if hasattr(a, "arr") else ord(a[k])
    cb = b.arr[k] if hasattr(b, "arr") else ord(b[k])
    return ca == cb


class SliceLocated(Case):
    """s[a:b] of a sequence that sits on its parent at a single interval: characters = data[a:b]; the recorded
    location is the parent location of relative [a,b), i.e. exactly the positions of the characters kept."""
    props = ("C03",)
    name = "Sequence.__getitem__[located on a single interval, slice a:b]"
    func = "sequence.sequence.Sequence.__getitem__"
    call = "s[a:b]"
    raises = {"ValueError": lambda i: Not(And(0 <= i.a, i.a <= i.b, i.b <= i.n))}
    ensures = {
        "length": lambda i, r: r._len == i.b - i.a,
        "k-th-character": lambda i, r: Implies(And(0 <= i.k, i.k < i.b - i.a),
                                               _char(r.sequence, i.k) == _char(i.text, i.a + i.k)),
        "recorded-location": lambda i, r: And(
            r.parent.location.start == If(is_plus(i.loc.strand), i.loc.start + i.a, i.loc.end - i.b),
            r.parent.location.end == If(is_plus(i.loc.strand), i.loc.start + i.b, i.loc.end - i.a),
            enum_eq(r.parent.location.strand, i.loc.strand) if hasattr(i.loc.strand, "idx")
            else r.parent.location.strand is i.loc.strand),
        "alphabet-and-type-kept": lambda i, r: And(r.alphabet is i.s.alphabet or _same(r.alphabet, i.s.alphabet)),
    }

    def inputs(self, S):
        loc = single(S, "loc", directed=True)
        text = S.symstr("text")
        S.assume(slen(text) == loc.end - loc.start)
        par = S.new(PARENT, location=loc)
        s = S.new(SEQUENCE, text, S.enum_const(ALPHABET, "NT_STRICT"), type="piece", parent=par,
                  validate_alphabet=False)
        return NS(s=s, loc=loc, text=text, n=slen(text), a=S.int("a"), b=S.int("b"), k=S.int("k"))

    def samples(self, rng):
        s0 = rng.randint(0, 6)
        n = rng.randint(1, 7)
        a = rng.randint(-1, n)
        return dict(loc_start=s0, loc_end=s0 + n, loc_strand=rng.choice(["PLUS", "MINUS"]),
                    text="".join(rng.choice("ACGT") for _ in range(n)), a=a, b=rng.randint(a, n + 1), k=0)

    def observe(self, r):
        from pyvc.check import default_observe as o
        loc = r.parent.location
        return [o(r._len), o(loc.start), o(loc.end)]


def _char(t, k):
    if hasattr(t, "arr"):
        import z3
        return z3.Select(t.arr, k)
    s = str(t)
    return ord(s[k]) if 0 <= k < len(s) else -1


def _same(a, b):
    return enum_eq(a, b) if hasattr(a, "idx") else a is b


COMP4 = {"A": "T", "C": "G", "G": "C", "T": "A"}  # specification (IUPAC complement restricted to ACGT)


def _comp_code(c):
    out = ord("A")
    for k, v in COMP4.items():
        out = If(c == ord(k), ord(v), out)
    return out


class ExtractSingle(Case):
    """SingleInterval.extract_sequence on a parent with symbolic text of ANY length: the i-th base is the parent base
    at the i-th mapped position, complemented on the minus strand (statement, verbatim)."""
    props = ("C03",)
    name = "SingleInterval.extract_sequence[symbolic parent text]"
    func = "location.location_impl.SingleInterval.extract_sequence"
    call = "(lambda s: (len(s), s))(loc.extract_sequence())"
    # an empty parent sequence is falsy (its truth value is its length): the documented NullSequenceException
    raises = {"NullSequenceException": lambda i: i.L == 0,
              "InvalidStrandException": lambda i: And(i.L > 0, is_unstranded(i.loc.strand))}
    ensures = {
        "length": lambda i, r: r[0] == i.loc.end - i.loc.start,
        "i-th-base-is-image-of-i-th-position": lambda i, r: Implies(
            And(0 <= i.k, i.k < r[0]),
            _char(r[1].sequence if hasattr(r[1], "attrs") else str(r[1]), i.k) == If(
                is_plus(i.loc.strand), _char(i.text, i.loc.start + i.k),
                _comp_code(_char(i.text, i.loc.end - 1 - i.k)))),
    }

    def inputs(self, S):
        par, L = parent_with_sequence(S)
        loc = single(S, "loc", par, L)
        seq = par.sequence
        text = seq.sequence if hasattr(seq, "attrs") else str(seq)
        return NS(loc=loc, text=text, k=S.int("k"), L=L)

    def samples(self, rng):
        s0 = rng.randint(0, 6)
        e0 = s0 + rng.randint(0, 6)
        return dict(loc_start=s0, loc_end=e0, loc_strand=rng.choice(["PLUS", "MINUS", "UNSTRANDED"]),
                    seq="".join(rng.choice("ACGT") for _ in range(e0 + rng.randint(0, 3))), k=rng.randint(0, 5))

    def observe(self, r):
        from pyvc.check import default_observe as o
        text = r[1].sequence if hasattr(r[1], "attrs") else str(r[1])
        return [o(r[0]), text if isinstance(text, str) else None]


class ExtractCompound(Case):
    """CompoundInterval.extract_sequence (blocks appended in strand order through Sequence.append) on a parent with
    symbolic text of ANY length, block count fixed: the i-th base is the parent base at the i-th mapped position of the
    point-wise map (C01), complemented on the minus strand."""
    props = ("C03",)
    func = "location.location_impl.CompoundInterval.extract_sequence"
    shard_depth = 3

    def __init__(self, n):
        self.n = n
        self.name = f"CompoundInterval.extract_sequence[{n} blocks, symbolic parent text]"
        self.call = "(lambda s: (len(s), s, s.parent.location if s.parent is not None else None))(loc.extract_sequence())"
        self.ensures = {
            "length": lambda i, r: r[0] == sum((e - s for s, e in zip(i.starts, i.ends)), 0),
            "i-th-base-is-image-of-i-th-position": lambda i, r: Implies(
                And(0 <= i.k, i.k < r[0]),
                _char(r[1].sequence if hasattr(r[1], "attrs") else str(r[1]), i.k) == (
                    _char(i.text, _pos(i, i.k)) if i.plus else _comp_code(_char(i.text, _pos(i, i.k))))),
        }

    def inputs(self, S):
        from .gene_common import block_lists, strand_of
        par, L = parent_with_sequence(S)
        starts, ends = block_lists(S, "loc", self.n)
        S.assume(ends[-1] <= L)
        strand = strand_of(S, "strand")
        loc = S.new(COMPOUND, starts, ends, strand, par)
        seq = par.sequence
        text = seq.sequence if hasattr(seq, "attrs") else str(seq)
        plus = (strand.members[strand.idx][0] if hasattr(strand, "members") else strand.name) == "PLUS"
        return NS(loc=loc, text=text, k=S.int("k"), q=S.int("q"), L=L, starts=starts, ends=ends, plus=plus)

    def samples(self, rng):
        from .gene_common import sample_blocks
        d = sample_blocks(rng, "loc", self.n)
        d.update(strand=rng.choice(["PLUS", "MINUS"]), k=rng.randint(0, 8), q=rng.randint(0, 20),
                 seq="".join(rng.choice("ACGT") for _ in range(d["loc_ends"][-1] + rng.randint(0, 3))))
        return d

    def observe(self, r):
        from pyvc.check import default_observe as o
        from .c02_single import obs_loc
        text = r[1].sequence if hasattr(r[1], "attrs") else str(r[1])
        return [o(r[0]), text if isinstance(text, str) else None, obs_loc(r[2])[:3] if r[2] is not None else None]


def _cov(loc, q):
    from .c02_single import covers_pos
    return covers_pos(loc, q)


def _pos(i, t):
    """parent position of relative position t (point-wise map of C01 written out for the fixed block count)."""
    n = len(i.starts)
    order = list(range(n)) if i.plus else list(range(n - 1, -1, -1))
    expr = -1
    pre = 0
    parts = []
    for k in order:
        ln = i.ends[k] - i.starts[k]
        parts.append((And(pre <= t, t < pre + ln), (i.starts[k] + (t - pre)) if i.plus else (i.ends[k] - 1 - (t - pre))))
        pre = pre + ln
    for cond, val in reversed(parts):
        expr = If(cond, val, expr)
    return expr


class SplicedOnChunk(Case):
    """FeatureInterval.get_spliced_sequence for a feature built on a sequence chunk (either strand) that contains it:
    the i-th base is the CHROMOSOME base at the i-th mapped position of the feature (complemented on the minus
    strand) - read from the chunk's text through the chunk offset / mirror, i.e. the same sequence the
    whole-chromosome feature has (C07: 'its sequences equal the corresponding stretch of the whole-chromosome
    sequences')."""
    props = ("C03", "C07", "C04")
    func = "gene.interval.AbstractFeatureInterval.get_spliced_sequence"
    module = "gene.feature"
    shard_depth = 3

    def __init__(self, n):
        self.n = n
        self.name = f"FeatureInterval.get_spliced_sequence[{n} blocks, on a sequence chunk of either strand]"
        self.call = "(lambda s: (len(s), s))(f.get_spliced_sequence())"
        self.ensures = {
            "length": lambda i, r: r[0] == sum((e - s for s, e in zip(i.starts, i.ends)), 0),
            "i-th-base-is-the-chromosome-base-at-the-i-th-position": lambda i, r: Implies(
                And(0 <= i.k, i.k < r[0]),
                _char(r[1].sequence if hasattr(r[1], "attrs") else str(r[1]), i.k) == _chrom_base(i, _pos(i, i.k))),
        }

    def inputs(self, S):
        from .gene_common import block_lists, strand_of, FEATURE
        from .c04_liftover import chunk_parent_stranded
        starts, ends = block_lists(S, "f", self.n)
        strand = strand_of(S, "strand")
        cp, cs, ce, minus = chunk_parent_stranded(S)
        S.assume(And(cs <= starts[0], ends[-1] <= ce))
        f = S.new(FEATURE, starts, ends, strand, parent_or_seq_chunk_parent=cp)
        plus = (strand.members[strand.idx][0] if hasattr(strand, "members") else strand.name) == "PLUS"
        return NS(f=f, text=S.symstr("chunk_seq"), k=S.int("k"), starts=starts, ends=ends, plus=plus, cs=cs, ce=ce,
                  minus=minus)

    def samples(self, rng):
        from .gene_common import sample_blocks
        d = sample_blocks(rng, "f", self.n, lo=2)
        cs = rng.randint(0, d["f_starts"][0])
        ce = d["f_ends"][-1] + rng.randint(0, 3)
        d.update(strand=rng.choice(["PLUS", "MINUS"]), k=rng.randint(0, 8), chunk_start=cs, chunk_end=ce,
                 chunk_strand=rng.choice(["PLUS", "MINUS"]), chunk_seq="".join(rng.choice("ACGT") for _ in range(ce - cs)))
        return d

    def observe(self, r):
        from pyvc.check import default_observe as o
        text = r[1].sequence if hasattr(r[1], "attrs") else str(r[1])
        return [o(r[0]), text if isinstance(text, str) else None]


def _chrom_base(i, p):
    """base of the feature's strand at chromosome position p, read from the chunk text: a PLUS chunk holds chromosome
    base p at index p-cs; a MINUS chunk holds its complement at index ce-1-p."""
    plus_strand_base = _comp_code(_char(i.text, i.ce - 1 - p)) if i.minus else _char(i.text, p - i.cs)
    return plus_strand_base if i.plus else _comp_code(plus_strand_base)


CASES = [SliceLocated(), ExtractSingle(), ExtractCompound(2), ExtractCompound(3), SplicedOnChunk(1), SplicedOnChunk(2)]
