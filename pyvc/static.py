"""Static back end for frame / purity / return-kind / order obligations (DESIGN 2.11).

Works on the real AST of /repo (same extraction as the symbolic executor).  For every function in scope it generates
named obligations and decides them by a conservative intraprocedural may-alias analysis:

  frame:<site>   a mutation site (attribute / subscript store outside construction, augmented assignment to them,
                 mutating container method) must target a value allocated in this call (FRESH), a declared memo slot
                 of ``self``, or ``self`` inside a constructor / construction-only method;
  kind           every return path of the function yields the same kind of value (Sequence vs str, int vs set ...);
  order:<site>   a value obtained by iterating a set (list(s)[0], s.pop(), next(iter(s))) must pass through
                 sorted / min / max first;
  identity:<site> objects that have value equality (Parent, Location, Sequence) must not be compared with ``is``
                 (the answer would depend on the state of the Parent cache).

Abstract values: FRESH (allocated here, members fresh or immutable), SHALLOW (fresh container whose members may be
shared: .copy(), dict(x), list(x), slices, comprehensions over shared members), SHARED (parameters, self, anything
reachable from them), IMMUT (numbers, strings, None, enum members, tuples thereof)."""
import ast

FRESH, SHALLOW, SHARED, IMMUT = "FRESH", "SHALLOW", "SHARED", "IMMUT"
MUTATORS = {"append", "extend", "insert", "pop", "remove", "clear", "sort", "reverse", "update", "add", "discard",
            "setdefault", "popitem", "__setitem__", "difference_update", "intersection_update"}
FRESH_CALLS = {"list", "dict", "set", "tuple", "sorted", "defaultdict", "Counter", "frozenset", "str", "int", "len",
               "zip", "enumerate", "range", "reversed", "min", "max", "sum", "any", "all", "abs", "bool", "repr"}
CTOR_ONLY = {"__init__", "__new__", "__setstate__", "_reset_parent", "_liftover_this_location_to_seq_chunk_parent",
             "_initialize_location", "_import_qualifiers_from_list", "__post_init__",
             "_associate_intervals_with_variant_intervals", "_build_position_interval_tree"}
MEMO_SLOTS = {"_sequence", "_single_interval_store", "_is_overlapping", "_strand_property", "_alternative_sequence",
              "_parent_with_alternative_sequence", "_alternative_genomic_sequence",
              # selects between two implementations of CDSInterval.extract_sequence that return the same Sequence
              # (kind obligation on extract_sequence + bounded clause 'cached-path-same-text')
              "_chunk_relative_codon_locations_cached"}
# the accessor that owns each memo slot: the slot caches THAT accessor's value, so only the accessor (and the
# constructors, which reset it) may write it.  A write anywhere else stores a value computed under other assumptions
# (e.g. _combine_blocks deciding is_overlapping) and makes later answers depend on the call history.
MEMO_OWNERS = {"_sequence": {"extract_sequence"}, "_single_interval_store": {"_single_intervals"},
               "_is_overlapping": {"is_overlapping"}, "_strand_property": {"strand"},
               "_alternative_sequence": {"alternative_genomic_sequence"},
               "_alternative_genomic_sequence": {"alternative_genomic_sequence"},
               "_parent_with_alternative_sequence": {"parent_with_alternative_sequence"},
               "_chunk_relative_codon_locations_cached": {"chunk_relative_codon_locations"}}
# accessors (besides the owner) that may READ a memo slot: CDSInterval.extract_sequence switches implementation on the
# codon-cache flag (both implementations are proved / bounded-checked to agree: C05, F-C10-2).  Any other read makes an
# answer depend on what was asked before.
MEMO_READERS = {"_chunk_relative_codon_locations_cached": {"extract_sequence"}}
VALUE_EQ_ATTRS = {"parent", "location", "sequence", "chromosome_location", "chunk_relative_location", "_location"}
SET_ATTRS_HINT = {"qualifiers", "feature_types", "variant_types", "identifiers", "children_guids"}


class Ob:
    def __init__(self, name, ok, detail=""):
        self.name, self.ok, self.detail = name, ok, detail

    def to_json(self):
        return dict(name=self.name, status="discharged" if self.ok else "refuted", detail=self.detail, paths=1,
                    seconds=0.0, prims=None, backend="static frame/kind/order analysis on the AST")


def _root(node):
    """root Name of an attribute / subscript / call-on-attribute chain, and whether a call is on the way."""
    through_call = False
    while True:
        if isinstance(node, ast.Attribute):
            node = node.value
        elif isinstance(node, ast.Subscript):
            node = node.value
        elif isinstance(node, ast.Call):
            through_call = True
            node = node.func
        else:
            break
    return (node.id if isinstance(node, ast.Name) else None), through_call


class FunctionAnalysis:
    def __init__(self, finfo, params_shared=True):
        self.f = finfo
        self.node = finfo.node
        self.env = {}
        args = self.node.args
        for a in args.posonlyargs + args.args + args.kwonlyargs:
            self.env[a.arg] = SHARED
        if args.vararg:
            self.env[args.vararg.arg] = SHARED
        if args.kwarg:
            self.env[args.kwarg.arg] = SHARED
        self.obligations = []
        self.site_counter = {}
        self.is_ctor = finfo.name in CTOR_ONLY
        self.set_vars = set()
        self.containers = set()  # local names known to hold list / dict / set objects
        self.elem = {}  # name -> abstract value of the container's members
        self.repo = None
        for a in args.posonlyargs + args.args + args.kwonlyargs:
            ann = ast.unparse(a.annotation) if a.annotation is not None else ""
            if any(t in ann for t in ("Dict", "List", "Set", "dict", "list", "set")):
                self.containers.add(a.arg)

    # ---- abstract value of an expression
    def val(self, e):
        if isinstance(e, ast.Constant):
            return IMMUT
        if isinstance(e, (ast.List, ast.Dict, ast.Set, ast.Tuple)):
            elts = e.elts if not isinstance(e, ast.Dict) else e.values
            vs = [self.val(x) for x in elts if x is not None]
            if any(v in (SHARED, SHALLOW) for v in vs):
                return SHALLOW
            return FRESH
        if isinstance(e, (ast.ListComp, ast.SetComp, ast.DictComp, ast.GeneratorExp)):
            elt = e.elt if not isinstance(e, ast.DictComp) else e.value
            sub = FunctionAnalysisScope(self, e)
            v = sub.val(elt)
            return FRESH if v in (FRESH, IMMUT) else SHALLOW
        if isinstance(e, ast.Name):
            return self.env.get(e.id, SHARED if e.id in ("self", "cls") else IMMUT if e.id in ("None", "True", "False")
                                else SHARED)
        if isinstance(e, ast.Attribute):
            base = self.val(e.value)
            return SHARED if base in (SHARED, SHALLOW) else base
        if isinstance(e, ast.Subscript):
            if isinstance(e.value, ast.Name) and e.value.id in self.elem and not isinstance(e.slice, ast.Slice):
                return self.elem[e.value.id]
            base = self.val(e.value)
            if isinstance(e.slice, ast.Slice):
                return SHALLOW if base in (SHARED, SHALLOW) else base
            return SHARED if base in (SHARED, SHALLOW) else base
        if isinstance(e, ast.Call):
            fn = e.func
            if isinstance(fn, ast.Name):
                if fn.id in FRESH_CALLS:
                    if fn.id in ("list", "dict", "set", "tuple", "frozenset", "sorted") and e.args:
                        inner = self.val(e.args[0])
                        return SHALLOW if inner in (SHARED, SHALLOW) else FRESH
                    return FRESH
                if fn.id[:1].isupper():
                    return FRESH  # constructor call
                return SHARED
            if isinstance(fn, ast.Attribute):
                if fn.attr in ("copy",):
                    return SHALLOW if self.val(fn.value) in (SHARED, SHALLOW) else FRESH
                if fn.attr in ("deepcopy",):
                    return FRESH
                if fn.attr in ("join", "format", "upper", "lower", "strip", "split", "replace", "encode", "hexdigest"):
                    return FRESH
                if fn.attr[:1].isupper() or fn.attr in ("from_dict", "from_location", "to_dict", "union", "intersection",
                                                       "difference"):
                    return FRESH
                if self.repo is not None and isinstance(fn.value, ast.Name) and fn.value.id == "self" \
                        and self.f.cls is not None:
                    callee = self.f.cls.find_method(self.repo, fn.attr)
                    if callee is not None and callee is not self.f:
                        return return_freshness(self.repo, callee)
                base = self.val(fn.value)
                return SHARED if base in (SHARED, SHALLOW) else FRESH
            return SHARED
        if isinstance(e, (ast.BinOp, ast.UnaryOp, ast.Compare, ast.BoolOp, ast.JoinedStr)):
            if isinstance(e, ast.BinOp):
                if isinstance(e.op, (ast.Sub, ast.Mult, ast.FloorDiv, ast.Mod, ast.Div, ast.Pow, ast.LShift, ast.RShift)):
                    return IMMUT
                if isinstance(e.op, ast.Add) and (isinstance(e.left, ast.Constant) or isinstance(e.right, ast.Constant)):
                    return IMMUT
                l, r = self.val(e.left), self.val(e.right)
                if SHARED in (l, r) or SHALLOW in (l, r):
                    # list + list, set | set build a new container with shared members; numbers are immutable anyway
                    return SHALLOW
                return FRESH
            if isinstance(e, ast.BoolOp):
                vs = [self.val(x) for x in e.values]
                return SHARED if SHARED in vs else SHALLOW if SHALLOW in vs else FRESH
            return IMMUT
        if isinstance(e, ast.IfExp):
            vs = [self.val(e.body), self.val(e.orelse)]
            return SHARED if SHARED in vs else SHALLOW if SHALLOW in vs else vs[0]
        if isinstance(e, ast.Lambda):
            return IMMUT
        return SHARED

    def site(self, kind, text):
        key = (kind, text)
        self.site_counter[key] = self.site_counter.get(key, 0) + 1
        n = self.site_counter[key]
        return f"{kind}:{text}" + (f"#{n}" if n > 1 else "")

    # ---- statements
    def run(self):
        self.block(self.node.body)
        self.kind_obligation()
        self.hash_obligation()
        self.memo_read_obligation()
        self.memo_input_obligation()
        self.stored_order_obligation()
        return self.obligations

    def stored_order_obligation(self):
        """a field may not store ``list(<set>)`` / ``tuple(<set>)``: the order of the stored sequence is the set's
        iteration order (hash-seed dependent for strings), and stored fields feed identifiers (digests), dictionaries
        and exported text."""
        for n in ast.walk(self.node):
            if not isinstance(n, ast.Assign):
                continue
            v = n.value
            if not (isinstance(v, ast.Call) and isinstance(v.func, ast.Name) and v.func.id in ("list", "tuple") and v.args):
                continue
            arg = v.args[0]
            is_set = self.is_set_expr(arg) or (
                isinstance(arg, ast.Call) and isinstance(arg.func, ast.Attribute) and isinstance(arg.func.value, ast.Name)
                and arg.func.value.id in ("set", "frozenset"))
            if not is_set:
                continue
            for t in n.targets:
                if isinstance(t, ast.Attribute) and isinstance(t.value, ast.Name) and t.value.id == "self":
                    self.obligations.append(Ob(self.site("order", f"self.{t.attr} = {ast.unparse(v)[:60]}"), False,
                                               "a field stores a set flattened in iteration order"))

    def _late_assigned(self):
        """field names X with an assignment ``<obj>.X = ...`` (also augmented) anywhere in the repository outside
        ``__init__`` / ``__new__`` / ``__setstate__`` / ``__post_init__`` - fields whose value can change after the
        constructor of the object has returned (e.g. ``_location``, re-parented in place by ``_reset_parent`` when the
        object is attached to a collection, or by the table writer)."""
        cache = getattr(self.repo, "_late_assigned_cache", None)
        if cache is not None:
            return cache
        out = {}
        for mod in self.repo.modules.values():
            for fn in ast.walk(mod.tree):
                if not isinstance(fn, (ast.FunctionDef, ast.AsyncFunctionDef)):
                    continue
                if fn.name in ("__init__", "__new__", "__setstate__", "__post_init__"):
                    continue
                for n in ast.walk(fn):
                    tg = []
                    if isinstance(n, ast.Assign):
                        tg = n.targets
                    elif isinstance(n, (ast.AugAssign, ast.AnnAssign)):
                        tg = [n.target]
                    for t in tg:
                        for a in ast.walk(t):
                            if isinstance(a, ast.Attribute) and isinstance(a.ctx, ast.Store):
                                out.setdefault(a.attr, set()).add(fn.name)
        self.repo._late_assigned_cache = out
        return out

    def memo_input_obligation(self):
        """A memoised accessor (lru_cache on a method / property: the cache key is the argument values, NOT the state
        of the object) may read only fields that never change after construction and memo slots it owns; reading a
        field that is re-assigned later (``_location`` is, in place, when an interval is attached to a collection)
        makes its answer depend on whether it was asked before the re-assignment."""
        if self.f.cls is None or self.repo is None or self.is_ctor:
            return
        decos = [ast.unparse(d) for d in getattr(self.node, "decorator_list", [])]
        if not any("lru_cache" in d or "cached_property" in d for d in decos):
            return
        late = self._late_assigned()
        reads = self._fields_read(self.f)
        bad = sorted(x for x in reads if x in late and x not in MEMO_SLOTS)
        self.obligations.append(Ob("frame:memoised-accessor-reads-only-construction-time-fields", not bad,
                                   f"memoised, but reads {bad} which {sorted(set().union(*[late[x] for x in bad]))} "
                                   "re-assign after construction: the cached answer goes stale" if bad else ""))

    def memo_read_obligation(self):
        """no accessor other than the owner (and the declared readers) may look at a memo slot: a value that depends on
        whether a cache has been filled depends on the call history."""
        if self.is_ctor:
            return
        for n in ast.walk(self.node):
            if isinstance(n, ast.Attribute) and isinstance(n.ctx, ast.Load) and n.attr in MEMO_SLOTS \
                    and isinstance(n.value, ast.Name) and n.value.id == "self":
                allowed = set(MEMO_OWNERS.get(n.attr, ())) | set(MEMO_READERS.get(n.attr, ()))
                if self.f.name not in allowed:
                    self.obligations.append(Ob(self.site("frame", f"reads-memo-state self.{n.attr}"), False,
                                               f"memo slot {n.attr} read outside its owning accessor {sorted(allowed)}: "
                                               "the answer depends on the state of a cache"))

    def _fields_read(self, f, seen=None):
        """names X of ``self.X`` loads in method f, following calls ``self.m(...)`` to methods of the class."""
        seen = seen if seen is not None else set()
        if f is None or f.qualname in seen:
            return set()
        seen.add(f.qualname)
        out = set()
        cls = f.cls
        for n in ast.walk(f.node):
            if isinstance(n, ast.Attribute) and isinstance(n.value, ast.Name) and n.value.id == "self" \
                    and isinstance(n.ctx, ast.Load):
                m = cls.find_method(self.repo, n.attr) if (cls is not None and self.repo is not None) else None
                if m is not None and not m.is_property:
                    out |= self._fields_read(m, seen)
                elif m is not None and m.is_property:
                    out |= self._fields_read(m, seen) or {n.attr}
                else:
                    out.add(n.attr)
        return out

    def hash_obligation(self):
        """Memo-key obligation (justifies A5 for the class-level lru_cache on Parent and the per-object caches keyed
        by argument values): ``__hash__`` must take into account every field ``__eq__`` compares.  Parent.__eq__ is
        deliberately lenient (a missing ancestor compares equal), so a hash that ignores a compared field makes the
        memoised constructor hand back an object built for DIFFERENT arguments - answers then depend on which
        look-alike was built first."""
        if self.f.name != "__hash__" or self.f.cls is None or self.repo is None:
            return
        eq = self.f.cls.find_method(self.repo, "__eq__")
        if eq is None:
            return
        # only for classes memoised as a whole (``@lru_cache`` on the class: Parent): their instances are the keys
        decos = [ast.unparse(d) for d in getattr(self.f.cls.node, "decorator_list", [])]
        if not any("lru_cache" in d for d in decos):
            return
        hashed = self._fields_read(self.f)
        compared = self._fields_read(eq)
        # guid-style digests stand for the fields they were computed from
        if hashed & {"guid", "_guid"}:
            return
        missing = sorted(compared - hashed)
        self.obligations.append(Ob("identity:hash-covers-every-field-eq-compares", not missing,
                                   f"__eq__ compares {missing} but __hash__ ignores them (memo keys conflate objects)"
                                   if missing else ""))

    def block(self, stmts):
        for s in stmts:
            self.stmt(s)

    def assign(self, target, value_abs, value_node=None):
        if isinstance(target, ast.Name):
            self.env[target.id] = value_abs
            if value_node is not None and self.is_set_expr(value_node):
                self.set_vars.add(target.id)
            if value_node is not None:
                if self.is_container_expr(value_node):
                    self.containers.add(target.id)
                else:
                    self.containers.discard(target.id)
                self.elem.pop(target.id, None)
                if isinstance(value_node, ast.ListComp):
                    sub = FunctionAnalysisScope(self, value_node)
                    self.elem[target.id] = sub.val(value_node.elt)
                elif isinstance(value_node, ast.DictComp):
                    sub = FunctionAnalysisScope(self, value_node)
                    self.elem[target.id] = sub.val(value_node.value)
                elif isinstance(value_node, ast.Call) and isinstance(value_node.func, ast.Attribute) \
                        and isinstance(value_node.func.value, ast.Name) and value_node.func.value.id == "self" \
                        and self.repo is not None and self.f.cls is not None:
                    callee = self.f.cls.find_method(self.repo, value_node.func.attr)
                    if callee is not None and callee is not self.f:
                        return_freshness(self.repo, callee)
                        ev = _RF_ELEM.get(callee.qualname)
                        if ev is not None:
                            self.elem[target.id] = ev
                elif isinstance(value_node, ast.List) and value_node.elts:
                    vs = [self.val(x) for x in value_node.elts]
                    self.elem[target.id] = SHARED if SHARED in vs else SHALLOW if SHALLOW in vs else FRESH
        elif isinstance(target, (ast.Tuple, ast.List)):
            for t in target.elts:
                self.assign(t, SHARED if value_abs in (SHARED, SHALLOW) else value_abs)
        elif isinstance(target, (ast.Attribute, ast.Subscript)):
            self.mutation(target, "store")

    def is_container_expr(self, e):
        if isinstance(e, (ast.List, ast.Dict, ast.Set, ast.ListComp, ast.DictComp, ast.SetComp)):
            return True
        if isinstance(e, ast.Call):
            if isinstance(e.func, ast.Name) and e.func.id in ("list", "dict", "set", "sorted", "defaultdict", "frozenset"):
                return True
            if isinstance(e.func, ast.Attribute) and e.func.attr in ("copy", "_merge_qualifiers", "export_qualifiers",
                                                                     "_export_qualifiers_to_list", "to_dict"):
                return True
            return False
        if isinstance(e, ast.Attribute):
            return e.attr in ("qualifiers", "feature_types", "variant_types", "transcripts", "feature_intervals",
                              "variant_intervals", "genes", "feature_collections", "variant_collections", "blocks",
                              "children", "frames", "_genomic_starts", "_genomic_ends", "guid_map", "attributes",
                              "_single_intervals", "chunk_relative_blocks", "relative_blocks")
        if isinstance(e, ast.Subscript):
            return self.is_container_expr(e.value) and not isinstance(e.slice, ast.Slice) or \
                (isinstance(e.slice, ast.Slice) and self.is_container_expr(e.value))
        if isinstance(e, ast.Name):
            return e.id in self.containers
        if isinstance(e, ast.BinOp) and isinstance(e.op, ast.Add):
            return self.is_container_expr(e.left) or self.is_container_expr(e.right)
        return False

    def mutation(self, target, how):
        """target: Attribute / Subscript being written, or the receiver expression of a mutating method."""
        recv = target.value if how in ("store", "del") else target
        if how == "call" and not self.is_container_expr(recv):
            return  # a method that merely shares its name with a container mutator (Sequence.append, Strand.reverse)
        text = ast.unparse(target if how in ("store", "del") else target)
        root, _ = _root(recv)
        v = self.val(recv)
        ok = False
        reason = ""
        if (how == "store" and isinstance(target, ast.Attribute) and target.attr in MEMO_SLOTS and root != "self"):
            # a memo slot of ANOTHER object (typically one just built from self) seeded with a value computed for
            # self: the new object's accessor then answers from a cache filled under other assumptions (strand,
            # parent, coordinates), i.e. its answers depend on what had been asked of the source object before
            ok = False
            reason = (f"memo slot {target.attr} of another object written outside its owning accessor "
                      f"{sorted(MEMO_OWNERS.get(target.attr, ()))}")
        elif v in (FRESH, IMMUT):
            ok = True
        elif root == "self" and self.is_ctor:
            ok = True
        elif root == "self" and isinstance(target, ast.Attribute) and how == "store" and isinstance(target.value, ast.Name) \
                and target.attr in MEMO_SLOTS:
            ok = self.f.name in MEMO_OWNERS.get(target.attr, ())
            if not ok:
                reason = (f"memo slot {target.attr} written outside its owning accessor "
                          f"{sorted(MEMO_OWNERS.get(target.attr, ()))}")
        elif v == SHALLOW and how in ("store", "del") and isinstance(target, ast.Subscript):
            ok = True  # storing a key into a fresh (shallow) container touches only the fresh container
        elif v == SHALLOW and how == "call":
            ok = True  # mutating the fresh container itself (not one of its shared members)
        else:
            reason = f"target is {v} (root '{root}')"
        self.obligations.append(Ob(self.site("frame", text + ("." + how if how != "store" else "")), ok, reason))

    def stmt(self, s):
        if isinstance(s, ast.Assign):
            self.scan_expr(s.value)
            v = self.val(s.value)
            for t in s.targets:
                self.assign(t, v, s.value)
        elif isinstance(s, ast.AnnAssign):
            if s.value is not None:
                self.scan_expr(s.value)
                self.assign(s.target, self.val(s.value), s.value)
        elif isinstance(s, ast.AugAssign):
            self.scan_expr(s.value)
            if isinstance(s.target, ast.Name):
                cur = self.env.get(s.target.id, SHARED)
                # x += [..] on a list mutates the list object x refers to
                if cur == SHARED and s.target.id in self.containers:
                    if not isinstance(s.value, ast.Constant):
                        self.obligations.append(Ob(self.site("frame", s.target.id + " " + type(s.op).__name__ + "="),
                                                   False, f"augmented assignment to {cur} value"))
            else:
                self.mutation(s.target, "store")
        elif isinstance(s, ast.Expr):
            self.scan_expr(s.value)
        elif isinstance(s, ast.Return):
            if s.value is not None:
                self.scan_expr(s.value)
        elif isinstance(s, ast.If):
            self.scan_expr(s.test)
            env0 = dict(self.env)
            self.block(s.body)
            env1 = self.env
            self.env = dict(env0)
            self.block(s.orelse)
            self.env = self.join(env1, self.env)
        elif isinstance(s, (ast.For, ast.While)):
            if isinstance(s, ast.For):
                self.scan_expr(s.iter)
                itv = self.val(s.iter)
                self.assign(s.target, SHARED if itv in (SHARED, SHALLOW) else itv)
            else:
                self.scan_expr(s.test)
            for _ in range(2):  # two passes reach the fixpoint of this small lattice
                self.block(s.body)
            self.block(s.orelse)
        elif isinstance(s, ast.Try):
            self.block(s.body)
            for h in s.handlers:
                self.block(h.body)
            self.block(s.orelse)
            self.block(s.finalbody)
        elif isinstance(s, ast.With):
            self.block(s.body)
        elif isinstance(s, ast.Delete):
            for t in s.targets:
                if isinstance(t, (ast.Attribute, ast.Subscript)):
                    self.mutation(t, "del")
        elif isinstance(s, ast.Raise):
            pass
        elif isinstance(s, (ast.FunctionDef, ast.ClassDef)):
            pass
        elif isinstance(s, ast.Assert):
            self.scan_expr(s.test)

    def numeric_name(self, name):
        return self.env.get(name) in (IMMUT, FRESH)

    def join(self, a, b):
        out = {}
        rank = {IMMUT: 0, FRESH: 1, SHALLOW: 2, SHARED: 3}
        for k in set(a) | set(b):
            va, vb = a.get(k, SHARED), b.get(k, SHARED)
            out[k] = va if rank[va] >= rank[vb] else vb
        return out

    def is_set_expr(self, e):
        if isinstance(e, (ast.Set, ast.SetComp)):
            return True
        if isinstance(e, ast.Call) and isinstance(e.func, ast.Name) and e.func.id in ("set", "frozenset"):
            return True
        if isinstance(e, ast.Subscript) and isinstance(e.value, ast.Attribute) and e.value.attr == "qualifiers":
            return True
        if isinstance(e, ast.Attribute) and e.attr in ("feature_types", "variant_types", "children_guids", "identifiers"):
            return True
        if isinstance(e, ast.Name) and e.id in self.set_vars:
            return True
        return False

    def scan_expr(self, e):
        for n in ast.walk(e):
            if isinstance(n, ast.Call) and isinstance(n.func, ast.Attribute) and n.func.attr in MUTATORS:
                recv = n.func.value
                # str / number methods named like mutators do not exist; pop/update on dict-like receivers do
                if n.func.attr == "pop" and self.is_set_expr(recv):
                    self.obligations.append(Ob(self.site("order", ast.unparse(n)), False,
                                               "set.pop() returns an arbitrary member"))
                self.mutation(recv, "call")
            # order: list(<set>)[0] / next(iter(<set>))
            if isinstance(n, ast.Subscript) and isinstance(n.value, ast.Call) and isinstance(n.value.func, ast.Name) \
                    and n.value.func.id in ("list", "tuple") and n.value.args and self.is_set_expr(n.value.args[0]) \
                    and not isinstance(n.slice, ast.Slice):
                self.obligations.append(Ob(self.site("order", ast.unparse(n)), False,
                                           "element picked from a set by iteration order"))
            if isinstance(n, ast.Call) and isinstance(n.func, ast.Name) and n.func.id == "next" and n.args \
                    and isinstance(n.args[0], ast.Call) and isinstance(n.args[0].func, ast.Name) \
                    and n.args[0].func.id == "iter" and n.args[0].args and self.is_set_expr(n.args[0].args[0]):
                self.obligations.append(Ob(self.site("order", ast.unparse(n)), False,
                                           "first element of a set by iteration order"))
            # identity comparison of value-equal objects
            if isinstance(n, ast.Compare) and any(isinstance(o, (ast.Is, ast.IsNot)) for o in n.ops):
                operands = [n.left] + list(n.comparators)
                if all(isinstance(o, ast.Attribute) and o.attr in VALUE_EQ_ATTRS for o in operands):
                    self.obligations.append(Ob(self.site("identity", ast.unparse(n)), False,
                                               "objects with value equality compared by identity"))

    # ---- return kinds
    def kind_of(self, e):
        if e is None or (isinstance(e, ast.Constant) and e.value is None):
            return None
        if isinstance(e, ast.Constant):
            return type(e.value).__name__
        if isinstance(e, (ast.JoinedStr,)):
            return "str"
        if isinstance(e, ast.Call):
            fn = e.func
            if isinstance(fn, ast.Name):
                if fn.id == "Sequence":
                    return "Sequence"
                if fn.id in ("str",):
                    return "str"
                if fn.id in ("set", "frozenset"):
                    return "set"
                if fn.id in ("len", "int", "sum", "abs"):
                    return "int"
            if isinstance(fn, ast.Attribute) and fn.attr == "join":
                return "str"
            if isinstance(fn, ast.Attribute) and fn.attr in ("extract_sequence", "reverse_complement", "append"):
                return "Sequence"
            return "?"
        if isinstance(e, ast.Name):
            return self.kinds.get(e.id, "?")
        if isinstance(e, (ast.Set, ast.SetComp)):
            return "set"
        if isinstance(e, ast.BinOp) and isinstance(e.op, (ast.Add, ast.Sub, ast.Mult, ast.FloorDiv, ast.Mod)):
            l, r = self.kind_of(e.left), self.kind_of(e.right)
            if "int" in (l, r) and "str" not in (l, r):
                return "int"
            return "?"
        return "?"

    def kind_obligation(self):
        self.kinds = {}
        kinds = []

        def visit(stmts):
            for s in stmts:
                if isinstance(s, ast.Assign) and len(s.targets) == 1 and isinstance(s.targets[0], ast.Name):
                    self.kinds[s.targets[0].id] = self.kind_of(s.value)
                elif isinstance(s, ast.Return):
                    kinds.append((self.kind_of(s.value), s.lineno))
                elif isinstance(s, ast.If):
                    visit(s.body)
                    visit(s.orelse)
                elif isinstance(s, (ast.For, ast.While)):
                    visit(s.body)
                    visit(s.orelse)
                elif isinstance(s, ast.Try):
                    visit(s.body)
                    for h in s.handlers:
                        visit(h.body)
                    visit(s.orelse)
                    visit(s.finalbody)
                elif isinstance(s, ast.With):
                    visit(s.body)

        visit(self.node.body)
        # a memoised GENERATOR hands the same, already consumed iterator to every later caller: the first call's
        # answer differs from all following ones (value depends on the call history)
        decos = [ast.unparse(d) for d in self.node.decorator_list]
        if any("lru_cache" in d or d.endswith("cache") or "cached_property" in d for d in decos):
            is_gen = any(isinstance(n, (ast.Yield, ast.YieldFrom)) for n in ast.walk(self.node))
            self.obligations.append(Ob("kind:memoised-value-is-not-a-one-shot-iterator", not is_gen,
                                       "lru_cache on a generator: later calls get an exhausted iterator" if is_gen else ""))
        # escape obligation (checked only where a contract asks for kind 'escape'): a method declared to return a
        # container must hand out a container of its own (fresh, or a fresh shell around shared members), never a
        # reference to state kept by the class / object - a caller editing its result would otherwise rewrite the
        # library's table for every later caller
        ann = ast.unparse(self.node.returns) if self.node.returns is not None else ""
        if any(t in ann for t in ("List", "Set", "Dict", "list", "set", "dict")):
            bad = []
            for n in ast.walk(self.node):
                if isinstance(n, ast.Return) and n.value is not None and self.val(n.value) == SHARED:
                    bad.append(n.lineno)
            self.obligations.append(Ob("escape:returned-container-is-not-internal-state", not bad,
                                       f"returns a reference to shared state at line(s) {bad}" if bad else ""))
        known = {k for k, _ in kinds if k not in (None, "?")}
        ok = len(known) <= 1
        self.obligations.append(Ob("kind", ok, "" if ok else f"return kinds differ: {sorted(known)}"))


class FunctionAnalysisScope:
    """abstract values inside a comprehension: the iteration variables take the value of what they iterate."""

    def __init__(self, outer, comp):
        self.outer = outer
        self.saved = dict(outer.env)
        for g in comp.generators:
            itv = outer.val(g.iter)
            tgt = g.target
            names = [n.id for n in ast.walk(tgt) if isinstance(n, ast.Name)]
            for nm in names:
                outer.env[nm] = SHARED if itv in (SHARED, SHALLOW) else itv

    def val(self, e):
        v = self.outer.val(e)
        self.outer.env = self.saved
        return v


_RF_CACHE = {}
_RF_ELEM = {}  # qualname -> abstract value of the members of the returned container (when it is a tracked local)


def return_freshness(repo, finfo, _depth=0):
    """abstract value of what a repo function returns (join over its return statements), one level deep."""
    key = finfo.qualname
    if key in _RF_CACHE:
        return _RF_CACHE[key]
    _RF_CACHE[key] = SHARED  # recursion guard
    fa = FunctionAnalysis(finfo)
    fa.repo = repo if _depth < 2 else None
    saved = fa.obligations
    rank = {IMMUT: 0, FRESH: 1, SHALLOW: 2, SHARED: 3}
    result = [IMMUT]

    class V(ast.NodeVisitor):
        pass

    # run the statements to populate the environment, then evaluate the returns in that environment
    def walk(stmts):
        for st in stmts:
            if isinstance(st, ast.Return):
                if st.value is not None:
                    result.append(fa.val(st.value))
                    note_elem(st.value)
            else:
                fa.stmt(st)
                for fld in ("body", "orelse", "finalbody"):
                    pass
            if isinstance(st, (ast.If, ast.For, ast.While, ast.Try, ast.With)):
                for fld in ("body", "orelse", "finalbody"):
                    sub = getattr(st, fld, None)
                    if sub:
                        walk_returns(sub)
                for h in getattr(st, "handlers", []):
                    walk_returns(h.body)

    def note_elem(expr):
        if isinstance(expr, ast.Name) and expr.id in fa.elem:
            prev = _RF_ELEM.get(key)
            cur = fa.elem[expr.id]
            _RF_ELEM[key] = cur if prev is None or rank[cur] >= rank[prev] else prev
        else:
            _RF_ELEM[key] = SHARED

    def walk_returns(stmts):
        for st in stmts:
            if isinstance(st, ast.Return) and st.value is not None:
                result.append(fa.val(st.value))
                note_elem(st.value)
            for fld in ("body", "orelse", "finalbody"):
                sub = getattr(st, fld, None)
                if sub:
                    walk_returns(sub)
            for h in getattr(st, "handlers", []):
                walk_returns(h.body)

    walk(finfo.node.body)
    out = max(result, key=lambda v: rank[v])
    if finfo.is_generator:
        out = SHARED
    _RF_CACHE[key] = out
    return out


def analyse(repo, targets):
    """targets: list of qualified function names.  Returns {qualname: [Ob]}."""
    out = {}
    _RF_CACHE.clear()
    _RF_ELEM.clear()
    for q in targets:
        f = repo.find(q)
        fa = FunctionAnalysis(f)
        fa.repo = repo
        out[q] = fa.run()
    return out


def public_methods(repo, class_quals, include_private=()):
    out = []
    for cq in class_quals:
        c = repo.find(cq)
        for name, f in c.methods.items():
            if name.startswith("__") and name not in ("__getitem__", "__eq__", "__hash__", "__len__", "__iter__",
                                                      "__str__", "__repr__", "__lt__", "__contains__"):
                continue
            out.append(cq + "." + name)
    return out
