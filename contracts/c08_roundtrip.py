"""C08 — dictionary export / import round trip (field mapping, parent passed through) and identifiers as functions of
content.  Symbolic: from_dict(to_dict(x)) of the real classes with symbolic coordinates rebuilds every constructor
argument.  BOUNDED: dict / pickle round trips and identifier stability over generated objects under a sweep of
PYTHONHASHSEED values (separate interpreter per seed) and qualifier insertion orders."""
import itertools

from pyvc.spec import *  # noqa
from pyvc.sources import NS
from .common import *  # noqa
from .gene_common import *  # noqa
from .c04_liftover import chunk_parent
from .lib import LIB  # noqa

VAR = "gene.variants.VariantInterval"


def _same_enum(a, b):
    return enum_eq(a, b) if hasattr(a, "idx") else a is b


def _lists_equal(a, b):
    a, b = list(a), list(b)
    return And(len(a) == len(b), *[x == y for x, y in zip(a, b)])


class TranscriptRoundTrip(Case):
    props = ("C08",)
    func = TRANSCRIPT + ".from_dict"

    def __init__(self, n, parent):
        self.n, self.parent = n, parent
        self.name = f"TranscriptInterval.from_dict(to_dict(x))[{n} exons, {'chunk parent' if parent else 'no parent'}]"
        self.call = "TranscriptInterval.from_dict(tx.to_dict(), par)"
        self.module = "gene.transcript"
        self.ensures = {
            "coordinates": lambda i, r: And(_lists_equal(r._genomic_starts, i.starts),
                                            _lists_equal(r._genomic_ends, i.ends)),
            "strand": lambda i, r: _same_enum(r._strand, i.strand),
            "cds": lambda i, r: And(_lists_equal(r.cds._genomic_starts, i.cs), _lists_equal(r.cds._genomic_ends, i.ce),
                                    all(_same_enum(a, b) for a, b in zip(r.cds.frames, i.tx.cds.frames))),
            "identifiers-and-flags": lambda i, r: And(r.transcript_id == "t1", r.transcript_symbol == "sym",
                                                      r.protein_id == "p1", r.product == "prod",
                                                      r.sequence_name == "chr1", r._is_primary_feature is True),
            "same-guid": lambda i, r: r.guid is i.tx.guid,
            "qualifiers": lambda i, r: _quals(r) == [("k", ["a", "b"]), ("z", ["1"])],
            "parent-passed-through": lambda i, r: r._parent_or_seq_chunk_parent is i.par,
            "type": lambda i, r: _same_enum(r.transcript_type, i.tx.transcript_type),
        }

    def inputs(self, S):
        n = self.n
        starts, ends = block_lists(S, "tx", n)
        strand = strand_of(S, "strand")
        cs, ce, c0, c1 = cds_in_exons(S, starts, ends)
        par = None
        if self.parent:
            par, ps, pe = chunk_parent(S)
            S.assume(And(ps <= starts[0], ends[-1] <= pe))
        zero = S.enum_const(FRAME, "ZERO")
        if S.mode == "native":
            from inscripta.biocantor.gene.biotype import Biotype
            bt = Biotype["protein_coding"]
        else:
            mod = S.e.repo.module("gene.biotype")
            B = S.e.global_value(S.e.repo.resolve_global(mod, "Biotype"), mod)
            bt = S.e.getattr(B, "protein_coding")
        tx = S.new(TRANSCRIPT, starts, ends, strand, cds_starts=cs, cds_ends=ce, cds_frames=[zero] * n,
                   qualifiers={"z": ["1"], "k": ["b", "a"]}, is_primary_tx=True, transcript_id="t1",
                   transcript_symbol="sym", transcript_type=bt, sequence_name="chr1", protein_id="p1", product="prod",
                   parent_or_seq_chunk_parent=par)
        return NS(tx=tx, par=par, starts=starts, ends=ends, cs=cs, ce=ce, strand=strand,
                  TranscriptInterval=S.cls(TRANSCRIPT))

    def samples(self, rng):
        d = sample_blocks(rng, "tx", self.n, lo=2)
        d["strand"] = rng.choice(["PLUS", "MINUS"])
        sample_cds(rng, d)
        if self.parent:
            cs = rng.randint(0, d["tx_starts"][0])
            ce = d["tx_ends"][-1] + rng.randint(0, 3)
            d.update(chunk_start=cs, chunk_end=ce, chunk_seq="".join(rng.choice("ACGT") for _ in range(ce - cs)))
        return d

    def observe(self, r):
        from pyvc.check import default_observe as o
        return [[o(x) for x in r._genomic_starts], [o(x) for x in r._genomic_ends], _quals(r)]


def _quals(r):
    q = r.qualifiers
    out = []
    for k in sorted(q):
        v = q[k]
        items = v.items if hasattr(v, "ranges") else v
        out.append((k, sorted(items)))
    return out


class VariantRoundTrip(Case):
    props = ("C08",)
    name = "VariantInterval.from_dict(to_dict(x), parent)"
    func = VAR + ".from_dict"
    module = "gene.variants"
    call = "VariantInterval.from_dict(v.to_dict(), par)"
    ensures = {
        "fields": lambda i, r: And(r.start == i.vs, r.end == i.ve, r.variant_type == "ins", r.variant_name == "vn",
                                   r.variant_id == "vi", r.phase_block == 3),
        "same-guid": lambda i, r: r.guid is i.v.guid,
        "parent-passed-through": lambda i, r: r._parent_or_seq_chunk_parent is i.par,
        "alt-sequence": lambda i, r: str(r.sequence) == "ACG" if not hasattr(r, "attrs") else r.sequence.sequence == "ACG",
    }

    def inputs(self, S):
        vs, ve = S.int("vs"), S.int("ve")
        S.assume(And(0 <= vs, vs < ve))
        par, ps, pe = chunk_parent(S)
        S.assume(And(ps <= vs, ve <= pe))
        v = S.new(VAR, vs, ve, "ACG", "ins", 3, variant_name="vn", variant_id="vi", parent_or_seq_chunk_parent=par)
        return NS(v=v, par=par, vs=vs, ve=ve, VariantInterval=S.cls(VAR))

    def samples(self, rng):
        vs = rng.randint(2, 8)
        ve = vs + rng.randint(1, 3)
        cs = rng.randint(0, vs)
        ce = ve + rng.randint(0, 3)
        return dict(vs=vs, ve=ve, chunk_start=cs, chunk_end=ce, chunk_seq="".join(rng.choice("ACGT") for _ in range(ce - cs)))

    def observe(self, r):
        from pyvc.check import default_observe as o
        return [o(r.start), o(r.end), r._parent_or_seq_chunk_parent is None]


# ---- bounded: native round trips under a hash-seed sweep ----------------------------------------------------------
class NativeRoundTrips(Case):
    props = ("C08",)
    proved = False
    name = "bounded: dict / pickle round trips and identifier stability under PYTHONHASHSEED sweep"
    func = "util.hashing.digest_object"
    scope = "one collection per spec (3 specs from the C09 tier) x 6 qualifier sets (incl. values differing only by " \
            "case, an empty value list, and 3 insertion orders) x whole chromosome / chunk / no sequence; every class's " \
            "from_dict(to_dict(x)); pickle of the collection; run under PYTHONHASHSEED 0, 1, 7 and compared"
    hashseeds = (0, 1, 7)
    call = "_probe(col)"
    ensures = {
        "members-round-trip-equal": lambda i, r: r["members_equal"],
        "same-guids-after-round-trip": lambda i, r: r["guids_equal"],
        "pickle-round-trip": lambda i, r: r["pickle_equal"],
        "qualifiers-survive": lambda i, r: r["qualifiers_equal"],
        "identifier-changes-with-content": lambda i, r: r["content_sensitive"],
    }

    def inputs(self, S):
        import pickle
        from .bounded_collections import build_collection, SPECS
        from inscripta.biocantor.gene import (AnnotationCollection, GeneInterval, TranscriptInterval, FeatureInterval,
                                              FeatureIntervalCollection)
        spec = SPECS[S.const("spec")]
        mode = S.const("mode")
        chunk = (1, 40) if mode == "chunk" else None
        quals = dict(S.const("quals"))
        col = build_collection(spec, with_seq=(mode != "none"), chunk=chunk)
        # re-build with the qualifier set on every transcript / feature
        genes, fcs = [], []
        parent = col._parent_or_seq_chunk_parent
        for g in col.genes:
            txs = []
            for t in g.transcripts:
                d = t.to_dict()
                d["qualifiers"] = {k: list(v) for k, v in quals.items()}
                d["transcript_interval_guid"] = None
                txs.append(TranscriptInterval.from_dict(d, parent))
            genes.append(GeneInterval(txs, gene_id=g.gene_id, sequence_name="chr1", qualifiers=quals,
                                      parent_or_seq_chunk_parent=parent))
        for f in col.feature_collections:
            feats = []
            for x in f.feature_intervals:
                d = x.to_dict()
                d["qualifiers"] = {k: list(v) for k, v in quals.items()}
                d["feature_interval_guid"] = None
                feats.append(FeatureInterval.from_dict(d, parent))
            fcs.append(FeatureIntervalCollection(feats, feature_collection_id=f.feature_collection_id,
                                                 sequence_name="chr1", parent_or_seq_chunk_parent=parent))
        col2 = AnnotationCollection(genes=genes, feature_collections=fcs, sequence_name="chr1",
                                    parent_or_seq_chunk_parent=parent)

        def _probe(col):
            out = {}
            members_equal = True
            guids_equal = True
            quals_equal = True
            for m in col.iter_children():
                cls = type(m)
                m2 = cls.from_dict(m.to_dict(), parent)
                members_equal &= (m2.to_dict() == m.to_dict())
                guids_equal &= (str(m2.guid) == str(m.guid))
                for c, c2 in zip(m.iter_children(), m2.iter_children()):
                    c3 = type(c).from_dict(c.to_dict(), parent)
                    members_equal &= (c3 == c) and (c2.to_dict() == c.to_dict())
                    guids_equal &= str(c3.guid) == str(c.guid) == str(c2.guid)
                    quals_equal &= ({k: sorted(v) for k, v in c3.qualifiers.items()} ==
                                    {k: sorted(set(str(x) for x in v)) for k, v in quals.items()})
            p = pickle.loads(pickle.dumps(col))
            out["pickle_equal"] = (p.to_dict() == col.to_dict()) and str(p.guid) == str(col.guid)
            out["members_equal"] = bool(members_equal)
            out["guids_equal"] = bool(guids_equal)
            out["qualifiers_equal"] = bool(quals_equal)
            # changing a coordinate changes the identifier
            sens = True
            for m in col.genes:
                t = m.transcripts[0]
                d = t.to_dict()
                d["transcript_interval_guid"] = None
                d2 = dict(d)
                d2["exon_ends"] = list(d["exon_ends"])
                d2["exon_ends"][-1] += 1
                a = TranscriptInterval.from_dict(d)
                b = TranscriptInterval.from_dict(d2)
                d3 = dict(d)
                d3["strand"] = "MINUS" if d["strand"] == "PLUS" else "PLUS"
                c = TranscriptInterval.from_dict(d3)
                sens &= len({str(a.guid), str(b.guid), str(c.guid)}) == 3
            out["content_sensitive"] = bool(sens)
            out["guids"] = sorted(str(x.guid) for m in col.iter_children() for x in list(m.iter_children()) + [m]) + [
                str(col.guid)]
            return out

        return NS(col=col2, _probe=_probe)

    def domain(self, tier):
        qsets = [
            [],
            [["note", ["x"]]],
            [["product", ["Kinase", "kinase", "KINASE"]], ["note", ["b", "a"]]],
            [["note", ["a", "b"]], ["product", ["KINASE", "Kinase", "kinase"]]],
            [["pseudo", []], ["note", ["x"]]],
            [["z", ["1", "2", "3"]], ["a", ["3", "1", "2"]], ["m", ["q"]]],
        ]
        for k in range(3):
            for mode in ("chromosome", "chunk", "none"):
                for q in qsets:
                    yield dict(spec=k, mode=mode, quals=q)

    def observe(self, r):
        return r["guids"]


CASES = [TranscriptRoundTrip(1, False), TranscriptRoundTrip(2, False), TranscriptRoundTrip(1, True), VariantRoundTrip(),
         NativeRoundTrips()]
