"""Input builders shared by the contract modules.  Objects are built by the REAL constructors (symbolically in the
engine, natively under CPython) under the class invariant as assumption, so the field layout is the code's own."""
from pyvc.spec import *  # noqa
from pyvc.sources import NS

STRAND = "location.strand.Strand"
SINGLE = "location.location_impl.SingleInterval"
COMPOUND = "location.location_impl.CompoundInterval"
PARENT = "parent.parent.Parent"
SEQUENCE = "sequence.sequence.Sequence"
ALPHABET = "sequence.alphabet.Alphabet"


def parent_with_sequence(S, name="seq", pid="chr1"):
    """Parent(id=pid, sequence=Sequence(<symbolic text over ACGT>, NT_STRICT)); returns (parent, length)."""
    text = S.symstr(name)
    seq = S.new(SEQUENCE, text, S.enum_const(ALPHABET, "NT_STRICT"), validate_alphabet=False)
    par = S.new(PARENT, id=pid, sequence=seq)
    return par, slen(text)


def slen(text):
    return text.length if hasattr(text, "length") and not isinstance(text, str) else len(text)


def single(S, name, parent=None, seqlen=None, directed=False):
    """A well-formed SingleInterval (0 <= start <= end [<= len(parent sequence)])."""
    start, end = S.int(name + "_start"), S.int(name + "_end")
    strand = S.enum(STRAND, name + "_strand")
    S.assume(And(0 <= start, start <= end))
    if seqlen is not None:
        S.assume(end <= seqlen)
    if directed:
        S.assume(Not(enum_name_is(strand, "UNSTRANDED")))
    return S.new(SINGLE, start, end, strand, parent)


def strand_product(a, b):
    """Integer value of a.relative_to(b): the product of the strand signs."""
    return enum_value(a) * enum_value(b)


def is_plus(x):
    return enum_name_is(x, "PLUS")


def is_minus(x):
    return enum_name_is(x, "MINUS")


def is_unstranded(x):
    return enum_name_is(x, "UNSTRANDED")


def same_parent_stripped(result_parent, src_parent):
    """The result carries the source's parent with the location information removed (or no parent)."""
    if src_parent is None:
        return result_parent is None
    if result_parent is None:
        return False
    return And(result_parent.id == src_parent.id, result_parent.sequence is src_parent.sequence)
