"""Sidecar contracts on the real functions of /repo (no edit of /repo).  One module per anchored area."""
MODULES = [
    "c01_single",
    "c01_compound",
    "c02_single",
    "c02_compound",
    "bounded_location",
    "bounded_liftover",
    "bounded_gene",
    "c03_sequence",
    "c04_liftover",
    "c05_cds",
    "c06_transcript",
    "c13_variants",
    "c14_bed",
    "c15_tables",
    "c16_bins",
    "c18_features",
]
