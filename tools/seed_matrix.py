#!/usr/bin/env python3
"""Run every seeded defect under /verif/seeded against the checks of its property, in a scratch worktree of /repo's
HEAD (PYVC_REPO points the checks at it).  Writes /verif/seeded/MATRIX.json.  Usage: seed_matrix.py [name ...]"""
import json, os, subprocess, sys, tempfile, time

SEEDED = "/verif/seeded"
names = sys.argv[1:] or sorted(d for d in os.listdir(SEEDED) if os.path.isdir(os.path.join(SEEDED, d)))
wt = tempfile.mkdtemp(prefix="seedmx_", dir="/tmp")
os.rmdir(wt)
def sh(cmd, cwd=None, env=None):
    p = subprocess.run(cmd, shell=True, cwd=cwd, capture_output=True, text=True, env=env)
    return p.returncode, p.stdout + p.stderr
rc, out = sh(f"git -C /repo worktree add -q --detach {wt} HEAD")
assert rc == 0, out
head = sh("git -C /repo rev-parse --short HEAD")[1].strip()
env = dict(os.environ, PYVC_REPO=wt)
matrix = {}
path = os.path.join(SEEDED, "MATRIX.json")
if os.path.exists(path) and sys.argv[1:]:
    matrix = json.load(open(path))
try:
    for name in names:
        meta = json.load(open(os.path.join(SEEDED, name, "meta.json")))
        prop = meta["property"]
        patch = os.path.join(SEEDED, name, "patch.diff")
        rc, out = sh(f"git apply {patch}", cwd=wt)
        how = "git apply"
        if rc != 0:
            rc, out = sh(f"patch -p1 -F3 --no-backup-if-mismatch < {patch}", cwd=wt)
            how = "patch -F3 (context moved by later fix commits)"
        if rc != 0:
            matrix[name] = dict(property=prop, applied=False, note=out[-300:])
            sh("git checkout -- . && git clean -fdq", cwd=wt)
            continue
        t = time.time()
        rc, out = sh(f"python3-vt -m pyvc.check {prop} --tier quick --no-evidence", cwd="/verif", env=env)
        lines = [l for l in out.splitlines() if l.startswith(("VIOLATION", "UNDECIDED", "CHECKER-ERROR"))]
        matrix[name] = dict(property=prop, applied=True, how=how, exit=rc, caught=(rc == 1),
                            first=(lines[0][:300] if lines else ""), violations=sum(1 for l in lines if l.startswith("VIOLATION")),
                            wall_s=round(time.time() - t, 1), repo_head=head)
        print(name, matrix[name]["exit"], matrix[name]["caught"], matrix[name]["first"][:150], flush=True)
        sh("git checkout -- . && git clean -fdq", cwd=wt)
finally:
    sh(f"git -C /repo worktree remove --force {wt}")
if os.environ.get("SEED_MATRIX_OUT"):
    # partial run (several groups in parallel): only this run's rows, merged by the caller
    json.dump({n: matrix[n] for n in names if n in matrix}, open(os.environ["SEED_MATRIX_OUT"], "w"), indent=1)
else:
    json.dump(matrix, open(path, "w"), indent=1)
print("caught", sum(1 for v in matrix.values() if v.get("caught")), "of", len(matrix))
