"""C20 — gene / feature-collection aggregates are the stated functions of their children (real constructors, k = 2..3
single-exon children with symbolic coordinates, CDS lengths and primary flags)."""
from pyvc.spec import *  # noqa
from pyvc.sources import NS
from .common import *  # noqa
from .gene_common import *  # noqa
from .c02_single import covers_pos
from .lib import LIB  # noqa

GENE = "gene.gene.GeneInterval"
FCOL = "gene.feature.FeatureIntervalCollection"
AFIC = "gene.interval.AbstractFeatureIntervalCollection"


def children(S, pattern, kind="tx", chunk=False):
    """k single-exon children; pattern[j] = True: coding transcript (CDS = [s_j, c_j)), False: non-coding.
    chunk=True: every child is built on a sequence-chunk parent (any window, also one that truncates or misses the
    child) - the aggregates are functions of the CHROMOSOME coordinates and must not depend on the window."""
    out, info = [], []
    strand = strand_of(S, "strand")
    extra = {}
    if chunk:
        from .c04_liftover import chunk_parent
        cp, cs, ce = chunk_parent(S)
        S.assume(cs < ce)
        extra = dict(parent_or_seq_chunk_parent=cp)
    zero = S.enum_const(FRAME, "ZERO")
    for j, coding in enumerate(pattern):
        s, e = S.int(f"s{j}"), S.int(f"e{j}")
        S.assume(And(0 <= s, s < e))
        flag = S.bool(f"primary{j}")
        if kind == "tx":
            kw = dict(is_primary_tx=flag, transcript_id=f"tx{j}")
            cds_len = 0
            if coding:
                c = S.int(f"c{j}")
                S.assume(And(s < c, c <= e))
                kw.update(cds_starts=[s], cds_ends=[c], cds_frames=[zero])
                cds_len = c - s
            obj = S.new(TRANSCRIPT, [s], [e], strand, **kw, **extra)
        else:
            obj = S.new(FEATURE, [s], [e], strand, is_primary_feature=flag, feature_id=f"f{j}",
                        feature_types=[f"type{j}", "shared"], **extra)
            cds_len = 0
        out.append(obj)
        info.append(NS(s=s, e=e, flag=flag, cds=cds_len, length=e - s, coding=coding))
    return out, info, strand


def sample_children(rng, pattern):
    d = dict(strand=rng.choice(["PLUS", "MINUS"]))
    for j, coding in enumerate(pattern):
        s = rng.randint(0, 6)
        e = s + rng.choice([1, 2, 3, 3, 5])
        d[f"s{j}"], d[f"e{j}"] = s, e
        d[f"primary{j}"] = rng.random() < 0.25
        if coding:
            d[f"c{j}"] = rng.randint(s + 1, e)
    return d


def better(a, ja, b, jb):
    """child a (index ja) sorts before child b by (-cds_size, -len, index)."""
    return Or(a.cds > b.cds, And(a.cds == b.cds, Or(a.length > b.length, And(a.length == b.length, ja < jb))))


def expected_primary(info):
    """index of the primary child: the unique flagged one, else the argmin of (-cds, -len, index)."""
    k = len(info)
    flagged = [i.flag for i in info]
    idx_flag = k - 1
    for j in range(k - 2, -1, -1):
        idx_flag = If(flagged[j], j, idx_flag)
    best = k - 1
    for j in range(k - 2, -1, -1):
        # j beats every later candidate that is currently best
        cond = And(*[better(info[j], j, info[t], t) for t in range(j + 1, k)])
        best = If(cond, j, best)
    # 'best' built right-to-left: j wins if it beats all later ones; otherwise the best among later ones
    return If(Or(*flagged), idx_flag, best)


def count_true(bs):
    return sum((If(b, 1, 0) for b in bs), 0)


class FindPrimary(Case):
    props = ("C20", "C19")
    func = AFIC + "._find_primary_feature"

    def __init__(self, pattern, kind="tx", chunk=False):
        self.pattern, self.kind, self.chunk = pattern, kind, chunk
        tag = "".join("c" if p else "n" for p in pattern) if kind == "tx" else "f" * len(pattern)
        self.name = f"_find_primary_feature[{tag}]" + ("[sequence-chunk parent]" if chunk else "")
        if chunk:
            self.tier = "thorough"
        self.call = "AbstractFeatureIntervalCollection._find_primary_feature(kids)"
        self.module = "gene.interval"
        self.raises = {"ValidationException": lambda i: count_true([c.flag for c in i.info]) >= 2}
        self.ensures = {
            "flagged-else-longest-cds-then-longest-then-first": lambda i, r: And(*[
                Implies(expected_primary(i.info) == j, r is i.kids[j]) for j in range(len(i.kids))]),
            "is-a-child": lambda i, r: any(r is c for c in i.kids),
        }

    def inputs(self, S):
        kids, info, strand = children(S, self.pattern, self.kind, self.chunk)
        return NS(kids=kids, info=info)

    def samples(self, rng):
        d = sample_children(rng, self.pattern)
        if self.chunk:
            from .c04_liftover import sample_chunk
            d.update(sample_chunk(rng, hi=6))
            if d["chunk_end"] == d["chunk_start"]:
                d["chunk_end"] += 1
                d["chunk_seq"] = "A"
        return d

    def observe(self, r):
        return getattr(r, "transcript_id", None) or getattr(r, "feature_id", None)


class SizeKeys(Case):
    """The sort keys of _find_primary_feature - cds_size and len() of a transcript - are functions of the chromosome
    coordinates: ANY sequence-chunk window (also one that truncates or misses the transcript or its CDS) leaves them
    unchanged ('does not shrink').  With FindPrimary (parentless children) this carries the primary choice to chunk
    parents; FindPrimary[...][sequence-chunk parent] (thorough tier) proves it directly."""
    props = ("C20", "C07")
    func = TRANSCRIPT + ".cds_size"

    def __init__(self, n):
        self.n = n
        self.name = f"TranscriptInterval.cds_size / len / is_coding[{n} exon(s), any sequence-chunk window]"
        self.call = "(tx.cds_size, len(tx), tx.is_coding, tx.start, tx.end)"
        self.module = "gene.transcript"
        self.ensures = {
            "cds-size-is-chromosome-cds-length": lambda i, r: r[0] == sum((e - s for s, e in zip(i.cds_s, i.cds_e)), 0),
            "length-is-sum-of-exons": lambda i, r: r[1] == sum((e - s for s, e in zip(i.starts, i.ends)), 0),
            "coding": lambda i, r: r[2] is True,
            "span": lambda i, r: And(r[3] == i.starts[0], r[4] == i.ends[-1]),
        }

    def inputs(self, S):
        from .c04_liftover import chunk_parent
        starts, ends = block_lists(S, "tx", self.n)
        strand = strand_of(S, "strand")
        cds_s, cds_e, c0, c1 = cds_in_exons(S, starts, ends)
        zero = S.enum_const(FRAME, "ZERO")
        cp, cs, ce = chunk_parent(S)
        S.assume(cs < ce)
        tx = S.new(TRANSCRIPT, starts, ends, strand, cds_starts=cds_s, cds_ends=cds_e, cds_frames=[zero] * self.n,
                   parent_or_seq_chunk_parent=cp)
        return NS(tx=tx, starts=starts, ends=ends, cds_s=cds_s, cds_e=cds_e)

    def samples(self, rng):
        from .c04_liftover import sample_chunk
        d = sample_blocks(rng, "tx", self.n, length=(1, 2, 3, 5))
        d["strand"] = rng.choice(["PLUS", "MINUS"])
        d = sample_cds(rng, d)
        d.update(sample_chunk(rng, hi=8))
        if d["chunk_end"] == d["chunk_start"]:
            d["chunk_end"] += 1
            d["chunk_seq"] = "A"
        return d


class GeneAggregates(Case):
    props = ("C20", "C16")
    func = GENE + ".__init__"

    def __init__(self, pattern):
        self.pattern = pattern
        tag = "".join("c" if p else "n" for p in pattern)
        self.name = f"GeneInterval aggregates[{tag}]"
        self.call = ("(lambda g: (g.start, g.end, g.is_coding, g.bin, g.get_primary_transcript(), g.get_primary_cds(), "
                     "g.get_merged_transcript().chromosome_location, len(g.guid_map), "
                     "g.get_merged_cds().chromosome_location, g.get_merged_feature().chromosome_location))"
                     "(GeneInterval(kids, gene_type=Biotype.protein_coding))")
        self.module = "gene.gene"
        self.raises = {"ValidationException": lambda i: count_true([c.flag for c in i.info]) >= 2}
        from .c16_bins import spec_bin
        self.ensures = {
            "span-is-min-start-max-end": lambda i, r: And(r[0] == _min([c.s for c in i.info]),
                                                          r[1] == _max([c.e for c in i.info])),
            "coding-iff-some-transcript-coding": lambda i, r: r[2] == any(c.coding for c in i.info),
            "bin-of-span": lambda i, r: r[3] == spec_bin(_min([c.s for c in i.info]), _max([c.e for c in i.info]), 0),
            "primary-accessors": lambda i, r: And(*[
                Implies(expected_primary(i.info) == j, And(r[4] is i.kids[j], r[5] is i.kids[j].cds))
                for j in range(len(i.kids))]),
            "merged-transcript-is-union-of-exons": lambda i, r: Iff(covers_pos(r[6], i.p),
                                                                    Or(*[And(c.s <= i.p, i.p < c.e) for c in i.info])),
            "one-map-entry-per-transcript": lambda i, r: r[7] == len(i.kids),
            "merged-cds-is-union-of-cds-blocks": lambda i, r: Iff(covers_pos(r[8], i.p), Or(*[
                And(c.s <= i.p, i.p < c.s + c.cds) for c in i.info if c.coding])),
            "merged-feature-is-the-merged-transcript": lambda i, r: Iff(covers_pos(r[9], i.p), covers_pos(r[6], i.p)),
        }

    def inputs(self, S):
        kids, info, strand = children(S, self.pattern)
        return NS(kids=kids, info=info, p=S.int("p"), GeneInterval=S.cls(GENE))

    def samples(self, rng):
        d = sample_children(rng, self.pattern)
        d["p"] = rng.randint(0, 12)
        return d

    def observe(self, r):
        from pyvc.check import default_observe as o
        from .c02_single import obs_loc
        return [o(r[0]), o(r[1]), o(r[2]), o(r[3]), getattr(r[4], "transcript_id", None), r[5] is None,
                obs_loc(r[6])[:2], o(r[7]), obs_loc(r[8])[:2], obs_loc(r[9])[:2]]


def _spec_bin(a, b):
    from .c16_bins import spec_bin
    return spec_bin(a, b, 0)


def _min(xs):
    m = xs[0]
    for x in xs[1:]:
        m = Min(m, x)
    return m


def _max(xs):
    m = xs[0]
    for x in xs[1:]:
        m = Max(m, x)
    return m


class FeatureCollectionAggregates(Case):
    props = ("C20", "C16")
    func = FCOL + ".__init__"
    name = "FeatureIntervalCollection aggregates[2 features]"
    call = ("(lambda c: (c.start, c.end, c.is_coding, sorted(c.feature_types), c.get_primary_feature(), "
            "c.get_merged_feature().chromosome_location, c.bin))(FeatureIntervalCollection(kids))")
    module = "gene.feature"
    raises = {"ValidationException": lambda i: count_true([c.flag for c in i.info]) >= 2}
    ensures = {
        "span": lambda i, r: And(r[0] == _min([c.s for c in i.info]), r[1] == _max([c.e for c in i.info])),
        "never-coding": lambda i, r: r[2] is False,
        "bin-of-span": lambda i, r: r[6] == _spec_bin(_min([c.s for c in i.info]), _max([c.e for c in i.info])),
        "types-are-union": lambda i, r: list(r[3]) == ["shared", "type0", "type1"],
        "primary": lambda i, r: And(*[Implies(expected_primary(i.info) == j, r[4] is i.kids[j]) for j in range(2)]),
        "merged-feature-is-union": lambda i, r: Iff(covers_pos(r[5], i.p),
                                                    Or(*[And(c.s <= i.p, i.p < c.e) for c in i.info])),
    }

    def inputs(self, S):
        kids, info, strand = children(S, (False, False), "feature")
        return NS(kids=kids, info=info, p=S.int("p"))

    def samples(self, rng):
        d = sample_children(rng, (False, False))
        d["p"] = rng.randint(0, 12)
        return d

    def observe(self, r):
        from pyvc.check import default_observe as o
        from .c02_single import obs_loc
        return [o(r[0]), o(r[1]), o(r[2]), list(r[3]), getattr(r[4], "feature_id", None), obs_loc(r[5])[:2], o(r[6])]


CASES = [FindPrimary((True, True)), FindPrimary((True, False)), FindPrimary((False, False)),
         FindPrimary((True, True, True)), FindPrimary((False, False), "feature"),
         GeneAggregates((True, True)), GeneAggregates((True, False)), FeatureCollectionAggregates(),
         FindPrimary((True, True), chunk=True), FindPrimary((True, False), chunk=True), SizeKeys(1), SizeKeys(2)]
