"""C04 / C07 — lift-over between chromosome and sequence-chunk coordinates (single-block locations; the hierarchy is
built by the real io.parser.seq_chunk_to_parent / seq_to_parent in both modes)."""
from pyvc.spec import *  # noqa
from pyvc.sources import NS
from .common import *  # noqa
from .lib import LIB  # noqa

AI = "gene.interval.AbstractInterval"


def chunk_parent(S, name="chunk"):
    """seq_chunk_to_parent(<text of length ce-cs>, "chr1", cs, ce): returns (parent, cs, ce)."""
    cs, ce = S.int(name + "_start"), S.int(name + "_end")
    text = S.symstr(name + "_seq")
    S.assume(And(0 <= cs, cs <= ce, slen(text) == ce - cs))
    f = S.fn("io.parser.seq_chunk_to_parent")
    if S.mode == "native":
        return f(text, "chr1", cs, ce), cs, ce
    return S.e.call(f, [text, "chr1", cs, ce], {}), cs, ce


def sample_chunk(rng, name="chunk", lo=0, hi=14):
    cs = rng.randint(lo, hi)
    ce = cs + rng.randint(0, 10)
    return {name + "_start": cs, name + "_end": ce, name + "_seq": "".join(rng.choice("ACGT") for _ in range(ce - cs))}


class LiftToChunk(Case):
    props = ("C04", "C07")
    name = "AbstractInterval.liftover_location_to_seq_chunk_parent[single block -> sequence chunk]"
    func = AI + ".liftover_location_to_seq_chunk_parent"
    module = "gene.interval"
    call = "AbstractInterval.liftover_location_to_seq_chunk_parent(loc, chunk)"
    # a zero-length chunk carries no usable sequence: the documented NullSequenceException (truthiness of Sequence is
    # its length)
    raises = {"NullSequenceException": lambda i: i.cs == i.ce}
    ensures = {
        "empty-iff-no-base-in-chunk": lambda i, r: Iff(class_name(r) == "_EmptyLocation",
                                                       Not(Max(i.s, i.cs) < Min(i.e, i.ce))),
        "restriction-shifted-into-chunk-coordinates": lambda i, r: class_name(r) == "_EmptyLocation" or And(
            class_name(r) == "SingleInterval", r.start == Max(i.s, i.cs) - i.cs, r.end == Min(i.e, i.ce) - i.cs),
        "strand-kept": lambda i, r: class_name(r) == "_EmptyLocation" or (
            enum_eq(r.strand, i.loc.strand) if hasattr(r.strand, "idx") else r.strand is i.loc.strand),
        "placed-on-the-chunk": lambda i, r: class_name(r) == "_EmptyLocation" or And(
            r.parent is not None, r.parent.sequence is i.chunk.sequence),
    }

    def inputs(self, S):
        loc = single(S, "loc")
        chunk, cs, ce = chunk_parent(S)
        return NS(loc=loc, chunk=chunk, s=loc.start, e=loc.end, cs=cs, ce=ce)

    def samples(self, rng):
        s = rng.randint(0, 16)
        d = dict(loc_start=s, loc_end=s + rng.randint(0, 8), loc_strand=rng.choice(["PLUS", "MINUS", "UNSTRANDED"]))
        d.update(sample_chunk(rng))
        return d

    def observe(self, r):
        from .c02_single import obs_loc
        o = obs_loc(r)
        return o[:3]


class LiftRoundTrip(Case):
    """chromosome -> chunk -> chromosome returns exactly the part of the location inside the chunk."""
    props = ("C04", "C07")
    name = "lift to chunk and back = restriction to the chunk[single block]"
    func = "location.location.Location.lift_over_to_first_ancestor_of_type"
    module = "gene.interval"
    call = ("AbstractInterval.liftover_location_to_seq_chunk_parent(loc, chunk)"
            ".lift_over_to_first_ancestor_of_type(SequenceType.CHROMOSOME)")
    ensures = {
        "restriction": lambda i, r: And(class_name(r) == "SingleInterval", r.start == Max(i.s, i.cs),
                                        r.end == Min(i.e, i.ce)),
        "strand-kept": lambda i, r: enum_eq(r.strand, i.loc.strand) if hasattr(r.strand, "idx") else (
            r.strand is i.loc.strand),
        "on-chromosome": lambda i, r: And(r.parent is not None, r.parent.id == "chr1"),
    }

    def inputs(self, S):
        loc = single(S, "loc", directed=False)
        chunk, cs, ce = chunk_parent(S)
        S.assume(Max(loc.start, cs) < Min(loc.end, ce))  # some base inside the chunk (else EmptyLocation: case above)
        return NS(loc=loc, chunk=chunk, s=loc.start, e=loc.end, cs=cs, ce=ce)

    def samples(self, rng):
        d = sample_chunk(rng)
        s = rng.randint(0, 16)
        d.update(loc_start=s, loc_end=s + rng.randint(1, 8), loc_strand=rng.choice(["PLUS", "MINUS"]))
        return d

    def observe(self, r):
        from .c02_single import obs_loc
        return obs_loc(r)[:3]


class LiftChunkToChunk(Case):
    """a location already placed on chunk A, lifted onto chunk B of the same chromosome: the part of the ORIGINAL
    chromosome location inside both chunks, in B's coordinates (the lift goes through chromosome coordinates)."""
    props = ("C04", "C07")
    name = "AbstractInterval.liftover_location_to_seq_chunk_parent[chunk A -> chunk B, single block]"
    func = AI + ".liftover_location_to_seq_chunk_parent"
    module = "gene.interval"
    call = ("AbstractInterval.liftover_location_to_seq_chunk_parent("
            "AbstractInterval.liftover_location_to_seq_chunk_parent(loc, chunk_a), chunk_b)")
    ensures = {
        "restriction-to-both-chunks-in-B-coordinates": lambda i, r: If(
            Max(Max(i.s, i.as_), i.bs) < Min(Min(i.e, i.ae), i.be),
            _single_at(r, Max(Max(i.s, i.as_), i.bs) - i.bs, Min(Min(i.e, i.ae), i.be) - i.bs),
            class_name(r) == "_EmptyLocation"),
    }

    def inputs(self, S):
        loc = single(S, "loc", directed=False)
        a, as_, ae = chunk_parent(S, "a")
        b, bs, be = chunk_parent(S, "b")
        S.assume(And(as_ < ae, bs < be))
        S.assume(Max(loc.start, as_) < Min(loc.end, ae))  # the location has a base on chunk A
        return NS(loc=loc, chunk_a=a, chunk_b=b, s=loc.start, e=loc.end, as_=as_, ae=ae, bs=bs, be=be)

    def samples(self, rng):
        d = sample_chunk(rng, "a")
        d.update(sample_chunk(rng, "b"))
        s = rng.randint(0, 16)
        d.update(loc_start=s, loc_end=s + rng.randint(1, 8), loc_strand=rng.choice(["PLUS", "MINUS"]))
        return d

    def observe(self, r):
        from .c02_single import obs_loc
        return obs_loc(r)[:3]


def _single_at(r, start, end):
    if class_name(r) != "SingleInterval":
        return False
    return And(r.start == start, r.end == end)


CASES = [LiftToChunk(), LiftRoundTrip(), LiftChunkToChunk()]
