"""C11 — GFF3 export half: attribute escaping, attribute column layout, row arithmetic / phase / ID-Parent wiring of
to_gff, nine-column rendering.  The parse-back leg (io/gff3/parser.py, gffutils) is not reachable here."""
import itertools
from urllib.parse import unquote

from pyvc.spec import *  # noqa
from pyvc.sources import NS
from .common import *  # noqa
from .gene_common import *  # noqa
from .c04_liftover import chunk_parent
from .lib import LIB  # noqa

ROWS = "io.gff3.rows."
HOSTILE = ["\t", ";", "=", "%", "\n", "\r", " ", ">", "&", '"', ",", "a", "B", "3", "é"]
RESERVED_RAW = {"\t", "\n", "\r", ";", "=", ">", " "}


class Escape(Case):
    """escape_key / escape_value on every string of length <= 2 over a hostile alphabet and of length 3 over
    {'%','3','B',';','a'}: the output contains no raw reserved separator, decodes (percent-decoding) back to the input,
    and every escape is '%' + two upper-case hex digits of the character code."""
    props = ("C11",)
    name = "GFFAttributes.escape_key / escape_value[all short strings over a hostile alphabet]"
    func = ROWS + "GFFAttributes.escape_value"
    module = "io.gff3.rows"
    call = ("(GFFAttributes.escape_value(s), GFFAttributes.escape_value(s, escape_comma=True), "
            "GFFAttributes.escape_key(s), GFFAttributes.escape_key(s, lower=True))")
    ensures = {
        "decodes-back": lambda i, r: (unquote(r[0]) == i.s and unquote(r[1]) == i.s and unquote(r[2]) == i.s)
        if i.s else (r[0] == "nan" and r[1] == "nan"),
        "no-raw-separator": lambda i, r: not (set(r[0]) | set(r[2])) & RESERVED_RAW and not set(r[1]) & (
            RESERVED_RAW | {","}),
        "comma-kept-as-value-separator-only-when-not-escaping": lambda i, r: ("," in r[0]) == ("," in i.s),
        "lower-cased-key": lambda i, r: unquote(r[3]) == i.s.lower() or "%" in r[3],
        "untouched-characters-unchanged": lambda i, r: all(ch in r[0] for ch in i.s if ch not in
                                                           "\t;=%\n\r >"),
    }

    def inputs(self, S):
        return NS(s=S.const("s"), GFFAttributes=S.cls(ROWS + "GFFAttributes"))

    def ground(self):
        yield {"s": ""}
        for n in (1, 2):
            for t in itertools.product(HOSTILE, repeat=n):
                yield {"s": "".join(t)}
        for t in itertools.product(["%", "3", "B", ";", "a", "2"], repeat=3):
            yield {"s": "".join(t)}


class AttributesColumn(Case):
    """GFFAttributes.__str__: ID first, Parent iff given, Name iff given, then qualifier keys sorted; reserved
    attributes are never emitted from qualifiers (raise or drop); values sorted and comma-joined."""
    props = ("C11",)
    name = "GFFAttributes.__str__[all small qualifier dictionaries]"
    func = ROWS + "GFFAttributes.__str__"
    module = "io.gff3.rows"
    call = "str(GFFAttributes(id='i;d', qualifiers=q, name=name, parent=parent, raise_on_reserved_attributes=strict))"
    raises = {"GFF3ExportException": lambda i: i.strict and any(k in ("ID", "Parent", "Name") and v for k, v in i.raw)}
    ensures = {
        "layout": lambda i, r: r == _expected_attrs(i),
    }

    def inputs(self, S):
        raw = [(k, list(v)) for k, v in S.const("q")]
        q = {}
        for k, v in raw:
            q[k] = set(v) if S.mode == "native" else S.e.make_set(list(v))
        return NS(q=q, raw=raw, name=S.const("name"), parent=S.const("parent"), strict=S.const("strict"),
                  GFFAttributes=S.cls(ROWS + "GFFAttributes"))

    def ground(self):
        keys = ["zeta", "Alpha", "ID", "Parent", "Name", "Dbxref", "k=1"]
        vals = [[], ["v"], ["b b", "a;a"]]
        for n in (0, 1, 2):
            for ks in itertools.combinations(keys, n):
                for vs in itertools.product(vals, repeat=n):
                    for name, parent in ((None, None), ("nm", "p,1")):
                        for strict in (True, False):
                            yield dict(q=[[k, v] for k, v in zip(ks, vs)], name=name, parent=parent, strict=strict)


def _esc(s, comma=False):
    m = {"\t": "%09", ";": "%3B", "=": "%3D", "\n": "%0A", "\r": "%0D", ">": "%3E", " ": "%20", "%": "%25"}
    if comma:
        m[","] = "%2C"
    return "".join(m.get(ch, ch) for ch in s) if s else "nan"


def _expected_attrs(i):
    out = ["ID=" + _esc("i;d", True)]
    if i.parent is not None:
        out.append("Parent=" + _esc(i.parent, True))
    if i.name is not None:
        out.append("Name=" + _esc(i.name, True))
    for k, v in sorted(i.raw):
        if not v:
            continue
        if k in ("ID", "Parent", "Name"):
            continue
        gff_reserved = k in ("Alias", "Target", "Gap", "Derives_from", "Note", "Dbxref", "Ontology_term", "Is_circular")
        key = _esc(k) if gff_reserved else _esc(k).lower()
        out.append(key + "=" + ",".join(sorted(_esc(x) for x in v)))
    return ";".join(out)


class TranscriptRows(Case):
    """TranscriptInterval.to_gff: one transcript row, one exon row per exon, one CDS row per CDS block; coordinates
    1-based inclusive = source blocks; strand; phase '.' on non-CDS rows and frame-derived on CDS rows; exon / CDS
    rows name the transcript row's ID as Parent; IDs pairwise different."""
    props = ("C11",)
    func = TRANSCRIPT + ".to_gff"

    def __init__(self, n, chunk=False, cut=False):
        self.n, self.chunk, self.cut = n, chunk, cut
        self.tier = "thorough" if (chunk and n > 1) else "quick"
        mode = "chunk-relative" if chunk else "chromosome"
        self.name = f"TranscriptInterval.to_gff[{n} exons, coding, {mode}]"
        self.call = f"list(tx.to_gff(parent='gene1', chromosome_relative_coordinates={not chunk}))"
        if cut:
            # chromosome-coordinate export of a transcript built on a chunk that cuts it anywhere: the rows are those
            # of the whole-chromosome transcript (all exons, all CDS blocks, phases from the CHROMOSOME frames)
            self.name = f"TranscriptInterval.to_gff[{n} exons, coding, chromosome coordinates, chunk cutting the transcript]"
            self.shard_depth = 4
        self.ensures = {
            "row-count-and-types": lambda i, r: [_etype(x.type) for x in r] == ["transcript"] + ["exon"] * n + ["CDS"] * n,
            "transcript-row": lambda i, r: And(r[0].start == i.exons[0][0] + 1, r[0].end == i.exons[-1][1]),
            "exon-rows-are-source-blocks": lambda i, r: And(*[
                And(r[1 + k].start == i.exons[k][0] + 1, r[1 + k].end == i.exons[k][1]) for k in range(n)]),
            "cds-rows-are-cds-blocks": lambda i, r: And(*[
                And(r[1 + n + k].start == i.cds[k][0] + 1, r[1 + n + k].end == i.cds[k][1]) for k in range(n)]),
            "start-le-end-one-based": lambda i, r: And(*[And(1 <= x.start, x.start <= x.end) for x in r]),
            "strand-everywhere": lambda i, r: all(_same_enum(x.strand, i.strand) for x in r),
            "phase-only-on-cds-rows": lambda i, r: all(_ename(x.phase) == "NONE" for x in r[:1 + n]),
            "cds-phase-is-frame-derived": lambda i, r: And(*[
                enum_value(r[1 + n + k].phase) == Mod(-i.frames[k], 3) for k in range(n)]),
            "parent-wiring": lambda i, r: And(
                r[0].attributes.parent == "gene1",
                *[same_text(x.attributes.parent, r[0].attributes.id) for x in r[1:]]),
            "ids-pairwise-different": lambda i, r: all(
                same_text(r[a].attributes.id, r[b].attributes.id) is False
                for a in range(len(r)) for b in range(a + 1, len(r))),
            "seqid-and-source": lambda i, r: all(x.seqid == "chr1" and x.source == "BioCantor" for x in r),
        }

    def inputs(self, S):
        n = self.n
        starts, ends = block_lists(S, "tx", n)
        strand = strand_of(S, "strand")
        cds_s, cds_e, c0, c1 = cds_in_exons(S, starts, ends)
        off = 0
        cp = None
        if self.cut:
            cp, cs, ce = chunk_parent(S)
            S.assume(Or(*[Max(starts[k], cs) < Min(ends[k], ce) for k in range(n)]))  # some exon base on the chunk
        elif self.chunk:
            cp, cs, ce = chunk_parent(S)
            S.assume(And(cs <= starts[0], ends[-1] <= ce))
            off = cs
        frames_fn = S.fn(CDS + ".construct_frames_from_location")
        loc = S.new(COMPOUND, cds_s, cds_e, strand) if n > 1 else S.new(SINGLE, cds_s[0], cds_e[0], strand)
        f0 = S.enum_const(FRAME, "ONE")
        fl = frames_fn(loc, f0) if S.mode == "native" else S.e.call(frames_fn, [loc, f0], {})
        tx = S.new(TRANSCRIPT, starts, ends, strand, cds_starts=cds_s, cds_ends=cds_e, cds_frames=fl,
                   sequence_name="chr1", transcript_symbol="sym", parent_or_seq_chunk_parent=cp)
        fvals = [enum_value(f) for f in fl]
        return NS(tx=tx, strand=strand, exons=[(s - off, e - off) for s, e in zip(starts, ends)],
                  cds=[(s - off, e - off) for s, e in zip(cds_s, cds_e)], frames=fvals)

    def samples(self, rng):
        d = sample_blocks(rng, "tx", self.n, lo=2, length=(2, 3, 5))
        d["strand"] = rng.choice(["PLUS", "MINUS"])
        sample_cds(rng, d)
        if self.cut:
            cs = rng.randint(0, d["tx_ends"][-1] - 1)
            ce = rng.randint(cs + 1, d["tx_ends"][-1] + 3)
            d.update(chunk_start=cs, chunk_end=ce, chunk_seq="".join(rng.choice("ACGT") for _ in range(ce - cs)))
        elif self.chunk:
            cs = rng.randint(0, d["tx_starts"][0])
            ce = d["tx_ends"][-1] + rng.randint(0, 3)
            d.update(chunk_start=cs, chunk_end=ce, chunk_seq="".join(rng.choice("ACGT") for _ in range(ce - cs)))
        return d

    def observe(self, r):
        from pyvc.check import default_observe as o
        return [[_etype(x.type), o(x.start), o(x.end), _ename(x.strand), _ename(x.phase)] for x in r]


class FeatureRows(Case):
    """FeatureInterval.to_gff: one feature row and one sub-region row per block, 1-based inclusive coordinates of the
    source blocks in the exported coordinate system (adjacent blocks stay separate rows), phase '.' everywhere."""
    props = ("C11", "C07")
    func = FEATURE + ".to_gff"

    def __init__(self, n, chunk=False):
        self.n, self.chunk = n, chunk
        mode = "chunk-relative" if chunk else "chromosome"
        self.name = f"FeatureInterval.to_gff[{n} blocks, {mode}]"
        self.call = f"list(f.to_gff(parent='fc1', chromosome_relative_coordinates={not chunk}))"
        self.ensures = {
            "row-count": lambda i, r: len(r) == 1 + n,
            "feature-row-is-span": lambda i, r: And(r[0].start == i.blocks[0][0] + 1, r[0].end == i.blocks[-1][1]),
            "block-rows-are-source-blocks": lambda i, r: And(*[
                And(r[1 + k].start == i.blocks[k][0] + 1, r[1 + k].end == i.blocks[k][1]) for k in range(n)]),
            "strand-everywhere": lambda i, r: all(_same_enum(x.strand, i.strand) for x in r),
            "no-phase": lambda i, r: all(_ename(x.phase) == "NONE" for x in r),
            "parent-wiring": lambda i, r: And(
                r[0].attributes.parent == "fc1",
                *[same_text(x.attributes.parent, r[0].attributes.id) for x in r[1:]]),
            "ids-pairwise-different": lambda i, r: all(
                same_text(r[a].attributes.id, r[b].attributes.id) is False
                for a in range(len(r)) for b in range(a + 1, len(r))),
        }

    def inputs(self, S):
        starts, ends = block_lists(S, "f", self.n)
        strand = strand_of(S, "strand")
        off, cp = 0, None
        if self.chunk:
            cp, cs, ce = chunk_parent(S)
            S.assume(And(cs <= starts[0], ends[-1] <= ce))
            off = cs
        f = S.new(FEATURE, starts, ends, strand, sequence_name="chr1", feature_id="f1", parent_or_seq_chunk_parent=cp)
        return NS(f=f, strand=strand, blocks=[(s - off, e - off) for s, e in zip(starts, ends)])

    def samples(self, rng):
        d = sample_blocks(rng, "f", self.n, lo=2, length=(1, 2, 3, 5))
        d["strand"] = rng.choice(["PLUS", "MINUS"])
        if self.chunk:
            cs = rng.randint(0, d["f_starts"][0])
            ce = d["f_ends"][-1] + rng.randint(0, 3)
            d.update(chunk_start=cs, chunk_end=ce, chunk_seq="".join(rng.choice("ACGT") for _ in range(ce - cs)))
        return d

    def observe(self, r):
        from pyvc.check import default_observe as o
        return [[_etype(x.type), o(x.start), o(x.end), _ename(x.strand), _ename(x.phase)] for x in r]


QKEYS = ("product", "protein_id", "note")


class GeneRowQualifiers(Case):
    """GeneInterval.to_gff, all rows materialised BEFORE any is rendered (as AnnotationCollection.to_gff does, which
    sorts the row objects first): every row carries exactly its own level's qualifiers - gene row: the gene's;
    transcript / exon rows: gene's + transcript's + protein id; CDS rows: those + product.  Nothing a child adds may
    appear on the gene row or on a sibling isoform (complete finite domain of qualifier placements, two isoforms)."""
    props = ("C11",)
    name = "GeneInterval.to_gff[row qualifiers per level, two isoforms, all placements]"
    func = "gene.gene.GeneInterval.to_gff"
    module = "gene.gene"
    call = ("[(r.type.name, [sorted(r.attributes.attributes.get(k, ())) for k in KEYS], r.attributes.parent is None) "
            "for r in list(GeneInterval(txs, gene_id='g1', sequence_name='chr1', qualifiers=gq).to_gff())]")
    ensures = {
        "row-kinds": lambda i, r: [x[0] for x in r] == ["GENE"] + ["TRANSCRIPT", "EXON", "CDS"] * 2,
        "gene-row-has-only-gene-qualifiers": lambda i, r: r[0][1] == [sorted(set(i.gq.get(k, ()))) for k in QKEYS],
        "isoform-rows-have-gene+own-qualifiers": lambda i, r: all(
            r[1 + 3 * j + t][1] == _expected_level(i, j, t) for j in range(2) for t in range(3)),
    }

    def inputs(self, S):
        zero = S.enum_const(FRAME, "ZERO")
        plus = S.enum_const(STRAND, "PLUS")
        spec = S.const("spec")
        gq = {k: list(v) for k, v in spec["gene"]}
        txs = []
        for j, t in enumerate(spec["tx"]):
            s = 10 * j
            txs.append(S.new(TRANSCRIPT, [s], [s + 9], plus, cds_starts=[s], cds_ends=[s + 9], cds_frames=[zero],
                             transcript_id=f"tx{j}", sequence_name="chr1", product=t["product"], protein_id=t["protein_id"],
                             qualifiers={k: list(v) for k, v in t["q"]}))
        return NS(txs=txs, gq=gq, tq=[{k: list(v) for k, v in t["q"]} for t in spec["tx"]],
                  prod=[t["product"] for t in spec["tx"]], pid=[t["protein_id"] for t in spec["tx"]],
                  KEYS=QKEYS, GeneInterval=S.cls("gene.gene.GeneInterval"))

    def ground(self):
        genes = [[], [["product", ["family"]]], [["note", ["n1"]], ["protein_id", ["gp"]]]]
        txq = [[], [["product", ["own"]]]]
        for g in genes:
            for q0, q1 in itertools.product(txq, repeat=2):
                for p0, p1 in (("iso 1", "iso 2"), (None, "iso 2"), ("iso 1", None)):
                    for i0, i1 in (("P1", "P2"), (None, "P2")):
                        yield dict(spec=dict(gene=g, tx=[dict(q=q0, product=p0, protein_id=i0),
                                                         dict(q=q1, product=p1, protein_id=i1)]))

    def observe(self, r):
        return [[x[0], [list(v) for v in x[1]], bool(x[2])] for x in r]


def _expected_level(i, j, t):
    """QKEYS value lists on row t (0 transcript, 1 exon, 2 CDS) of isoform j."""
    out = []
    for k in QKEYS:
        vals = set(i.gq.get(k, ())) | set(i.tq[j].get(k, ()))
        if k == "protein_id" and i.pid[j]:
            vals.add(i.pid[j])
        if k == "product" and t == 2 and i.prod[j]:
            vals.add(i.prod[j])
        out.append(sorted(vals))
    return out


def _etype(t):
    return t.members[t.idx][1] if hasattr(t, "members") else t.value


def _ename(e):
    return e.members[e.idx][0] if hasattr(e, "members") else e.name


def _same_enum(a, b):
    return enum_eq(a, b) if hasattr(a, "idx") else a is b


class CollectionRowOrder(Case):
    """AnnotationCollection.to_gff: the rows of ALL children, ordered by start (whatever the nesting of the loci: a
    host gene with two exons, a locus nested in it, a third locus starting before the host's second exon ...), every
    row kept exactly once, and every Parent attribute naming an ID defined on an EARLIER row."""
    props = ("C11", "C20")
    name = "AnnotationCollection.to_gff[rows of three loci ordered by start, parents first, any nesting]"
    func = "gene.collections.AnnotationCollection.to_gff"
    module = "gene.collections"
    shard_depth = 4
    call = "[(r.start, r.end, r.attributes.id, r.attributes.parent) for r in col.to_gff()]"
    ensures = {
        "ordered-by-start": lambda i, r: And(*[r[k][0] <= r[k + 1][0] for k in range(len(r) - 1)]),
        "every-row-exactly-once": lambda i, r: And(
            len(r) == 10,
            # rows are identified by their ID text; all ten IDs pairwise different
            all(same_text(r[a][2], r[b][2]) is False for a in range(len(r)) for b in range(a + 1, len(r))),
            # the multiset of (start, end) pairs is the expected one: compare the sums of starts and of ends and the
            # presence of every expected pair
            *[Or(*[And(x[0] == s + 1, x[1] == e) for x in r]) for s, e in i.expected_spans]),
        "parent-defined-on-an-earlier-row": lambda i, r: all(
            x[3] is None or any(same_text(r[b][2], x[3]) is True for b in range(a)) for a, x in enumerate(r)),
    }

    def inputs(self, S):
        strand = strand_of(S, "strand")
        h_s, h_e = block_lists(S, "host", 2, allow_adjacent=False)
        s1, e1, s2, e2 = S.int("s1"), S.int("e1"), S.int("s2"), S.int("e2")
        S.assume(And(0 <= s1, s1 < e1, 0 <= s2, s2 < e2))
        host = S.new(GENE_Q, [S.new(TRANSCRIPT, h_s, h_e, strand, transcript_id="txh", sequence_name="chr1")],
                     gene_id="host", sequence_name="chr1")
        g1 = S.new(GENE_Q, [S.new(TRANSCRIPT, [s1], [e1], strand, transcript_id="tx1", sequence_name="chr1")],
                   gene_id="g1", sequence_name="chr1")
        g2 = S.new(GENE_Q, [S.new(TRANSCRIPT, [s2], [e2], strand, transcript_id="tx2", sequence_name="chr1")],
                   gene_id="g2", sequence_name="chr1")
        col = S.new("gene.collections.AnnotationCollection", genes=[host, g1, g2], sequence_name="chr1")
        spans = [(h_s[0], h_e[1])] * 2 + [(h_s[0], h_e[0]), (h_s[1], h_e[1])] + [(s1, e1)] * 3 + [(s2, e2)] * 3
        return NS(col=col, expected_spans=spans)

    def samples(self, rng):
        a = rng.randint(0, 5)
        b = a + rng.randint(1, 4)
        c = b + rng.randint(2, 9)
        d = c + rng.randint(1, 4)
        s1 = rng.randint(0, d)
        s2 = rng.randint(0, d + 2)
        return dict(host_starts=[a, c], host_ends=[b, d], strand=rng.choice(["PLUS", "MINUS"]), s1=s1,
                    e1=s1 + rng.randint(1, 4), s2=s2, e2=s2 + rng.randint(1, 4))

    def observe(self, r):
        from pyvc.check import default_observe as o
        return [[o(x[0]), o(x[1]), x[3] is None] for x in r]


GENE_Q = "gene.gene.GeneInterval"


class RowText(Case):
    """GFFRow.__str__: nine tab-separated columns in the documented order."""
    props = ("C11",)
    name = "GFFRow.__str__[nine columns]"
    func = ROWS + "GFFRow.__str__"
    module = "io.gff3.rows"
    call = ("str(GFFRow('chr1', 'BioCantor', BioCantorFeatureTypes.CDS, start, end, '.', strand, CDSPhase.ONE, "
            "GFFAttributes(id='x', qualifiers={})))")
    ensures = {"nine-columns": lambda i, r: text_equals(r, ["chr1\tBioCantor\tCDS\t", i.start, "\t", i.end, "\t.\t" +
                                                             {"PLUS": "+", "MINUS": "-", "UNSTRANDED": "."}[_ename(i.strand)]
                                                             + "\t1\tID=x"])}

    def inputs(self, S):
        return NS(start=S.int("start"), end=S.int("end"), strand=strand_of(S, "strand", directed=False),
                  CDSPhase=S.cls("gene.cds_frame.CDSPhase"))

    def samples(self, rng):
        return dict(start=rng.randint(1, 99), end=rng.randint(1, 999), strand=rng.choice(["PLUS", "MINUS", "UNSTRANDED"]))

    def observe(self, r):
        from .c14_bed import BedText
        return BedText.observe(self, r)


CASES = [Escape(), AttributesColumn(), RowText(), TranscriptRows(1), TranscriptRows(2), TranscriptRows(1, True),
         TranscriptRows(2, True), FeatureRows(2), FeatureRows(2, True), FeatureRows(3, True),
         GeneRowQualifiers(), CollectionRowOrder(), TranscriptRows(1, cut=True), TranscriptRows(2, cut=True)]

CANARIES = [
    dict(name="gff: start not shifted to 1-based", props=("C11",), file="inscripta/biocantor/gene/transcript.py",
         old="                BioCantorFeatureTypes.EXON,\n                start + 1,",
         new="                BioCantorFeatureTypes.EXON,\n                start,",
         case="TranscriptInterval.to_gff[1 exons, coding, chromosome]", expect="post:exon-rows-are-source-blocks"),
]
