/-
Meta-lemmas used by the BioCantor verification (DESIGN.md 2.12, 5/C10, 5/C11).  They are statements about abstract
sequences / state machines, not about repository code; proving them here removes them from the list of pen-and-paper
assumptions.  Core Lean 4 only (no Mathlib).  Checked by `lean lemmas/Lemmas.lean` (MANIFEST.setup_cmd).
-/

namespace BioCantorLemmas

/-! ## L1 - a character-wise percent encoder is inverted by percent decoding

`enc c` is either the character itself (then it is not the escape character) or the escape character followed by
two "hex digits" that `unhex` maps back to `c`.  This is the shape of `GFFAttributes.escape_value`: `re.sub` with a
single-character alternation applies `ENCODING_MAP` to each character independently (the per-character facts are
the ground obligations of contracts/c11_gff3.py:Escape); the lemma lifts them to strings of ANY length. -/

section L1
variable {α : Type} [DecidableEq α] (pct : α) (unhex : α → α → α)

/-- percent decoding -/
def dec : List α → List α
  | [] => []
  | [a] => [a]
  | [a, b] => [a, b]
  | a :: b :: c :: rest =>
      if a = pct then unhex b c :: dec rest else a :: dec (b :: c :: rest)

/-- the shape of a character-wise encoder -/
def GoodEnc (enc : α → List α) : Prop :=
  ∀ c, (enc c = [c] ∧ c ≠ pct) ∨ (∃ h₁ h₂, enc c = [pct, h₁, h₂] ∧ unhex h₁ h₂ = c)

theorem dec_cons_plain (c : α) (h : c ≠ pct) (t : List α) :
    dec pct unhex (c :: t) = c :: dec pct unhex t := by
  match t with
  | [] => simp [dec]
  | [b] => simp [dec]
  | b :: d :: rest => simp [dec, h]

theorem dec_cons_escaped (h₁ h₂ : α) (t : List α) :
    dec pct unhex (pct :: h₁ :: h₂ :: t) = unhex h₁ h₂ :: dec pct unhex t := by
  simp [dec]

theorem decode_encode (enc : α → List α) (h : GoodEnc pct unhex enc) (s : List α) :
    dec pct unhex (s.flatMap enc) = s := by
  induction s with
  | nil => simp [dec]
  | cons c t ih =>
    rw [List.flatMap_cons]
    cases h c with
    | inl hp =>
      rw [hp.1]
      show dec pct unhex (c :: List.flatMap enc t) = c :: t
      rw [dec_cons_plain pct unhex c hp.2, ih]
    | inr he =>
      obtain ⟨h₁, h₂, heq, hun⟩ := he
      rw [heq]
      show dec pct unhex (pct :: h₁ :: h₂ :: List.flatMap enc t) = c :: t
      rw [dec_cons_escaped, ih, hun]
end L1

/-! ## H - answers do not depend on the call history (C10 meta-argument)

State = immutable construction-time fields + memo table.  If every operation leaves the fields alone (frame
obligations), every operation preserves the invariant "each filled memo entry equals what the uncached body returns"
(purity / memo-owner obligations), and under that invariant an accessor's answer is a function of the fields only
(kind / order obligations), then after ANY sequence of operations - including evictions, which are operations that
empty entries - every accessor answers as on a fresh object. -/

section H
variable {F M Op Obs : Type}

structure St (F M : Type) where
  fields : F
  memo : M

theorem history_independent
    (step : Op → St F M → St F M) (obs : St F M → Obs) (spec : F → Obs) (Inv : St F M → Prop)
    (h_frame : ∀ o s, (step o s).fields = s.fields)
    (h_inv : ∀ o s, Inv s → Inv (step o s))
    (h_obs : ∀ s, Inv s → obs s = spec s.fields)
    (s₀ : St F M) (h₀ : Inv s₀) (ops : List Op) :
    obs (ops.foldl (fun s o => step o s) s₀) = spec s₀.fields := by
  have key : ∀ (ops : List Op) (s : St F M), Inv s →
      Inv (ops.foldl (fun s o => step o s) s) ∧ (ops.foldl (fun s o => step o s) s).fields = s.fields := by
    intro ops
    induction ops with
    | nil => intro s hs; exact ⟨hs, rfl⟩
    | cons o t ih =>
      intro s hs
      have h1 := ih (step o s) (h_inv o s hs)
      exact ⟨h1.1, by rw [List.foldl_cons, h1.2, h_frame]⟩
  have k := key ops s₀ h₀
  rw [h_obs _ k.1, k.2]

/-- two histories give the same answer -/
theorem same_answer_whatever_was_asked_before
    (step : Op → St F M → St F M) (obs : St F M → Obs) (spec : F → Obs) (Inv : St F M → Prop)
    (h_frame : ∀ o s, (step o s).fields = s.fields)
    (h_inv : ∀ o s, Inv s → Inv (step o s))
    (h_obs : ∀ s, Inv s → obs s = spec s.fields)
    (s₀ : St F M) (h₀ : Inv s₀) (ops₁ ops₂ : List Op) :
    obs (ops₁.foldl (fun s o => step o s) s₀) = obs (ops₂.foldl (fun s o => step o s) s₀) := by
  rw [history_independent step obs spec Inv h_frame h_inv h_obs s₀ h₀ ops₁,
      history_independent step obs spec Inv h_frame h_inv h_obs s₀ h₀ ops₂]
end H

end BioCantorLemmas

namespace BioCantorLemmas

/-! ## L2 - a stable sort by start keeps every parent row before its child rows

`AnnotationCollection.to_gff` sorts all rows by start with Python's stable `sorted`.  Rows are generated parent first,
and a child row never starts before its parent row.  Hence after sorting the parent row still precedes the child row
(GFF3: every Parent attribute resolves to an EARLIER line) - for any number of rows.  `List.mergeSort` is Lean's stable
sort; the statement only uses stability, which is also the trusted contract of Python's `sorted`. -/

section L2
variable {Row : Type} (key : Row → Nat)

theorem parent_stays_before_child (rows : List Row) (p c : Row)
    (h_before : [p, c].Sublist rows) (h_key : key p ≤ key c) :
    [p, c].Sublist (rows.mergeSort (fun x y => decide (key x ≤ key y))) := by
  apply List.pair_sublist_mergeSort
  · intro a b c hab hbc
    simp only [decide_eq_true_eq] at *
    exact Nat.le_trans hab hbc
  · intro a b
    simp only [Bool.or_eq_true, decide_eq_true_eq]
    exact Nat.le_total (key a) (key b)
  · simpa using h_key
  · exact h_before
end L2

end BioCantorLemmas
