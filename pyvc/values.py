"""Symbolic value classes used by the executor (see DESIGN.md 2.2)."""
try:
    import z3
except Exception:  # native side (/venv) has no z3; only the class definitions are needed there
    class _NoZ3:
        class ExprRef:  # noqa
            pass

        ArithRef = BoolRef = ExprRef

    z3 = _NoZ3()


class Unsupported(Exception):
    """A construct outside the supported Python subset: the function is refused (checker error), never skipped."""


class PyExc(Exception):
    """A Python exception travelling through the interpreted program."""

    def __init__(self, cls, note=""):
        super().__init__(cls, note)
        self.cls = cls  # class name (str)
        self.note = note


class PathAbort(Exception):
    """The current path is infeasible or has been cut (loop-invariant preservation end)."""


class FrontierReached(PathAbort):
    """Frontier pass of a sharded exploration: the path has used its budget of branching decisions."""


class ReturnSignal(Exception):
    def __init__(self, value):
        self.value = value


class BreakSignal(Exception):
    pass


class ContinueSignal(Exception):
    pass


def is_sym(v):
    return isinstance(v, z3.ExprRef)


def is_symint(v):
    return isinstance(v, z3.ArithRef)


def is_symbool(v):
    return isinstance(v, z3.BoolRef)


def is_int(v):
    return (isinstance(v, int) and not isinstance(v, bool)) or isinstance(v, z3.ArithRef)


def is_boolish(v):
    return isinstance(v, bool) or isinstance(v, z3.BoolRef)


class EnumVal:
    """A member of a repo Enum class. ``idx`` indexes cls members (canonical, aliases removed); int or z3 Int."""

    __slots__ = ("cls", "idx", "members")

    def __init__(self, cls, idx, members):
        self.cls = cls
        self.idx = idx
        self.members = members  # list of (name, value) canonical members

    @property
    def concrete(self):
        return isinstance(self.idx, int)

    @property
    def name(self):
        assert self.concrete
        return self.members[self.idx][0]

    @property
    def value(self):
        assert self.concrete
        return self.members[self.idx][1]

    def __repr__(self):
        if self.concrete:
            return f"{self.cls.name}.{self.name}"
        return f"{self.cls.name}[{self.idx}]"

    # concrete members are usable as dict keys / set members inside interpreted containers
    def __hash__(self):
        if self.concrete:
            return hash((self.cls.qualname, self.idx))
        return id(self)

    def __eq__(self, other):
        if isinstance(other, EnumVal) and self.concrete and other.concrete:
            return self.cls is other.cls and self.idx == other.idx
        return self is other


class Obj:
    """Instance of a repo class; attributes live in ``attrs``."""

    def __init__(self, cls, attrs=None):
        self.cls = cls
        self.attrs = attrs if attrs is not None else {}

    def __repr__(self):
        return f"<{self.cls.name} {self.attrs}>"

    def __getattr__(self, name):  # convenience for specification text: read stored attributes
        d = self.__dict__
        if "attrs" in d and name in d["attrs"]:
            return d["attrs"][name]
        raise AttributeError(name)


class ClassRef:
    def __init__(self, cls):
        self.cls = cls

    def __repr__(self):
        return f"<class {self.cls.name}>"

    def __eq__(self, o):
        return isinstance(o, ClassRef) and o.cls is self.cls

    def __hash__(self):
        return hash(self.cls.qualname)


class BuiltinType:
    """``int``, ``str``, ``list`` ... used with isinstance/type()."""

    def __init__(self, name):
        self.name = name

    def __repr__(self):
        return f"<builtin type {self.name}>"

    def __eq__(self, o):
        return isinstance(o, BuiltinType) and o.name == self.name

    def __hash__(self):
        return hash(self.name)


class FuncVal:
    def __init__(self, finfo, closure=None, self_val=None, bound_cls=None):
        self.finfo = finfo
        self.closure = closure
        self.self_val = self_val
        self.bound_cls = bound_cls

    def __repr__(self):
        return f"<func {self.finfo.qualname}>"


class LambdaVal:
    def __init__(self, node, frame):
        self.node = node
        self.frame = frame


class BuiltinFn:
    def __init__(self, name, fn=None):
        self.name = name
        self.fn = fn

    def __repr__(self):
        return f"<builtin {self.name}>"


class ModuleRef:
    def __init__(self, module):
        self.module = module


class ExternalRef:
    """Something imported from outside the package (``re``, ``itertools`` ...)."""

    def __init__(self, dotted, attr=None):
        self.dotted = dotted
        self.attr = attr

    @property
    def full(self):
        return self.dotted + ("." + self.attr if self.attr else "")

    def __repr__(self):
        return f"<external {self.full}>"


class SList:
    """Mutable list of ints (or of fixed-arity int tuples, component arrays) with a symbolic length.

    ``arrs`` is a tuple of z3 arrays (one per component; arity 1 for plain int lists)."""

    def __init__(self, arrs, length, arity=None):
        self.arrs = tuple(arrs)
        self.length = length
        self.arity = arity  # None => plain ints, k => tuples of k ints

    def get(self, i):
        vals = [z3.Select(a, i) for a in self.arrs]
        if self.arity is None:
            return vals[0]
        return tuple(vals)

    def copy(self):
        return SList(self.arrs, self.length, self.arity)

    def __repr__(self):
        return f"<SList len={self.length}>"


class LazySeq:
    """Immutable sequence with symbolic length whose k-th element is computed by ``getter(k)``."""

    def __init__(self, length, getter, tag=""):
        self.length = length
        self.getter = getter
        self.tag = tag

    def get(self, i):
        return self.getter(i)

    def __repr__(self):
        return f"<LazySeq {self.tag} len={self.length}>"


class SymIter:
    """Iterator over a sequence value with an explicit cursor (iter(), reversed(), generator results)."""

    def __init__(self, seq, cursor=0):
        self.seq = seq
        self.cursor = cursor


class OptVal:
    """A value that is None when ``is_none`` holds and ``val`` otherwise; resolved by a fork on first use."""

    def __init__(self, is_none, val):
        self.is_none = is_none
        self.val = val
        self.resolved = None


class Opaque:
    """Uninterpreted object (parents, sequences ...) with a fixed attribute table and optional method stubs."""

    def __init__(self, tag, attrs=None, methods=None, truth=True):
        self.tag = tag
        self.attrs = attrs or {}
        self.methods = methods or {}
        self.truth = truth

    def __repr__(self):
        return f"<opaque {self.tag}>"


class SymStr:
    """A string whose characters are code points in a z3 array (used for sequence text)."""

    def __init__(self, arr, length):
        self.arr = arr
        self.length = length


class SymChar:
    """One character of a symbolic string: a code point term plus the set of characters it may be."""

    def __init__(self, code, alphabet=None):
        self.code = code
        self.alphabet = alphabet
