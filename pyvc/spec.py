"""Contract vocabulary.

Everything here is importable both under ``python3-vt`` (with z3: symbolic mode) and under ``/venv/bin/python``
(without z3: native mode, used for replay, the CPython cross-check and the bounded tier), so that ONE specification
text is used for the proof and for native evaluation on the real objects.
"""
try:  # pragma: no cover
    import z3
except Exception:  # native side
    z3 = None


def _sym(*xs):
    return z3 is not None and any(isinstance(x, z3.ExprRef) for x in xs)


def _b(x):
    if z3 is not None and isinstance(x, bool):
        return z3.BoolVal(x)
    return x


def And(*xs):
    if len(xs) == 1 and isinstance(xs[0], (list, tuple)):
        xs = tuple(xs[0])
    if _sym(*xs):
        return z3.And(*[_b(x) for x in xs])
    return all(xs)


def Or(*xs):
    if len(xs) == 1 and isinstance(xs[0], (list, tuple)):
        xs = tuple(xs[0])
    if _sym(*xs):
        return z3.Or(*[_b(x) for x in xs])
    return any(xs)


def Not(x):
    if _sym(x):
        return z3.Not(x)
    return not x


def Implies(a, b):
    if _sym(a, b):
        return z3.Implies(_b(a), _b(b))
    return (not a) or bool(b)


def Iff(a, b):
    if _sym(a, b):
        return _b(a) == _b(b)
    return bool(a) == bool(b)


def If(c, a, b):
    if _sym(c):
        if isinstance(a, bool) or isinstance(b, bool) or (z3 is not None and isinstance(a, z3.BoolRef)):
            return z3.If(c, _b(a), _b(b))
        return z3.If(c, _i(a), _i(b))
    if _sym(a, b):
        return a if c else b
    return a if c else b


def _i(x):
    if z3 is not None and isinstance(x, int) and not isinstance(x, bool):
        return z3.IntVal(x)
    return x


def Min(a, b):
    if _sym(a, b):
        return z3.If(_i(a) <= _i(b), _i(a), _i(b))
    return min(a, b)


def Max(a, b):
    if _sym(a, b):
        return z3.If(_i(a) >= _i(b), _i(a), _i(b))
    return max(a, b)


def Abs(a):
    if _sym(a):
        return z3.If(a >= 0, a, -a)
    return abs(a)


def Mod(a, m):
    """Mathematical modulus for positive constant m (equals Python % for m > 0)."""
    return a % m


def Div(a, m):
    """Floor division by a positive constant."""
    if _sym(a):
        return a / m
    return a // m


def Eq(a, b):
    return a == b


def ForAllRange(lo, hi, f, hint="q"):
    """forall i in [lo, hi): f(i).  Natively a finite conjunction; symbolically a quantifier (or expansion when the
    bounds are concrete)."""
    if not _sym(lo, hi):
        parts = [f(i) for i in range(lo, hi)]
        return And(*parts) if parts else True
    i = z3.Int(f"{hint}!{next(_counter)}")
    return z3.ForAll([i], z3.Implies(z3.And(i >= lo, i < hi), _b(f(i))))


def ExistsRange(lo, hi, f, hint="x", witness=None):
    """exists i in [lo,hi): f(i).  With a ``witness`` term (ghost loop index) the stronger statement f(witness) is
    proved instead of leaving the existential to the solver."""
    if witness is not None and _sym(witness):
        return And(witness >= lo, witness < hi, f(witness))
    if not _sym(lo, hi):
        parts = [f(i) for i in range(lo, hi)]
        return Or(*parts) if parts else False
    i = z3.Int(f"{hint}!{next(_counter)}")
    return z3.Exists([i], z3.And(i >= lo, i < hi, _b(f(i))))


import itertools as _it

_counter = _it.count()


# ---------------------------------------------------------------------------------------------------------------
# observers that work on engine values and on real objects alike
def enum_name_is(x, name):
    """x is the enum member called ``name``."""
    if hasattr(x, "members") and hasattr(x, "idx"):  # engine EnumVal
        idxs = [k for k, (n, _v) in enumerate(x.members) if n == name]
        if not idxs:
            # alias
            raise KeyError(name)
        if isinstance(x.idx, int):
            return x.idx == idxs[0]
        return x.idx == idxs[0]
    return x.name == name


def enum_value(x):
    if hasattr(x, "members") and hasattr(x, "idx"):
        if isinstance(x.idx, int):
            return x.members[x.idx][1]
        vals = [v for _, v in x.members]
        e = z3.IntVal(vals[-1])
        for k in range(len(vals) - 2, -1, -1):
            e = z3.If(x.idx == k, z3.IntVal(vals[k]), e)
        return e
    return x.value


def enum_eq(a, b):
    if hasattr(a, "members") and hasattr(a, "idx"):
        return a.idx == b.idx
    return a is b


def class_name(x):
    if hasattr(x, "cls") and hasattr(x, "attrs"):
        return x.cls.name
    return type(x).__name__


def set_member(s, x):
    """x in s, for engine sets (items + symbolic ranges) and real sets."""
    if hasattr(s, "ranges") and hasattr(s, "items"):
        parts = [i == x for i in s.items]
        for lo, hi in s.ranges:
            parts.append(And(x >= lo, x < hi))
        return Or(*parts) if parts else False
    return x in s


def is_int_value(r):
    if z3 is not None and isinstance(r, z3.ArithRef):
        return True
    return isinstance(r, int) and not isinstance(r, bool)


def is_set_value(r):
    return (hasattr(r, "ranges") and hasattr(r, "items")) or isinstance(r, (set, frozenset))


def text_parts(t):
    """Fields of a rendered text: engine symbolic text -> list of literal strings / int terms; real str -> itself."""
    if hasattr(t, "tag") and t.tag == "text":
        return list(t.attrs["parts"])
    return t


def text_equals(t, expected):
    """t renders exactly the sequence ``expected`` (str items literally, int items in decimal)."""
    if isinstance(t, str):
        return t == "".join(str(x) for x in expected)
    parts = text_parts(t)
    exp = []
    for x in expected:
        if isinstance(x, int) and not isinstance(x, bool):
            x = str(x)
        if isinstance(x, str):
            if x:
                if exp and isinstance(exp[-1], str):
                    exp[-1] += x
                else:
                    exp.append(x)
        else:
            exp.append(("int", x))
    if not isinstance(parts, list) or len(parts) != len(exp):
        return False
    conds = []
    for a, b in zip(parts, exp):
        if isinstance(a, str) or isinstance(b, str):
            if a != b:
                return False
        elif a[0] == "atom" or b[0] == "atom":
            if not (a[0] == b[0] == "atom" and a[1] is b[1]):
                return False
        else:
            conds.append(a[1] == b[1])
    return And(*conds) if conds else True


def same_text(a, b):
    """two rendered texts are the same string (engine texts: same literal / int / atom parts)."""
    if isinstance(a, str) and isinstance(b, str):
        return a == b
    if isinstance(a, str) or isinstance(b, str):
        return False
    pa, pb = text_parts(a), text_parts(b)
    if hasattr(a, "tag") and a.tag == "str(UUID)":
        pa = [("atom", a.attrs["$of"])]
    if hasattr(b, "tag") and b.tag == "str(UUID)":
        pb = [("atom", b.attrs["$of"])]
    if not isinstance(pa, list) or not isinstance(pb, list) or len(pa) != len(pb):
        return False
    conds = []
    for x, y in zip(pa, pb):
        if isinstance(x, str) or isinstance(y, str):
            if x != y:
                return False
        elif x[0] == "atom" or y[0] == "atom":
            if not (x[0] == y[0] == "atom" and x[1] is y[1]):
                return False
        else:
            conds.append(x[1] == y[1])
    return And(*conds) if conds else True


def is_none(x):
    return x is None


class _Skip:
    """Returned by a clause that does not apply in the current mode (e.g. a clause that is only meaningful on real
    objects): the clause then generates NO obligation (it is not counted as discharged)."""

    def __repr__(self):
        return "SKIP"


SKIP = _Skip()


class Case:
    """One function under contract with one input configuration.

    Subclasses (or instances built by ``case(...)``) provide:
      func      qualified name below inscripta.biocantor (module path + class + function)
      props     property ids this case contributes to
      inputs(S) build the input namespace from source ``S`` (symbolic, concrete-in-engine or native)
      call      python expression evaluated over the inputs (in the engine: by the symbolic executor on the real
                AST of the callee; natively: by CPython on the real library)
      raises    {ExceptionClassName: lambda inp: condition}   exact: raised iff condition
      ensures   {label: lambda inp, r: condition}              on normal return
    """

    name = ""
    func = ""
    props = ()
    module = None  # module short name used to resolve names in ``call`` (defaults to the function's module)
    call = ""
    raises = {}
    ensures = {}
    summaries = ()  # names of summaries to install
    loops = ()  # loop specs to install
    notes = ""
    domain = None  # optional: callable(tier) -> iterable of primitive dicts for the bounded tier
    samples = None  # optional: callable(rng) -> primitive dict for the CPython cross-check
    scope = ""  # description of the bound when ``domain`` is given
    proved = True  # False => bounded only (never counted as proved)
    axioms = None
    allow_uncovered = ()  # outcome kinds that are legitimately unreachable in this configuration
    also_scopes = ()  # sequence lengths at which the case is ALWAYS additionally proved (exact semantics)
    scopes = ()  # sequence lengths for the finite-scope refutation fallback (DESIGN 2.9)
    native = True  # False: the function is not reachable natively (nested function): no replay / cross-check
    ground = None  # optional: callable() -> iterable of primitive dicts: a complete finite domain
    static = None  # dict(classes=[...], functions=[...], kinds=(...), accepted={site: reason}): static back end
    tier = "quick"  # 'thorough': too expensive for the per-change check; run by the thorough command only
    known_raises = {}  # exception class -> known-finding id: raised on the listed inputs although the property forbids it
    known = {}  # label -> {"id":..., "carve": lambda inp: cond}  known-finding carve-outs
    # exception classes that MAY escape under any condition ('documented error' obligations of C19: the call either
    # returns or raises one of these - the library's own exception hierarchy is matched by base class name);
    # unlike ``raises`` no exact condition is claimed
    may_raise = ()
    timeout_ms = 10000

    def inputs(self, S):  # pragma: no cover
        raise NotImplementedError


class LoopSpec:
    """Contract for one loop of a function: variable sorts for the havoc and the inductive invariant.

    ``inv(ns, k)`` receives a namespace of the loop-carried variables (by name) and the number ``k`` of iterations
    completed; ``vars`` maps variable name -> sort ('int' | 'bool' | 'optint' | 'intlist' | 'pairlist' | callable)."""

    def __init__(self, vars, inv, label="", decreases=None, hints=None, ghost_init=None, ghost_step=None):
        # ghost_init(interp, frame) / ghost_step(interp, frame, k): specification-only updates of ghost variables
        # (names starting with '$') before the loop and at the end of every iteration; they never touch program state
        self.ghost_init = ghost_init
        self.ghost_step = ghost_step
        self.vars = vars
        self.inv = inv
        self.label = label
        # hints(interp, ns, k, frame): INSTANCES of already assumed spec-function axioms (built only with the
        # instance constructors of the contract library, e.g. CompoundView.unfold / mono); assumed at the loop head
        # to guide quantifier instantiation.  They follow from the axioms by universal instantiation.
        self.hints = hints



REGISTRY = []


def register(case):
    inst = case() if isinstance(case, type) else case
    if not inst.name:
        inst.name = type(inst).__name__
    REGISTRY.append(inst)
    return case
