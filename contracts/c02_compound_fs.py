"""C01 / C02 — compound x compound set algebra and compound interval forms, proved for ALL integer coordinates with
the block counts fixed (1 or 2 blocks per operand; the real code runs on the real objects, every comparison forks)."""
from pyvc.spec import *  # noqa
from pyvc.sources import NS
from .common import *  # noqa
from .gene_common import block_lists, sample_blocks, strand_of
from .c02_single import covers_pos, wf_result, blocks_of, obs_loc
from .lib import LIB  # noqa


def loc(S, name, n, strand, allow_overlap=False, nonempty=True):
    starts, ends = block_lists(S, name, n, allow_overlap=allow_overlap, nonempty=nonempty)
    obj = S.new(COMPOUND, starts, ends, strand) if n > 1 else S.new(SINGLE, starts[0], ends[0], strand)
    return obj, starts, ends


def cov(starts, ends, p):
    return Or(*[And(s <= p, p < e) for s, e in zip(starts, ends)])


class PairAlgebra(Case):
    props = ("C02",)
    func = COMPOUND + ".intersection"

    def __init__(self, na, nb, op, empties=False, overlap=False):
        self.na, self.nb, self.op, self.empties, self.overlap = na, nb, op, empties, overlap
        self.tier = "thorough" if na + nb >= 5 else "quick"
        self.name = (f"{op}[{na} x {nb} blocks{', zero-length blocks allowed' if empties else ''}"
                     f"{', blocks of each operand may overlap or nest' if overlap is True else ''}"
                     f"{', blocks of the second operand may overlap or nest' if overlap == 'b' else ''}, all coordinates]")
        self.call = {"intersection": "a.intersection(b, match_strand=False)",
                     "minus": "a.minus(b, match_strand=False)",
                     "union": "a.union(b)",
                     "has_overlap": "a.has_overlap(b)",
                     "distance_inner": "(a.distance_to(b), b.distance_to(a))",
                     "has_overlap_full_span": "(a.has_overlap(b, full_span=True), b.has_overlap(a, full_span=True))",
                     "intersection_full_span": "a.intersection(b, match_strand=False, full_span=True)",
                     "contains": "a.contains(b)"}[op]
        A = lambda i: cov(i.as_, i.ae, i.p)  # noqa
        B = lambda i: cov(i.bs, i.be, i.p)  # noqa
        if op == "intersection":
            self.ensures = {"position-set": lambda i, r: Iff(covers_pos(r, i.p), And(A(i), B(i))),
                            "normalised": lambda i, r: wf_result(r)}
            if overlap:
                # known finding F-C02-5 (consequence of F-C02-2): for operands whose own blocks overlap each other the
                # pairwise intersections are only merged in overlap-preserving mode, which can leave two ADJACENT
                # blocks unmerged; sortedness, bounds and length are still required
                self.ensures["well-formed-up-to-merging"] = lambda i, r: wf_result(r, optimized=False)
                self.known = {"normalised": dict(id="F-C02-5", carve=lambda i: Or(_self_overlap(i.as_, i.ae),
                                                                                 _self_overlap(i.bs, i.be)))}
        elif op == "minus":
            self.ensures = {"position-set": lambda i, r: Iff(covers_pos(r, i.p), And(A(i), Not(B(i))))}
        elif op == "union":
            self.ensures = {"position-set": lambda i, r: Iff(covers_pos(r, i.p), Or(A(i), B(i))),
                            "well-formed": lambda i, r: wf_result(r, optimized=False)}
        elif op == "has_overlap_full_span":
            # documented: with full_span the full spans of BOTH operands are compared (hence symmetric)
            spans = lambda i: Max(i.as_[0], i.bs[0]) < Min(i.ae[-1], i.be[-1])  # noqa
            self.ensures = {"iff-spans-share-a-position": lambda i, r: And(Iff(r[0], spans(i)), Iff(r[1], spans(i)))}
        elif op == "intersection_full_span":
            self.ensures = {"position-set-of-span-intersection": lambda i, r: Iff(
                covers_pos(r, i.p), And(Max(i.as_[0], i.bs[0]) <= i.p, i.p < Min(i.ae[-1], i.be[-1])))}
        elif op == "distance_inner":
            def mind(i):
                from .c02_distance import d1
                ds = [d1(s1, e1, s2, e2) for s1, e1 in zip(i.as_, i.ae) for s2, e2 in zip(i.bs, i.be)]
                m = ds[0]
                for x in ds[1:]:
                    m = Min(m, x)
                return m
            self.ensures = {"min-over-block-pairs-and-symmetric": lambda i, r: And(r[0] == mind(i), r[1] == mind(i))}
        elif op == "has_overlap":
            self.ensures = {"iff-common-position": lambda i, r: Iff(r, _exists_common(i))}
        else:
            self.ensures = {"iff-subset": lambda i, r: Iff(r, _subset(i))}

    def inputs(self, S):
        strand = strand_of(S, "strand")
        a, as_, ae = loc(S, "a", self.na, strand, nonempty=not self.empties, allow_overlap=self.overlap is True)
        b, bs, be = loc(S, "b", self.nb, strand, allow_overlap=bool(self.overlap))
        return NS(a=a, b=b, as_=as_, ae=ae, bs=bs, be=be, p=S.int("p"))

    def samples(self, rng):
        d = sample_blocks(rng, "a", self.na, length=(0, 1, 2, 4) if self.empties else (1, 2, 4))
        d.update(sample_blocks(rng, "b", self.nb, length=(1, 2, 4, 9)))
        d.update(strand=rng.choice(["PLUS", "MINUS"]), p=rng.randint(0, 14))
        if self.overlap:
            for nm, n in (("a", self.na), ("b", self.nb)):
                if nm == "a" and self.overlap == "b":
                    continue
                if n >= 2 and rng.random() < 0.7:  # stretch the first block over (part of) the later ones
                    d[nm + "_ends"][0] = d[nm + "_ends"][rng.randrange(1, n)] + rng.choice([-1, 0, 1])
                    d[nm + "_ends"][0] = max(d[nm + "_ends"][0], d[nm + "_starts"][0] + 1)
        return d

    def observe(self, r):
        from pyvc.check import default_observe as o
        if class_name(r) in ("_EmptyLocation", "SingleInterval", "CompoundInterval"):
            return obs_loc(r)[:2]
        return o(r)


def _self_overlap(starts, ends):
    """two blocks of one operand share a position (blocks non-empty)."""
    n = len(starts)
    return Or(False, *[Max(starts[a], starts[b]) < Min(ends[a], ends[b]) for a in range(n) for b in range(a + 1, n)])


def _exists_common(i):
    """some position lies in both (blocks non-empty): a block of a and a block of b overlap."""
    return Or(*[Max(s1, s2) < Min(e1, e2) for s1, e1 in zip(i.as_, i.ae) for s2, e2 in zip(i.bs, i.be)])


def _subset(i):
    """every block of b lies inside the union of a's blocks (a's blocks disjoint, possibly adjacent)."""
    def block_in_a(s, e):
        # covered by one block, or by two adjacent blocks of a
        one = Or(*[And(sa <= s, e <= ea) for sa, ea in zip(i.as_, i.ae)])
        two = False
        n = len(i.as_)
        runs = []
        for lo in range(n):
            for hi in range(lo + 1, n):
                # blocks lo..hi of a are pairwise adjacent and together contain [s, e)
                runs.append(And(*[i.ae[t] == i.as_[t + 1] for t in range(lo, hi)], i.as_[lo] <= s, e <= i.ae[hi]))
        two = Or(*runs) if runs else False
        return Or(one, two)
    return And(*[block_in_a(s, e) for s, e in zip(i.bs, i.be)])


class CompoundIntervalForm(Case):
    """CompoundInterval.relative_interval_to_parent_location for 2 (3: thorough) blocks, all coordinates: the j-th
    base of the result is the point-wise image of relative position a+j."""
    props = ("C01",)
    func = COMPOUND + ".relative_interval_to_parent_location"

    def __init__(self, n):
        self.n = n
        self.tier = "thorough" if n >= 4 else "quick"
        self.name = f"CompoundInterval.relative_interval_to_parent_location[{n} blocks, all coordinates]"
        self.call = ("(lambda r: (r.relative_to_parent_pos(j), len(r), r.strand))"
                     "(loc.relative_interval_to_parent_location(x, y, Strand.PLUS)), loc.relative_to_parent_pos(x + j)")
        self.call = ("((lambda r: (r.relative_to_parent_pos(j), len(r), r.strand))"
                     "(loc.relative_interval_to_parent_location(x, y, Strand.PLUS)), loc.relative_to_parent_pos(x + j))")
        self.module = "location.location_impl"
        self.ensures = {
            "same-base-same-order": lambda i, r: r[0][0] == r[1],
            "length": lambda i, r: r[0][1] == i.y - i.x,
            "strand": lambda i, r: enum_eq(r[0][2], i.strand) if hasattr(i.strand, "idx") else r[0][2] is i.strand,
        }

    def inputs(self, S):
        strand = strand_of(S, "strand")
        l, starts, ends = loc(S, "loc", self.n, strand)
        total = sum((e - s for s, e in zip(starts, ends)), 0)
        x, y, j = S.int("x"), S.int("y"), S.int("j")
        S.assume(And(0 <= x, x < y, y <= total, 0 <= j, j < y - x))
        return NS(loc=l, x=x, y=y, j=j, strand=strand, Strand=S.cls(STRAND))

    def samples(self, rng):
        d = sample_blocks(rng, "loc", self.n)
        total = sum(e - s for s, e in zip(d["loc_starts"], d["loc_ends"]))
        x = rng.randint(0, total - 1)
        y = rng.randint(x + 1, total)
        d.update(strand=rng.choice(["PLUS", "MINUS"]), x=x, y=y, j=rng.randint(0, y - x - 1))
        return d


class CompoundIntervalFormMinus(CompoundIntervalForm):
    """the same with relative strand MINUS: the j-th base of the result (in ITS 5'->3' order) is relative position
    y-1-j of the source, and the strand is the composition (opposite)."""

    def __init__(self, n):
        super().__init__(n)
        self.tier = "thorough" if n >= 3 else "quick"
        self.name = f"CompoundInterval.relative_interval_to_parent_location[{n} blocks, relative strand MINUS]"
        self.call = ("((lambda r: (r.relative_to_parent_pos(j), len(r), r.strand))"
                     "(loc.relative_interval_to_parent_location(x, y, Strand.MINUS)), "
                     "loc.relative_to_parent_pos(y - 1 - j))")
        self.ensures = dict(self.ensures)
        self.ensures["strand"] = lambda i, r: (Not(enum_eq(r[0][2], i.strand)) if hasattr(i.strand, "idx")
                                                else r[0][2] is i.strand.reverse())


class CompoundUnary(Case):
    """one-operand operations of CompoundInterval, block count fixed (2-3 blocks that may overlap, nest or touch), ALL
    integer coordinates and arguments: the result's position set is the stated function of the operand's position set
    A and its bounds lo = smallest start, hi = LARGEST end:
      gap_list / gaps_location : [lo, hi) minus A;    extend_absolute(l, r) : A + [lo-l, lo) + [hi, hi+r)
      extend_relative(u, d)    : extend_absolute with the arguments swapped on the minus strand
      shift_position(k)        : A shifted by k;       reverse : A reflected inside [lo, hi), strand reversed
      merge_overlapping        : A, no two blocks overlapping.
    Refusals are the documented ones (ValueError for a negative extension, InvalidPositionException when the result
    would start below 0, InvalidStrandException for a relative extension of an unstranded location)."""
    props = ("C02", "C19")

    def __init__(self, op, n, tier="quick"):
        self.op, self.n, self.tier = op, n, tier
        self.func = COMPOUND + "." + op
        self.name = f"CompoundInterval.{op}[{n} blocks that may overlap or nest, all coordinates]"
        A = lambda i, p: cov(i.as_, i.ae, p)  # noqa
        lo = lambda i: i.as_[0]  # noqa  (sorted by start)
        hi = lambda i: _maxl(i.ae)  # noqa
        gaps = lambda i: And(lo(i) <= i.p, i.p < hi(i), Not(A(i, i.p)))  # noqa
        if op == "gap_list":
            self.call = "a.gap_list()"
            self.ensures = {
                "position-set-is-span-minus-blocks": lambda i, r: Iff(Or(False, *[covers_pos(g, i.p) for g in r]), gaps(i)),
                "gaps-non-empty-ordered-single-intervals": lambda i, r: And(True, *(
                    [And(class_name(g) == "SingleInterval", g.start < g.end) for g in r] +
                    # listed 5' -> 3' (scan_blocks order): ascending on the plus strand, descending on the minus strand
                    [(g2.end < g1.start) if i.minus else (g1.end < g2.start) for g1, g2 in zip(list(r), list(r)[1:])])),
            }
        elif op == "gaps_location":
            self.call = "a.gaps_location()"
            self.ensures = {"position-set-is-span-minus-blocks": lambda i, r: Iff(covers_pos(r, i.p), gaps(i)),
                            "well-formed": lambda i, r: wf_result(r, optimized=False)}
        elif op == "extend_absolute":
            self.call = "a.extend_absolute(x, y)"
            self.raises = {"ValueError": lambda i: Or(i.x < 0, i.y < 0),
                           "InvalidPositionException": lambda i: And(i.x >= 0, i.y >= 0, i.x > lo(i))}
            self.ensures = {"position-set": lambda i, r: Iff(covers_pos(r, i.p), Or(
                A(i, i.p), And(lo(i) - i.x <= i.p, i.p < lo(i)), And(hi(i) <= i.p, i.p < hi(i) + i.y))),
                "normalised": lambda i, r: wf_result(r)}
        elif op == "extend_relative":
            self.call = "a.extend_relative(x, y)"
            left = lambda i: i.x if i.plus else i.y  # noqa
            right = lambda i: i.y if i.plus else i.x  # noqa
            self.raises = {"InvalidStrandException": lambda i: i.unstranded,
                           "ValueError": lambda i: And(not i.unstranded, Or(i.x < 0, i.y < 0)),
                           "InvalidPositionException": lambda i: And(not i.unstranded, i.x >= 0, i.y >= 0, left(i) > lo(i))}
            self.ensures = {"position-set": lambda i, r: Iff(covers_pos(r, i.p), Or(
                A(i, i.p), And(lo(i) - left(i) <= i.p, i.p < lo(i)), And(hi(i) <= i.p, i.p < hi(i) + right(i)))),
                "normalised": lambda i, r: wf_result(r)}
        elif op == "shift_position":
            self.call = "a.shift_position(x)"
            self.raises = {"InvalidPositionException": lambda i: lo(i) + i.x < 0}
            self.ensures = {"position-set-shifted": lambda i, r: Iff(covers_pos(r, i.p), A(i, i.p - i.x)),
                            "blocks-and-strand-kept": lambda i, r: And(
                                len(blocks_of(r)) == self.n, _same_strand(r, i.a), wf_result(r, optimized=False))}
        elif op == "reverse":
            self.call = "a.reverse()"
            self.ensures = {"position-set-reflected-in-the-span": lambda i, r: Iff(
                covers_pos(r, i.p), A(i, lo(i) + hi(i) - 1 - i.p)),
                "span-kept-strand-reversed": lambda i, r: And(r.start == lo(i), r.end == hi(i), _reversed_strand(r, i.a))}
        elif op == "is_contiguous":
            self.props = ("C02", "C19", "C03")  # extraction / slicing decisions hang on these two flags
            self.call = "(a.is_contiguous, a.is_overlapping)"
            # documented on the abstract class: contiguous = no gaps between CONSECUTIVE blocks (each block starts where
            # the previous one ends); overlapping = two blocks share a position
            self.ensures = {
                "contiguous-iff-every-block-starts-where-the-previous-ends": lambda i, r: Iff(
                    _tb(r[0]), And(*[i.as_[k + 1] == i.ae[k] for k in range(self.n - 1)])),
                "overlapping-iff-two-blocks-share-a-position": lambda i, r: Iff(_tb(r[1]), _self_overlap(i.as_, i.ae)),
            }
        elif op == "merge_overlapping":
            self.call = "a.merge_overlapping()"
            self.ensures = {"position-set-kept": lambda i, r: Iff(covers_pos(r, i.p), A(i, i.p)),
                            "no-two-blocks-overlap": lambda i, r: And(True, *[
                                e1 <= s2 for (s1, e1), (s2, e2) in zip(blocks_of(r), blocks_of(r)[1:])]),
                            "strand-kept": lambda i, r: _same_strand(r, i.a)}
        else:
            raise ValueError(op)

    def inputs(self, S):
        # gaps are "ordered relative to the strand": precondition directional strand (an unstranded location with two
        # separate blocks is refused with InvalidStrandException by scan_blocks - covered by the C19 API sweep)
        strand = strand_of(S, "strand", directed=self.op in ("gap_list", "gaps_location"))
        a, as_, ae = loc(S, "a", self.n, strand, allow_overlap=True)
        name = strand.members[strand.idx][0] if hasattr(strand, "members") else strand.name
        return NS(a=a, as_=as_, ae=ae, p=S.int("p"), x=S.int("x"), y=S.int("y"), plus=name == "PLUS",
                  minus=name == "MINUS", unstranded=name == "UNSTRANDED")

    def samples(self, rng):
        d = sample_blocks(rng, "a", self.n, lo=2)
        if rng.random() < 0.5 and self.n >= 2:  # nest / overlap the second block
            d["a_ends"][0] = d["a_ends"][1] + rng.choice([-1, 0, 2]) if d["a_ends"][1] - 1 > d["a_starts"][0] else d["a_ends"][0]
        d.update(strand=rng.choice(["PLUS", "MINUS"] + ([] if self.op in ("gap_list", "gaps_location") else ["UNSTRANDED"])),
                 p=rng.randint(0, 16), x=rng.randint(-1, 4), y=rng.randint(-1, 4))
        return d

    def observe(self, r):
        if self.op == "is_contiguous":
            return [bool(x) for x in r]
        if isinstance(r, (list, tuple)):
            return [obs_loc(g) for g in r]
        return obs_loc(r)


def _tb(x):
    """truth value of a flag returned by the code (python bool or solver term)"""
    return x


def _maxl(xs):
    m = xs[0]
    for x in xs[1:]:
        m = Max(m, x)
    return m


def _strand_name(st):
    return st.members[st.idx][0] if hasattr(st, "members") else st.name


def _same_strand(r, a):
    return _strand_name(r.strand) == _strand_name(a.strand)


def _reversed_strand(r, a):
    return _strand_name(r.strand) == {"PLUS": "MINUS", "MINUS": "PLUS", "UNSTRANDED": "UNSTRANDED"}[_strand_name(a.strand)]


def isect_size(as_, ae, bs, be):
    return sum((Max(0, Min(e1, e2) - Max(s1, s2)) for s1, e1 in zip(as_, ae) for s2, e2 in zip(bs, be)), 0)


class RelativeLocationForm(Case):
    """q.location_relative_to(loc) (= loc.parent_to_relative_location(q)) with loc compound: every parent position
    lying in both is represented by its point-wise relative position, the result has exactly as many bases as the
    overlap (with injectivity of parent_to_relative_pos - C01 inverse lemma - that makes it exactly the image), the
    strand is the composition, and non-overlapping operands are refused."""
    props = ("C01",)
    func = COMPOUND + "._location_relative_to"

    def __init__(self, nq, nl, optimize=True, overlapping_query=False, loc_empties=False):
        self.nq, self.nl, self.optimize, self.ovq, self.loc_empties = nq, nl, optimize, overlapping_query, loc_empties
        self.tier = "thorough" if (nq + nl >= 4 and not loc_empties) else "quick"
        self.name = (f"location_relative_to[query {nq} block(s) -> location {nl} blocks, optimize_blocks={optimize}, "
                     + ("query blocks may overlap each other (multiplicity kept), " if overlapping_query else "")
                     + ("location may contain zero-length blocks, " if loc_empties else "")
                     + "all coordinates]")
        self.call = f"(q.location_relative_to(loc, optimize_blocks={optimize}), loc.parent_to_relative_pos(p))"
        self.module = "location.location_impl"
        self.ensures = {
            "point-wise-image": lambda i, r: covers_pos(r[0], r[1]),
            "size=overlap": lambda i, r: r[0].length == isect_size(i.qs, i.qe, i.ls, i.le) if self.optimize else True,
            "strand-composed": lambda i, r: (Iff(r[0].strand.idx == 0, i.qstrand.idx == i.lstrand.idx)
                                             if hasattr(i.qstrand, "idx")
                                             else (r[0].strand.name == "PLUS") == (i.qstrand is i.lstrand)),
            "in-range": lambda i, r: And(0 <= r[0].start, r[0].end <= sum((e - s for s, e in zip(i.ls, i.le)), 0)),
        }

    def inputs(self, S):
        qstrand, lstrand = strand_of(S, "qstrand"), strand_of(S, "lstrand")
        q, qs, qe = loc(S, "q", self.nq, qstrand, allow_overlap=getattr(self, "ovq", False))
        l, ls, le = loc(S, "loc", self.nl, lstrand, nonempty=not getattr(self, "loc_empties", False))
        p = S.int("p")
        if getattr(self, "needs_common", True):
            S.assume(And(cov(qs, qe, p), cov(ls, le, p)))
        return NS(q=q, loc=l, qs=qs, qe=qe, ls=ls, le=le, p=p, qstrand=qstrand, lstrand=lstrand)

    def samples(self, rng):
        d = sample_blocks(rng, "q", self.nq, length=(1, 2, 4, 9))
        d.update(sample_blocks(rng, "loc", self.nl, length=(0, 1, 2, 4) if getattr(self, "loc_empties", False) else (1, 2, 4)))
        both = [p for p in range(0, 40) if any(s <= p < e for s, e in zip(d["q_starts"], d["q_ends"]))
                and any(s <= p < e for s, e in zip(d["loc_starts"], d["loc_ends"]))]
        d.update(qstrand=rng.choice(["PLUS", "MINUS"]), lstrand=rng.choice(["PLUS", "MINUS"]),
                 p=rng.choice(both) if both else 0)
        return d

    def observe(self, r):
        return [obs_loc(r[0])[:3], r[1]]


class RelativeLocationRefusal(Case):
    props = ("C01", "C19")
    func = "location.location.Location.location_relative_to"
    needs_common = False

    def __init__(self, nq, nl):
        self.nq, self.nl = nq, nl
        self.tier = "thorough" if nq + nl >= 4 else "quick"
        self.name = f"location_relative_to[query {nq} -> location {nl} blocks]: refused iff no common base"
        self.call = "q.location_relative_to(loc)"
        self.module = "location.location_impl"
        self.raises = {"LocationOverlapException": lambda i: isect_size(i.qs, i.qe, i.ls, i.le) == 0}
        self.ensures = {"non-empty": lambda i, r: r.length >= 1}

    inputs = RelativeLocationForm.inputs
    samples = RelativeLocationForm.samples

    def observe(self, r):
        return obs_loc(r)[:3]


CASES = [PairAlgebra(na, nb, op) for op in ("intersection", "minus", "union", "has_overlap", "contains")
         for na, nb in ((2, 1), (1, 2), (2, 2), (3, 2))]
CASES += [PairAlgebra(na, nb, op) for op in ("has_overlap_full_span", "intersection_full_span")
          for na, nb in ((2, 1), (1, 2), (2, 2))]
# operands whose own blocks overlap or nest (difference and containment are not claimed for them: C02 quantifier)
CASES += [PairAlgebra(na, nb, op, overlap=True) for op in ("intersection", "union", "has_overlap")
          for na, nb in ((1, 3), (2, 2))]
CASES[-3].shard_depth = 6  # union 2 x 2 overlapping: ~1000 paths
# compound x compound with a hit - miss - hit pattern in the second operand's (start-sorted, nested) blocks
CASES += [PairAlgebra(2, 3, "intersection", overlap="b")]
CASES[-1].shard_depth = 6
CASES[-1].tier = "quick"
CASES += [PairAlgebra(na, nb, "distance_inner") for na, nb in ((2, 2), (3, 2))]
CASES[-1].tier = "quick"
CASES += [CompoundIntervalForm(2), CompoundIntervalForm(3), CompoundIntervalForm(4)]
CASES += [CompoundIntervalFormMinus(2), CompoundIntervalFormMinus(3)]
CASES += [RelativeLocationForm(1, 2), RelativeLocationForm(2, 2), RelativeLocationForm(1, 3),
          RelativeLocationForm(2, 2, optimize=False), RelativeLocationForm(3, 2),
          RelativeLocationForm(2, 1, overlapping_query=True), RelativeLocationForm(2, 2, overlapping_query=True),
          RelativeLocationRefusal(1, 2), RelativeLocationRefusal(2, 2),
          RelativeLocationForm(1, 3, loc_empties=True), PairAlgebra(3, 1, "intersection", empties=True)]
CASES += [CompoundUnary(op, 2) for op in ("gap_list", "gaps_location", "extend_absolute", "extend_relative", "shift_position",
                                          "reverse", "merge_overlapping", "is_contiguous")]
CASES += [CompoundUnary("is_contiguous", 3)]
CASES += [CompoundUnary(op, 3, tier="thorough") for op in ("gap_list", "gaps_location", "extend_absolute", "shift_position",
                                                           "reverse", "merge_overlapping")]
