#!/usr/bin/env python3
"""Regenerate DESIGN.md section 9 (seeded changes vs checks) from seeded/MATRIX.json and the seeds' meta.json."""
import json, os, re

HERE = os.path.dirname(os.path.dirname(os.path.abspath(__file__)))
M = json.load(open(os.path.join(HERE, "seeded", "MATRIX.json")))
names = sorted(d for d in os.listdir(os.path.join(HERE, "seeded")) if os.path.isdir(os.path.join(HERE, "seeded", d)))
MISSED_TEXT = open(os.path.join(HERE, "seeded", "STRENGTHENED.md")).read().strip()


def how(first):
    if "bounded__" in first:
        return "bounded tier"
    if "frame___kind" in first or "frame_conditions" in first or "order_obligations" in first:
        return "static frame/order obligation"
    if first.startswith("CHECKER-ERROR"):
        return "proof obligation (+ vacuity guard)"
    return "proof obligation"


rows = []
caught = 0
for n in names:
    meta = json.load(open(os.path.join(HERE, "seeded", n, "meta.json")))
    m = M.get(n, {})
    c = bool(m.get("caught"))
    caught += c
    first = m.get("first", "")
    rp = re.search(r"replay=\S*/([^/\s]+)\.[0-9a-f]{10}\.json", first)
    ob = rp.group(1)[:70] if rp else first[:70]
    nfi = " (no-failing-input-found)" if "no-failing-input-found" in first else ""
    needs = " ".join(meta.get("needs_to_manifest", "").split())[:150]
    rnd = "2" if n[-1] in "cd" else "1"
    rows.append(f"| {n} | {rnd} | {needs} | {'yes (' + how(first) + ')' + nfi if c else 'NO'} | `{ob}` |")

text = f"""## 9. Seeded changes vs checks (tools/seed_matrix.py, quick tier, scratch worktree of the fixed tree)

{caught} of {len(names)} seeded changes are reported as a VIOLATION by the quick check of their property (exit 1); none of them is visible to the pinned test suite (each keeps `1466 passed, 16 errors`). Round 1 (-a/-b) and round 2 (-c/-d: the authors were asked to avoid the obvious anchor functions) were written by fresh sub-agents that saw only the property text and a scratch worktree. 'proof obligation' = refuted symbolic / ground obligation with a counter-model replayed natively; 'bounded tier' = found by the native small-scope contract evaluation only; 'static' = refuted frame / order / identity obligation (no input exists for these: the VIOLATION line ends with no-failing-input-found).

{MISSED_TEXT}

| seed | round | needs to manifest | caught (by) | first failing obligation (replay file) |
|---|---|---|---|---|
""" + "\n".join(rows) + "\n"
p = os.path.join(HERE, "DESIGN.md")
s = open(p).read()
i = s.index("## 9. Seeded changes vs checks")
open(p, "w").write(s[:i] + text)
print(f"section 9 regenerated: {caught}/{len(names)}")
