"""C01 — CompoundInterval coordinate maps for ANY number of blocks (symbolic block count, loop invariants over
prefix sums; DESIGN 5/C01, Appendix A.5)."""
from pyvc.spec import *  # noqa
from pyvc.sources import NS
from .common import *  # noqa
from . import lib

Q = "location.location_impl.CompoundInterval."


# ---- loop invariant: parent_to_relative_pos -------------------------------------------------------------------
def _p2r_inv(interp, ns, k, frame):
    V = view(frame.lookup("self")[1])
    p = frame.lookup("parent_pos")[1]
    return And(0 <= k, k <= V.n, ns.rel_pos == V.pre(k),
               ForAllRange(0, k, lambda j: Not(V.covers(V.ord(j), p)), "pj"))


def _p2r_hints(interp, ns, k, frame):
    V = view(frame.lookup("self")[1])
    return And(V.unfold(k), V.mono(k + 1, V.n), V.mono(0, k))


lib.LOOPS[(Q + "parent_to_relative_pos", 0)] = LoopSpec({"rel_pos": "int"}, _p2r_inv, "blocks", hints=_p2r_hints)


def _gk(i, qual, ordinal=0):
    """ghost: index of the loop iteration in which the path left the loop (symbolic mode only)."""
    g = getattr(i, "ghost", None) or {}
    return g.get(f"{qual}/loop{ordinal}/k")


def _hint_succ(V, k):
    if k is None:
        return True
    return V.pre(k + 1) <= V.pre(V.n)


class CP2R(Case):
    scopes = (1, 2, 3)
    props = ("C01", "C19") + GENE_LAYER
    name = "CompoundInterval.parent_to_relative_pos[any number of blocks]"
    func = Q + "parent_to_relative_pos"
    call = "self.parent_to_relative_pos(p)"
    loops = ((Q + "parent_to_relative_pos", 0),)
    raises = {
        "InvalidPositionException": lambda i: ForAllRange(0, i.V.n, lambda j: Not(i.V.covers(i.V.ord(j), i.p)), "rj"),
    }
    ensures = {
        "first-containing-block": lambda i, r: ExistsRange(
            0, i.V.n,
            lambda k: And(i.V.covers(i.V.ord(k), i.p),
                          ForAllRange(0, k, lambda j: Not(i.V.covers(i.V.ord(j), i.p)), "fj"),
                          r == i.V.pre(k) + i.V.offset(i.V.ord(k), i.p)),
            witness=_gk(i, Q + "parent_to_relative_pos")),
        # the second conjunct only puts the term pre(k+1) in front of the solver (trigger for the prefix-sum axioms)
        "range": lambda i, r: And(0 <= r, r < i.V.pre(i.V.n), _hint_succ(i.V, _gk(i, Q + "parent_to_relative_pos"))),
    }

    def inputs(self, S):
        c, V = compound(S, "self")
        return NS(self=c, V=V, p=S.int("p"))

    def samples(self, rng):
        d = sample_compound(rng, "self")
        d["p"] = rng.randint(-1, 25)
        return d


def sample_compound(rng, name, directed=True, maxn=4):
    n = rng.randint(1, maxn)
    strand = rng.choice(["PLUS", "MINUS"] if directed else ["PLUS", "MINUS", "UNSTRANDED"])
    blocks = []
    for _ in range(n):
        s = rng.randint(0, 18)
        blocks.append((s, s + rng.choice([0, 1, 2, 3, 5])))
    if strand == "PLUS":
        blocks.sort(key=lambda x: (x[0], x[1]))
    else:
        blocks.sort(key=lambda x: (x[0], -x[1]))
    return {name + "_starts": [b[0] for b in blocks], name + "_ends": [b[1] for b in blocks],
            name + "_strand": strand}


# ---- relative_to_parent_pos and its recursive helper do_work --------------------------------------------------
DW = Q + "relative_to_parent_pos.<locals>.do_work"


def _base(V, kk, off):
    """Parent position of the off-th base of the kk-th block in 5'->3' order."""
    return If(is_plus(V.obj.strand), V.S(V.ord(kk)) + off, V.E(V.ord(kk)) - 1 - off)


def do_work_summary(interp, args, kwargs):
    """Contract of the nested recursive function do_work(rel_pos, _starts, _ends), used at the recursive call.
    requires  both iterators walk the stored starts / ends in 5'->3' order and stand at the same cursor c <= n,
              0 <= rel_pos < pre(n) - pre(c)
    ensures   result = parent position of relative base pre(c) + rel_pos (block kk >= c with
              pre(kk) <= pre(c)+rel_pos < pre(kk+1))
    decreases n - c   (checked at the call: the cursor has advanced)"""
    import z3
    fv = interp.current_callee
    selfv = fv.closure.lookup("self")[1]
    V = view(selfv)
    rel_pos, it_s, it_e = args
    c = it_s.cursor
    n = V.n
    j = interp.fresh_int("dj")
    interp.prove(DW + "/call-pre:iterators-in-5p3p-order",
                 And(it_s.seq.length == n, it_e.seq.length == n,
                     z3.ForAll([j], z3.Implies(z3.And(j >= 0, j < n),
                                               z3.And(it_s.seq.get(j) == V.S(V.ord(j)),
                                                      it_e.seq.get(j) == V.E(V.ord(j)))))))
    interp.prove(DW + "/call-pre:same-cursor", And(it_e.cursor == c, 0 <= c, c <= n))
    interp.prove(DW + "/call-pre:rel_pos-in-remaining-blocks", And(0 <= rel_pos, rel_pos < V.pre(n) - V.pre(c)))
    entry = interp.ghost.get("do_work_entry_cursor")
    if entry is not None:
        interp.prove(DW + "/decreases:n-cursor", c > entry)
    kk = interp.fresh_int("kk")
    res = interp.fresh_int("dw_result")
    interp.assume(And(V.unfold(c - 1), V.unfold(kk)))  # instances of the prefix-sum axioms (instantiation hints)
    interp.assume(And(c <= kk, kk < n, V.pre(kk) <= V.pre(c) + rel_pos, V.pre(c) + rel_pos < V.pre(kk + 1),
                      res == _base(V, kk, V.pre(c) + rel_pos - V.pre(kk))))
    interp.ghost["do_work_kk"] = kk
    it_s.cursor = kk + 1
    it_e.cursor = kk + 1
    return res


lib.SUMMARIES[DW] = do_work_summary
lib.LIB.setdefault("recursive_only", set()).add(DW)


class CR2P(Case):
    scopes = (1, 2, 3)
    props = ("C01", "C19") + GENE_LAYER
    name = "CompoundInterval.relative_to_parent_pos[any number of blocks]"
    func = Q + "relative_to_parent_pos"
    call = "self.relative_to_parent_pos(r)"
    summaries = (DW,)
    raises = {"InvalidPositionException": lambda i: Or(i.r < 0, i.r >= i.V.pre(i.V.n))}
    ensures = {
        "r-th-base-5p-to-3p": lambda i, r: ExistsRange(
            0, i.V.n, lambda kk: And(i.V.pre(kk) <= i.r, i.r < i.V.pre(kk + 1),
                                     r == _base(i.V, kk, i.r - i.V.pre(kk))),
            witness=_r2p_witness(i)),
    }

    def inputs(self, S):
        c, V = compound(S, "self")
        return NS(self=c, V=V, r=S.int("r"))

    def samples(self, rng):
        d = sample_compound(rng, "self")
        d["r"] = rng.randint(-1, 12)
        return d


def _r2p_witness(i):
    g = getattr(i, "ghost", None) or {}
    if "do_work_kk" in g:
        return g["do_work_kk"]
    if g:
        return 0  # returned from the first (inlined) activation: block 0 in 5'->3' order
    return None


class DoWorkStep(Case):
    """Induction step for do_work: the body, started at an ARBITRARY cursor c under the contract's precondition,
    satisfies the contract's postcondition (the recursive call is replaced by the contract)."""
    props = ("C01",)
    name = "CompoundInterval.relative_to_parent_pos.do_work[induction step, arbitrary cursor]"
    func = Q + "relative_to_parent_pos"
    call = "do_work(rel_pos, it_s, it_e)"
    summaries = (DW,)
    native = False
    ensures = {
        "contract-post": lambda i, r: ExistsRange(
            0, i.V.n, lambda kk: And(i.c <= kk, i.V.pre(kk) <= i.V.pre(i.c) + i.rel_pos,
                                     i.V.pre(i.c) + i.rel_pos < i.V.pre(kk + 1),
                                     r == _base(i.V, kk, i.V.pre(i.c) + i.rel_pos - i.V.pre(kk))),
            witness=(i.ghost.get("do_work_kk", i.c))),
    }

    def inputs(self, S):
        from pyvc.values import SymIter, LazySeq
        cobj, V = compound(S, "self")
        c = S.int("c")
        rel_pos = S.int("rel_pos")
        n = V.n
        S.assume(And(0 <= c, c <= n, 0 <= rel_pos, rel_pos < V.pre(n) - V.pre(c)))
        plus = cobj.strand.name == "PLUS"
        it_s = SymIter(LazySeq(n, lambda j: V.S(V.ord(j)), "starts-5p3p"), c)
        it_e = SymIter(LazySeq(n, lambda j: V.E(V.ord(j)), "ends-5p3p"), c)
        S.e.ghost["do_work_entry_cursor"] = c
        fn = S.nested_fn(Q + "relative_to_parent_pos", "do_work", dict(self=cobj, plus_strand=plus))
        return NS(self=cobj, V=V, c=c, rel_pos=rel_pos, it_s=it_s, it_e=it_e, do_work=fn)


# ---- callee contracts (summaries) of the two point maps, proved above against the real bodies -----------------
def p2r_summary(interp, args, kwargs):
    """Contract of CompoundInterval.parent_to_relative_pos (cases CP2R prove it for the real body)."""
    from pyvc.values import PyExc, Unsupported
    selfv, p = args[0], args[1] if len(args) > 1 else kwargs["parent_pos"]
    if "$pre" not in selfv.attrs:
        raise Unsupported("p2r summary on a compound interval without spec functions")
    V = view(selfv)
    none = ForAllRange(0, V.n, lambda j: Not(V.covers(V.ord(j), p)), "sj")
    if interp.decide([Not(none), none]) == 1:
        raise PyExc("InvalidPositionException")
    k = interp.fresh_int("p2r_k")
    interp.assume(And(0 <= k, k < V.n, V.covers(V.ord(k), p),
                      ForAllRange(0, k, lambda j: Not(V.covers(V.ord(j), p)), "sf")))
    interp.assume(And(V.unfold(k), V.mono(k + 1, V.n), V.mono(0, k)))
    interp.ghost["p2r_k"] = k
    return V.pre(k) + V.offset(V.ord(k), p)


def r2p_summary(interp, args, kwargs):
    """Contract of CompoundInterval.relative_to_parent_pos (cases CR2P + DoWorkStep prove it for the real body)."""
    from pyvc.values import PyExc, Unsupported
    selfv, r = args[0], args[1] if len(args) > 1 else kwargs["relative_pos"]
    if "$pre" not in selfv.attrs:
        raise Unsupported("r2p summary on a compound interval without spec functions")
    V = view(selfv)
    if interp.branch(Or(r < 0, r >= V.pre(V.n))):
        raise PyExc("InvalidPositionException")
    kk = interp.fresh_int("r2p_kk")
    interp.assume(And(0 <= kk, kk < V.n, V.pre(kk) <= r, r < V.pre(kk + 1)))
    interp.assume(And(V.unfold(kk), V.mono(kk + 1, V.n), V.mono(0, kk)))
    interp.ghost["r2p_kk"] = kk
    return _base(V, kk, r - V.pre(kk))


lib.SUMMARIES[Q + "parent_to_relative_pos"] = p2r_summary
lib.SUMMARIES[Q + "relative_to_parent_pos"] = r2p_summary


class CInverse1(Case):
    """r2p(p2r(p)) = p for every covered parent position, for every layout (overlapping and empty blocks too)."""
    props = ("C01",)
    name = "CompoundInterval lemma: relative_to_parent_pos(parent_to_relative_pos(p)) = p"
    func = Q + "relative_to_parent_pos"
    call = "self.relative_to_parent_pos(self.parent_to_relative_pos(p))"
    summaries = (Q + "parent_to_relative_pos", Q + "relative_to_parent_pos")  # lemma over the two contracts
    raises = {"InvalidPositionException": lambda i: ForAllRange(0, i.V.n, lambda j: Not(i.V.covers(i.V.ord(j), i.p)),
                                                                "rj")}
    ensures = {"identity": lambda i, r: r == i.p}

    def inputs(self, S):
        c, V = compound(S, "self")
        return NS(self=c, V=V, p=S.int("p"))

    def samples(self, rng):
        d = sample_compound(rng, "self")
        d["p"] = rng.randint(0, 24)
        return d


def disjoint_blocks(V):
    """stored blocks pairwise disjoint: every earlier block (storage order) ends at or before a later one starts."""
    n = V.n
    if not isinstance(n, int):
        import z3
        j, i = z3.Int("dj!j"), z3.Int("dj!i")
        return z3.ForAll([j, i], z3.Implies(z3.And(0 <= j, j < i, i < n), V.E(j) <= V.S(i)),
                         patterns=[z3.MultiPattern(V.E(j), V.S(i))])
    return all(V.E(j) <= V.S(i) for i in range(n) for j in range(i))


class CInverse2(Case):
    """p2r(r2p(r)) = r for every relative position when the blocks do not overlap each other."""
    props = ("C01",)
    name = "CompoundInterval lemma: parent_to_relative_pos(relative_to_parent_pos(r)) = r [disjoint blocks]"
    func = Q + "parent_to_relative_pos"
    call = "self.parent_to_relative_pos(self.relative_to_parent_pos(r))"
    summaries = (Q + "parent_to_relative_pos", Q + "relative_to_parent_pos")  # lemma over the two contracts
    raises = {"InvalidPositionException": lambda i: Or(i.r < 0, i.r >= i.V.pre(i.V.n))}
    ensures = {"identity": lambda i, r: r == i.r}

    def inputs(self, S):
        c, V = compound(S, "self")
        S.assume(disjoint_blocks(V))
        return NS(self=c, V=V, r=S.int("r"))

    def samples(self, rng):
        d = sample_compound(rng, "self")
        d["r"] = rng.randint(-1, 12)
        return d


CASES = [CP2R(), CR2P(), DoWorkStep(), CInverse1(), CInverse2()]
LIB = lib.LIB
