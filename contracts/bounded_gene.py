"""BOUNDED stand-ins for C05 / C07: whole CDS objects against the reading-frame reference model and whole-object
chunk twins, evaluated natively over an exhaustively enumerated small scope."""
import itertools

from pyvc.spec import *  # noqa
from pyvc.sources import NS

CDS = "gene.cds.CDSInterval"
FRAME = "gene.cds_frame.CDSFrame"
STRAND = "location.strand.Strand"
COMP = {"A": "T", "C": "G", "G": "C", "T": "A"}
TABLE = dict(zip([a + b + c for a in "TCAG" for b in "TCAG" for c in "TCAG"],
                 "FFLLSSSSYY**CC*WLLLLPPPPHHQQRRRRIIIMTTTTNNKKSSRRVVVVAAAADDEEGGGG"))
GENOME = "ATGCCGTAAGCTTGAACGTTAGCATG"


def exon_layouts(L, kmax, lens=(1, 2, 3, 4), gaps=(0, 1, 2), first=(1, 2)):
    out = []
    for k in range(1, kmax + 1):
        for f in first:
            for ls in itertools.product(lens, repeat=k):
                for gs in itertools.product(gaps, repeat=k - 1):
                    pos = f
                    bl = []
                    for j in range(k):
                        bl.append((pos, pos + ls[j]))
                        pos += ls[j] + (gs[j] if j < k - 1 else 0)
                    if bl[-1][1] <= L:
                        out.append(bl)
    return out


def cds_positions(blocks, strand):
    """chromosome positions of the CDS bases 5'->3', with the exon index of each."""
    out = []
    order = list(range(len(blocks))) if strand == "PLUS" else list(range(len(blocks) - 1, -1, -1))
    for k in order:
        s, e = blocks[k]
        rng = range(s, e) if strand == "PLUS" else range(e - 1, s - 1, -1)
        out += [(p, k) for p in rng]
    return out


def model_codons(blocks, strand, frames5, flat_only=False):
    """reference model of the statement: complete codons as lists of 3 chromosome positions (5'->3').
    frames5: annotated frame values per exon in 5'->3' order."""
    order = list(range(len(blocks))) if strand == "PLUS" else list(range(len(blocks) - 1, -1, -1))
    kept = []  # list of lists (one per exon) of positions kept
    nf = 0
    for idx, k in enumerate(order):
        s, e = blocks[k]
        pos = list(range(s, e)) if strand == "PLUS" else list(range(e - 1, s - 1, -1))
        f = frames5[idx]
        if nf != f:
            pos = pos[f:]
            total = sum(len(x) for x in kept)
            shift = total % 3
            # drop the incomplete codon accumulated so far
            j = len(kept) - 1
            while shift > 0 and j >= 0:
                d = min(shift, len(kept[j]))
                kept[j] = kept[j][:len(kept[j]) - d]
                shift -= d
                j -= 1
            nf = 0
        if not pos:
            continue
        kept.append(pos)
        nf = (nf + len(pos)) % 3
    flat = [p for x in kept for p in x]
    if flat_only:
        return flat
    return [flat[i:i + 3] for i in range(0, len(flat) - len(flat) % 3, 3)]


def consistent_frames(blocks, strand, f0):
    order = list(range(len(blocks))) if strand == "PLUS" else list(range(len(blocks) - 1, -1, -1))
    fr, pre = [], 0
    for idx, k in enumerate(order):
        fr.append(f0 if idx == 0 else (pre - f0) % 3)
        pre += blocks[k][1] - blocks[k][0]
    return fr


def codon_text(genome, codon, strand):
    t = "".join(genome[p] for p in codon)
    return t if strand == "PLUS" else "".join(COMP[c] for c in t)


def loc_positions(loc):
    """positions of a real location 5'->3'."""
    if type(loc).__name__ == "_EmptyLocation":
        return []
    out = []
    bl = list(loc.blocks)
    if loc.strand.name == "MINUS":
        for b in reversed(bl):
            out += list(range(b.end - 1, b.start - 1, -1))
    else:
        for b in bl:
            out += list(range(b.start, b.end))
    return out


def mk_cds(S, blocks, strand, frames5, parent=None):
    st = S.cls(STRAND)[strand]
    F = S.cls(FRAME)
    fr = [F(v) for v in frames5]
    if strand == "MINUS":
        fr = fr[::-1]
    return S.new(CDS, [b[0] for b in blocks], [b[1] for b in blocks], st, fr, parent_or_seq_chunk_parent=parent)


def _over_trim(blocks, strand, frames5):
    """known finding F-C05-1: a frameshift whose incomplete codon is longer than the previous kept block."""
    order = list(range(len(blocks))) if strand == "PLUS" else list(range(len(blocks) - 1, -1, -1))
    kept, nf = [], 0
    for idx, k in enumerate(order):
        n = blocks[k][1] - blocks[k][0]
        f = frames5[idx]
        start = 0
        if nf != f:
            start = f
            shift = sum(kept) % 3
            if kept and shift > kept[-1]:
                return True
            if kept:
                kept[-1] -= shift
            nf = 0
        if start >= n:
            continue
        kept.append(n - start)
        nf = (nf + n - start) % 3
    return False


class CdsModel(Case):
    """codon locations, both extract_sequence paths, scan_codons and translate describe the codons of the model."""
    props = ("C05",)
    proved = False
    name = "bounded: CDS codons / sequence / translation = reading-frame reference model"
    func = CDS + ".translate"
    scope = "all CDS with <= 3 exons (lengths 1-4, gaps 0-2) on a 26 bp genome, both strands, all start offsets, " \
            "frame vectors: consistent ones and every single-exon frameshift (quick) / all frame vectors (thorough)"
    call = ("(lambda c: (list(c.chromosome_codon_locations), str(c.extract_sequence()), [str(x) for x in c.scan_codons()], "
            "str(c.translate(strict=True)), c.num_codons, "
            "(lambda _: str(c.extract_sequence()))(c.chunk_relative_codon_locations)))(cds)")
    raises = {
        # nothing complete survives: ValueError from from_single_intervals([]) (empty list of blocks)
        "ValueError": lambda i: False,
        "InvalidPositionException": lambda i: i.over_trim,
    }
    known_raises = {"InvalidPositionException": "F-C05-1"}
    allow_uncovered = ("raise:ValueError", "raise:InvalidPositionException")
    ensures = {
        "codon-locations": lambda i, r: [loc_positions(x) for x in r[0]] == i.codons,
        "sequence-is-concatenated-codons": lambda i, r: r[1].upper() == "".join(i.texts),
        "length-multiple-of-three": lambda i, r: len(r[1]) % 3 == 0,
        "scan-codons": lambda i, r: r[2] == i.texts,
        "translation": lambda i, r: r[3] == i.protein,
        "num-codons": lambda i, r: r[4] == len(i.codons),
        "cached-path-same-text": lambda i, r: r[5].upper() == r[1].upper(),
    }

    def inputs(self, S):
        blocks = [tuple(b) for b in S.const("blocks")]
        strand, fr = S.const("strand"), S.const("frames")
        codons = model_codons(blocks, strand, fr)
        S.assume(len(codons) >= 1)
        from inscripta.biocantor.io.parser import seq_to_parent
        parent = seq_to_parent(GENOME)
        cds = mk_cds(S, blocks, strand, fr, parent)
        texts = [codon_text(GENOME, c, strand) for c in codons]
        prot = "".join(("M" if (k == 0 and t == "ATG") else TABLE[t]) for k, t in enumerate(texts))
        return NS(cds=cds, codons=codons, texts=texts, protein=prot, over_trim=_over_trim(blocks, strand, fr))

    def domain(self, tier):
        for bl in exon_layouts(len(GENOME), 3, lens=(1, 2, 4) if tier == "quick" else (1, 2, 3, 4)):
            for strand in ("PLUS", "MINUS"):
                for f0 in (0, 1, 2):
                    base = consistent_frames(bl, strand, f0)
                    yield dict(blocks=bl, strand=strand, frames=base)
                    if tier == "quick":
                        for k in range(1, len(bl)):
                            for v in (0, 1, 2):
                                if v != base[k]:
                                    fr = list(base)
                                    fr[k] = v
                                    yield dict(blocks=bl, strand=strand, frames=fr)
                if tier != "quick":
                    for fr in itertools.product((0, 1, 2), repeat=len(bl)):
                        yield dict(blocks=bl, strand=strand, frames=list(fr))


class WindowedCodons(Case):
    """scan_chromosome_codon_locations restricted to a chromosome window yields exactly the codons of the reference
    model that lie completely inside the window (the window may start inside the CDS, after a non-zero start frame)."""
    props = ("C05",)
    proved = False
    name = "bounded: codon scan restricted to a chromosome window = model codons completely inside the window"
    func = CDS + ".scan_chromosome_codon_locations"
    scope = "all CDS with 2-3 exons (single-exon windows are decided by the proved single-exon window case, which carries " \
            "known finding F-C07-1 - the same site is reached through the window arguments, e.g. CDS [2,6) frame ONE, " \
            "window start 3 returns no codon) of lengths 4-6 (gaps 0-2) on a 26 bp genome, both strands, consistent frame " \
            "vectors for every start frame 0/1/2; every window start inside the span, window end in {open, span end - 1, " \
            "span end - 4}; windows holding no complete codon are skipped"
    call = "list(cds.scan_chromosome_codon_locations(chromosome_start=ws, chromosome_end=we))"
    ensures = {
        "codons-inside-the-window": lambda i, r: sorted(sorted(loc_positions(x)) for x in r) == i.expected,
    }

    def inputs(self, S):
        blocks = [tuple(b) for b in S.const("blocks")]
        strand, fr, ws, we = S.const("strand"), S.const("frames"), S.const("ws"), S.const("we")
        hi = blocks[-1][1] if we is None else we
        codons = model_codons(blocks, strand, fr)
        expected = sorted(sorted(c) for c in codons if min(c) >= ws and max(c) < hi)
        S.assume(len(expected) >= 1 and hi - ws >= 3)
        from inscripta.biocantor.io.parser import seq_to_parent
        cds = mk_cds(S, blocks, strand, fr, seq_to_parent(GENOME))
        return NS(cds=cds, ws=ws, we=we, expected=expected)

    def domain(self, tier):
        lens = (4, 5) if tier == "quick" else (4, 5, 6)
        for bl in exon_layouts(len(GENOME), 3, lens=lens, gaps=(0, 2) if tier == "quick" else (0, 1, 2), first=(2,)):
            if len(bl) < 2:
                continue
            for strand in ("PLUS", "MINUS"):
                for f0 in (0, 1, 2):
                    fr = consistent_frames(bl, strand, f0)
                    for ws in range(bl[0][0], bl[-1][1] - 2):
                        for we in (None, bl[-1][1] - 1, bl[-1][1] - 4):
                            yield dict(blocks=bl, strand=strand, frames=fr, ws=ws, we=we)


class ChunkTwin(Case):
    """the same CDS built on the whole chromosome and on a sequence chunk."""
    props = ("C07", "C05")
    proved = False
    name = "bounded: chunk-relative CDS twin = chromosome CDS restricted to the chunk"
    func = CDS + ".chunk_relative_codon_locations"
    scope = "all CDS with <= 3 exons (lengths 1-4, gaps 0-2) on a 26 bp genome, both strands, start offsets 0/1/2 " \
            "(consistent frames), every chunk window with both ends on a grid of step 1 (quick: step 2)"
    call = ("(lambda w, c: (w.to_dict(), c.to_dict(), str(w.guid) == str(c.guid), w.num_codons, c.num_codons, "
            "[loc_positions(x) for x in c.chromosome_codon_locations], "
            "_lift(c.chunk_relative_location), [_lift(x) for x in c.chunk_relative_codon_locations], "
            "_seq(c), _reparse(c)))(whole, chunked)")
    # F-C07-3: the chunk holds CDS bases, but only ones the frame cleaning skips: codon scanning raises
    raises = {"EmptyLocationException": lambda i: i.f73}
    known_raises = {"EmptyLocationException": "F-C07-3"}
    allow_uncovered = ("raise:EmptyLocationException",)
    known = {
        # F-C07-1: single exon, start frame + cut offset >= 3;  F-C07-2: no CDS base on the chunk at all
        "chunk-codons-are-chromosome-codons-inside-chunk": dict(id="F-C07-1/F-C07-2", carve=lambda i: i.f7 or i.f72),
        "chunk-dict-read-alone-keeps-frame": dict(id="F-C07-1", carve=lambda i: i.f7 or i.tiny_first),
    }
    ensures = {
        "chromosome-dict-identical": lambda i, r: r[0] == r[1],
        "guid-identical": lambda i, r: r[2] is True,
        "num-codons-identical": lambda i, r: r[3] == r[4] == len(i.codons),
        "chromosome-codons-identical": lambda i, r: r[5] == i.codons,
        "chunk-location-lifts-to-restriction": lambda i, r: r[6] == [p for p, _k in i.positions if i.cs <= p < i.ce],
        "chunk-codons-are-chromosome-codons-inside-chunk": lambda i, r: r[7] == [
            c for c in i.codons if all(i.cs <= p < i.ce for p in c)],
        "chunk-sequence-is-corresponding-stretch": lambda i, r: r[8] == "".join(
            (GENOME[p] if i.strand == "PLUS" else COMP[GENOME[p]]) for p, _k in i.positions if i.cs <= p < i.ce),
        "chunk-dict-read-alone-keeps-frame": lambda i, r: r[9] is None or r[9] == [
            c for c in i.codons if all(i.cs <= p < i.ce for p in c)],
    }

    def inputs(self, S):
        from inscripta.biocantor.io.parser import seq_to_parent, seq_chunk_to_parent
        from inscripta.biocantor.gene.cds import CDSInterval
        from inscripta.biocantor import SequenceType
        blocks = [tuple(b) for b in S.const("blocks")]
        strand, f0 = S.const("strand"), S.const("f0")
        cs, ce = S.const("cs"), S.const("ce")
        # domain of the known finding F-C05-2 (its own case and witness: c05_cds.CdsSequenceText): a 5'-most exon SHORTER
        # than the start offset - the frame cleaning then drops a whole extra codon, and everything derived from the
        # cleaned location (codon lists, EmptyLocation / 'List of intervals must be nonempty' errors) follows it
        first5 = (blocks[0][1] - blocks[0][0]) if strand == "PLUS" else (blocks[-1][1] - blocks[-1][0])
        S.assume(not (len(blocks) > 1 and first5 < f0))
        fr = consistent_frames(blocks, strand, f0)
        whole = mk_cds(S, blocks, strand, fr, seq_to_parent(GENOME, seq_id="chr1"))
        chunk = seq_chunk_to_parent(GENOME[cs:ce], "chr1", cs, ce)
        chunked = mk_cds(S, blocks, strand, fr, chunk)
        positions = cds_positions(blocks, strand)
        inside = [p for p, _k in positions if cs <= p < ce]

        def _lift(loc):
            if type(loc).__name__ == "_EmptyLocation":
                return []
            return loc_positions(loc.lift_over_to_first_ancestor_of_type(SequenceType.CHROMOSOME))

        def _seq(c):
            if c.chunk_relative_location.is_empty:
                return ""
            return str(c.chunk_relative_location.extract_sequence())

        def _reparse(c):
            """read the chunk-relative dictionary form as a stand-alone CDS on the bare chunk sequence."""
            if c.chunk_relative_location.is_empty:
                return None
            d = c.to_dict(chromosome_relative_coordinates=False)
            alone = CDSInterval.from_dict(d, seq_to_parent(GENOME[cs:ce]))
            try:
                return [[p + cs for p in loc_positions(x)] for x in alone.chromosome_codon_locations]
            except Exception as ex:
                return f"error: {type(ex).__name__}"

        # carve-outs of known finding F-C07-1
        d5 = 0
        if inside:
            d5 = [p for p, _k in positions].index(inside[0])
        f7 = len(blocks) == 1 and bool(inside) and (f0 + ((-d5) % 3)) >= 3
        first_exon = positions[[p for p, _ in positions].index(inside[0])][1] if inside else None
        n_first = sum(1 for p, k in positions if k == first_exon and cs <= p < ce) if inside else 0
        cleaned = model_codons(blocks, strand, fr, flat_only=True)
        f72 = not inside
        f73 = len(blocks) > 1 and bool(inside) and not any(cs <= p < ce for p in cleaned)
        return NS(whole=whole, chunked=chunked, codons=model_codons(blocks, strand, fr), positions=positions, cs=cs, ce=ce,
                  f72=f72, f73=f73,
                  strand=strand, loc_positions=loc_positions, _lift=_lift, _seq=_seq, _reparse=_reparse, f7=f7,
                  tiny_first=n_first < 3 and len(blocks) > 1)

    def domain(self, tier):
        step = 3 if tier == "quick" else 1
        for bl in exon_layouts(20, 3, lens=(2, 3, 5) if tier == "quick" else (1, 2, 3, 4), gaps=(0, 2) if tier != "quick"
                               else (1,), first=(2,)):
            hi = bl[-1][1] + 2
            for strand in ("PLUS", "MINUS"):
                for f0 in (0, 1, 2):
                    for cs in range(0, hi, step):
                        for ce in range(cs + 1, hi + 1, 2 if tier == "quick" else 1):
                            yield dict(blocks=bl, strand=strand, f0=f0, cs=cs, ce=ce)


class GffChunkRows(Case):
    """CDS rows of a chunk-relative GFF3 export: coordinates are the chunk-relative CDS blocks and the phase column is
    the frame-derived phase OF THE EXPORTED BLOCKS (the reading frame continues where the chunk cuts the 5' end)."""
    props = ("C11", "C07")
    proved = False
    name = "bounded: chunk-relative to_gff CDS rows (coordinates and phase)"
    func = CDS + ".to_gff"
    scope = "all CDS with <= 3 exons (lengths 2,3,5, gap 1) on a 26 bp genome, both strands, start offsets 0/1/2, " \
            "chunk windows on a grid (every window in the thorough tier)"
    call = "[(r.start, r.end, r.phase.value, r.strand.name) for r in chunked.to_gff(chromosome_relative_coordinates=False)]"
    ensures = {
        "coordinates-are-chunk-relative-blocks": lambda i, r: [(a, b) for a, b, _p, _s in r] == [
            (s - i.cs + 1, e - i.cs) for s, e in i.kept],
        "phase-is-frame-derived": lambda i, r: [p for _a, _b, p, _s in r] == i.phases,
        "strand": lambda i, r: all(s == i.strand for *_x, s in r),
    }

    def inputs(self, S):
        from inscripta.biocantor.io.parser import seq_chunk_to_parent
        blocks = [tuple(b) for b in S.const("blocks")]
        strand, f0 = S.const("strand"), S.const("f0")
        cs, ce = S.const("cs"), S.const("ce")
        fr = consistent_frames(blocks, strand, f0)
        chunk = seq_chunk_to_parent(GENOME[cs:ce], "chr1", cs, ce)
        chunked = mk_cds(S, blocks, strand, fr, chunk)
        chunked.sequence_name = "chr1"
        kept = [(max(s, cs), min(e, ce)) for s, e in blocks if max(s, cs) < min(e, ce)]
        S.assume(bool(kept))
        positions = cds_positions(blocks, strand)
        inside = [p for p, _k in positions if cs <= p < ce]
        d0 = [p for p, _k in positions].index(inside[0])
        f_first = (f0 - d0) % 3
        fr5 = consistent_frames(kept, strand, f_first)
        plus_order = fr5 if strand == "PLUS" else fr5[::-1]
        return NS(chunked=chunked, kept=kept, cs=cs, strand=strand, phases=[(-f) % 3 for f in plus_order])

    def domain(self, tier):
        step = 3 if tier == "quick" else 1
        for bl in exon_layouts(20, 3, lens=(2, 3, 5), gaps=(1,), first=(2,)):
            hi = bl[-1][1] + 2
            for strand in ("PLUS", "MINUS"):
                for f0 in (0, 1, 2):
                    for cs in range(0, hi, step):
                        for ce in range(cs + 1, hi + 1, 2 if tier == "quick" else 1):
                            yield dict(blocks=bl, strand=strand, f0=f0, cs=cs, ce=ce)


CASES = [CdsModel(), WindowedCodons(), ChunkTwin(), GffChunkRows()]
