PENDING = "check not built yet (work in progress)"
CLAIMS = {
 "C16": dict(
  text="Proof, for all integer coordinates: the real body of util/bins.py:bins is symbolically executed (the constant OFFSETS loop completely) and z3 discharges, per path, that the assigned bin equals the UCSC formula, contains the interval, is the smallest such level, is 1 out of range, is an int; and that for every contained/overlapping (interval, query) pair the query's bin set contains the interval's assigned bin (both conventions). Canary mutants and a CPython cross-check guard the engine on every run.",
  note="Trusted: pyvc executor semantics (A1-A6), z3, Python ints as SMT Int. `stop` is treated as inclusive in both conventions (as the module documents). Stored bins on intervals are covered by constructor contracts where listed in the evidence.",
  technique="contract-based deductive verification (AST->VC symbolic execution + z3), native replay"),
}
NOT_APPLICABLE = {f"C{i:02d}": PENDING for i in range(1, 21)}
NOT_APPLICABLE["C12"] = ("statement is about Biopython-serialised GenBank text, an independent reader and io/genbank/parser.py, "
                         "which cannot be imported here; no contract on BioCantor functions within reach expresses it (DESIGN 5/C12, 8)")
