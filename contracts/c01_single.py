"""C01 (and the C19 refusal clauses) — SingleInterval coordinate maps.  DESIGN Appendix A.4."""
from pyvc.spec import *  # noqa
from pyvc.sources import NS
from .common import *  # noqa
from .lib import LIB  # noqa


def _cfg(S, parented):
    if parented:
        par, L = parent_with_sequence(S)
        return par, L
    return None, None


class _SingleBase(Case):
    props = ("C01", "C19")
    parented = False

    def mk(self, S, **extra):
        par, L = _cfg(S, self.parented)
        itv = single(S, "self", par, L)
        return NS(self=itv, s=itv.start, e=itv.end, strand=itv.strand, **extra)

    def sample_self(self, rng):
        s = rng.randint(0, 12)
        e = s + rng.randint(0, 8)
        d = dict(self_start=s, self_end=e, self_strand=rng.choice(["PLUS", "MINUS", "UNSTRANDED"]))
        if self.parented:
            d["seq"] = "".join(rng.choice("ACGT") for _ in range(e + rng.randint(0, 3)))
        return d


class P2R(_SingleBase):
    func = SINGLE + ".parent_to_relative_pos"
    call = "self.parent_to_relative_pos(p)"
    raises = {
        "InvalidPositionException": lambda i: Or(i.p < i.s, i.p >= i.e),
        "InvalidStrandException": lambda i: And(i.p >= i.s, i.p < i.e, is_unstranded(i.strand)),
    }
    ensures = {
        "value": lambda i, r: r == If(is_plus(i.strand), i.p - i.s, i.e - 1 - i.p),
        "range": lambda i, r: And(0 <= r, r < i.e - i.s),
    }

    def __init__(self, parented):
        self.parented = parented
        self.name = f"SingleInterval.parent_to_relative_pos[{'parent+seq' if parented else 'no parent'}]"

    def inputs(self, S):
        return self.mk(S, p=S.int("p"))

    def samples(self, rng):
        d = self.sample_self(rng)
        d["p"] = rng.randint(d["self_start"] - 2, d["self_end"] + 2)
        return d


class R2P(_SingleBase):
    func = SINGLE + ".relative_to_parent_pos"
    call = "self.relative_to_parent_pos(r)"
    raises = {
        "ValueError": lambda i: Or(i.r < 0, i.r >= i.e - i.s),
        "InvalidStrandException": lambda i: And(i.r >= 0, i.r < i.e - i.s, is_unstranded(i.strand)),
    }
    ensures = {
        "value-5p-to-3p": lambda i, r: r == If(is_plus(i.strand), i.s + i.r, i.e - 1 - i.r),
        "inside": lambda i, r: And(i.s <= r, r < i.e),
    }

    def __init__(self, parented):
        self.parented = parented
        self.name = f"SingleInterval.relative_to_parent_pos[{'parent+seq' if parented else 'no parent'}]"

    def inputs(self, S):
        return self.mk(S, r=S.int("r"))

    def samples(self, rng):
        d = self.sample_self(rng)
        d["r"] = rng.randint(-2, d["self_end"] - d["self_start"] + 2)
        return d


class Inverse(_SingleBase):
    """r2p(p2r(p)) = p and p2r(r2p(r)) = r wherever defined; order follows the strand."""
    name = "SingleInterval lemma: maps mutually inverse, strand-ordered"
    func = SINGLE + ".relative_to_parent_pos"
    call = ("(self.relative_to_parent_pos(self.parent_to_relative_pos(p)), "
            "self.parent_to_relative_pos(self.relative_to_parent_pos(r)), "
            "self.relative_to_parent_pos(r), self.relative_to_parent_pos(r2))")
    ensures = {
        "r2p-after-p2r": lambda i, r: r[0] == i.p,
        "p2r-after-r2p": lambda i, r: r[1] == i.r,
        "order": lambda i, r: If(is_plus(i.strand), r[2] < r[3], r[2] > r[3]),
    }

    def inputs(self, S):
        i = self.mk(S, p=S.int("p"), r=S.int("r"), r2=S.int("r2"))
        S.assume(Not(is_unstranded(i.strand)))
        S.assume(And(i.s <= i.p, i.p < i.e, 0 <= i.r, i.r < i.r2, i.r2 < i.e - i.s))
        return i

    def samples(self, rng):
        s = rng.randint(0, 10)
        n = rng.randint(2, 8)
        r = rng.randint(0, n - 2)
        return dict(self_start=s, self_end=s + n, self_strand=rng.choice(["PLUS", "MINUS"]), p=rng.randint(s, s + n - 1),
                    r=r, r2=rng.randint(r + 1, n - 1))


class RelInterval(_SingleBase):
    func = SINGLE + ".relative_interval_to_parent_location"
    call = "self.relative_interval_to_parent_location(a, b, t)"
    raises = {
        "ValueError": lambda i: Not(And(0 <= i.a, i.a <= i.b, i.b <= i.e - i.s)),
        "InvalidStrandException": lambda i: And(0 <= i.a, i.a <= i.b, i.b <= i.e - i.s, is_unstranded(i.strand)),
    }
    ensures = {
        "class": lambda i, r: class_name(r) == "SingleInterval",
        "coordinates": lambda i, r: And(r.start == If(is_plus(i.strand), i.s + i.a, i.e - i.b),
                                        r.end == If(is_plus(i.strand), i.s + i.b, i.e - i.a)),
        "strand-composition": lambda i, r: enum_value(r.strand) == strand_product(i.strand, i.t),
        "length": lambda i, r: And(r.length == i.b - i.a, r.end - r.start == i.b - i.a),
        "well-formed": lambda i, r: And(0 <= r.start, r.start <= r.end, r.end <= i.e),
        "parent-stripped": lambda i, r: same_parent_stripped(r.parent, i.self.parent),
    }

    def __init__(self, parented):
        self.parented = parented
        self.name = f"SingleInterval.relative_interval_to_parent_location[{'parent+seq' if parented else 'no parent'}]"

    def inputs(self, S):
        return self.mk(S, a=S.int("a"), b=S.int("b"), t=S.enum(STRAND, "t"))

    def samples(self, rng):
        d = self.sample_self(rng)
        n = d["self_end"] - d["self_start"]
        d.update(a=rng.randint(-1, n + 1), b=rng.randint(-1, n + 2), t=rng.choice(["PLUS", "MINUS", "UNSTRANDED"]))
        return d

    def observe(self, r):
        return [class_name(r), r.start, r.end, _ename(r.strand), r.parent is None]


def _ename(e):
    return e.members[e.idx][0] if hasattr(e, "members") else e.name


class RelIntervalPointwise(_SingleBase):
    """Interval form = point-wise form: the j-th base (5'->3') of the converted sub-interval is the point-wise image
    of relative position a+j (same relative strand) resp. b-1-j (opposite relative strand)."""
    func = SINGLE + ".relative_interval_to_parent_location"

    def __init__(self, t):
        self.t = t
        self.name = f"SingleInterval lemma: interval form = point-wise form[relative strand {t}]"
        self.call = (f"(self.relative_interval_to_parent_location(a, b, Strand.{t}).relative_to_parent_pos(j), "
                     + ("self.relative_to_parent_pos(a + j))" if t == "PLUS" else "self.relative_to_parent_pos(b - 1 - j))"))
        self.ensures = {"same-base-same-order": lambda i, r: r[0] == r[1]}

    def inputs(self, S):
        i = self.mk(S, a=S.int("a"), b=S.int("b"), j=S.int("j"), Strand=S.cls(STRAND))
        S.assume(Not(is_unstranded(i.strand)))
        S.assume(And(0 <= i.a, i.a < i.b, i.b <= i.e - i.s, 0 <= i.j, i.j < i.b - i.a))
        return i

    def samples(self, rng):
        s = rng.randint(0, 10)
        n = rng.randint(1, 8)
        a = rng.randint(0, n - 1)
        b = rng.randint(a + 1, n)
        return dict(self_start=s, self_end=s + n, self_strand=rng.choice(["PLUS", "MINUS"]), a=a, b=b,
                    j=rng.randint(0, b - a - 1))


class LocRelTo(Case):
    """single.location_relative_to(single): the relative location of the overlap inside ``other``."""
    props = ("C01", "C19")
    func = "location.location.Location.location_relative_to"
    name = "SingleInterval.location_relative_to(SingleInterval)"
    call = "self.location_relative_to(other)"

    @staticmethod
    def _ov(i):
        return And(Max(i.s, i.os) < Min(i.e, i.oe))

    raises = {
        "LocationOverlapException": lambda i: Not(LocRelTo._ov(i)),
        "InvalidStrandException": lambda i: And(LocRelTo._ov(i), is_unstranded(i.ostrand)),
    }
    ensures = {
        "class": lambda i, r: class_name(r) == "SingleInterval",
        "image-of-intersection": lambda i, r: And(
            r.start == If(is_plus(i.ostrand), Max(i.s, i.os) - i.os, i.oe - Min(i.e, i.oe)),
            r.end == If(is_plus(i.ostrand), Min(i.e, i.oe) - i.os, i.oe - Max(i.s, i.os))),
        "strand-composition": lambda i, r: enum_value(r.strand) == strand_product(i.strand, i.ostrand),
        "no-parent": lambda i, r: r.parent is None,
    }

    def inputs(self, S):
        a = single(S, "self")
        b = single(S, "other")
        return NS(self=a, other=b, s=a.start, e=a.end, strand=a.strand, os=b.start, oe=b.end, ostrand=b.strand)

    def samples(self, rng):
        s, os_ = rng.randint(0, 10), rng.randint(0, 10)
        return dict(self_start=s, self_end=s + rng.randint(0, 6), self_strand=rng.choice(["PLUS", "MINUS", "UNSTRANDED"]),
                    other_start=os_, other_end=os_ + rng.randint(0, 6),
                    other_strand=rng.choice(["PLUS", "MINUS", "UNSTRANDED"]))

    def observe(self, r):
        return [class_name(r), r.start, r.end, _ename(r.strand), r.parent is None]


class LocRelToPointwise(Case):
    """every base p of the overlap: other.p2r(p) lies in the result, at the position the result's own map gives."""
    props = ("C01",)
    func = "location.location.Location.location_relative_to"
    name = "SingleInterval lemma: location_relative_to = point-wise parent_to_relative_pos"
    call = "(self.location_relative_to(other), other.parent_to_relative_pos(p))"
    ensures = {
        "covers-pointwise-image": lambda i, r: And(r[0].start <= r[1], r[1] < r[0].end),
        "length-is-overlap": lambda i, r: r[0].end - r[0].start == Min(i.e, i.oe) - Max(i.s, i.os),
    }

    def inputs(self, S):
        a = single(S, "self")
        b = single(S, "other", directed=True)
        i = NS(self=a, other=b, s=a.start, e=a.end, os=b.start, oe=b.end, p=S.int("p"))
        S.assume(And(Max(i.s, i.os) <= i.p, i.p < Min(i.e, i.oe)))
        return i


CASES = [P2R(False), P2R(True), R2P(False), R2P(True), Inverse(), RelInterval(False), RelInterval(True),
         RelIntervalPointwise("PLUS"), RelIntervalPointwise("MINUS"), LocRelTo(), LocRelToPointwise()]

CANARIES = [
    dict(name="single p2r: >= -> >", props=("C01", "C19"), file="inscripta/biocantor/location/location_impl.py",
         old="if parent_pos < self.start or parent_pos >= self.end:", new="if parent_pos < self.start or parent_pos > self.end:",
         case="SingleInterval.parent_to_relative_pos[no parent]", expect="raises:InvalidPositionException"),
    dict(name="single rel-interval: minus strand swap", props=("C01",), file="inscripta/biocantor/location/location_impl.py",
         old="            parent_start = self.end - relative_end\n            parent_end = self.end - relative_start",
         new="            parent_start = self.end - relative_end - 1\n            parent_end = self.end - relative_start - 1",
         case="SingleInterval.relative_interval_to_parent_location[no parent]", expect="post:coordinates"),
]
