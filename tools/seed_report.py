#!/usr/bin/env python3
"""Regenerate DESIGN.md section 9 (seeded changes vs checks) from seeded/MATRIX.json and the seeds' meta.json."""
import json, os, re

HERE = os.path.dirname(os.path.dirname(os.path.abspath(__file__)))
M = json.load(open(os.path.join(HERE, "seeded", "MATRIX.json")))
names = sorted(d for d in os.listdir(os.path.join(HERE, "seeded")) if os.path.isdir(os.path.join(HERE, "seeded", d)))
MISSED_TEXT = open(os.path.join(HERE, "seeded", "STRENGTHENED.md")).read().strip()


def how(first):
    if "bounded__" in first:
        return "bounded tier"
    if "frame___kind" in first or "frame_conditions" in first or "order_obligations" in first:
        return "static frame/order obligation"
    if first.startswith("CHECKER-ERROR"):
        return "proof obligation (+ vacuity guard)"
    return "proof obligation"


rows = []
caught = 0
obsolete = 0
RV = {}
if os.path.exists(os.path.join(HERE, "seeded", "REVERIFY.json")):
    RV = json.load(open(os.path.join(HERE, "seeded", "REVERIFY.json")))
for n in names:
    meta = json.load(open(os.path.join(HERE, "seeded", n, "meta.json")))
    m = M.get(n, {})
    c = bool(m.get("caught"))
    caught += c and RV.get(n, {}).get("status", "valid") == "valid"
    first = m.get("first", "")
    rp = re.search(r"replay=\S*/([^/\s]+)\.[0-9a-f]{10}\.json", first)
    ob = rp.group(1)[:70] if rp else first[:70]
    nfi = " (no-failing-input-found)" if "no-failing-input-found" in first else ""
    needs = " ".join(meta.get("needs_to_manifest", "").split())[:150]
    rnd = {"a": "1", "b": "1", "c": "2", "d": "2", "e": "3", "f": "3", "g": "4", "h": "4"}.get(n[-1], "?")
    if RV.get(n, {}).get("status", "valid") != "valid":
        rows.append(f"| {n} | {rnd} | {needs} | obsolete: {RV[n]['status']} at {RV[n]['head']} | - |")
        obsolete += 1
        continue
    rows.append(f"| {n} | {rnd} | {needs} | {'yes (' + how(first) + ')' + nfi if c else 'NO'} | `{ob}` |")

text = f"""## 9. Seeded changes vs checks (tools/seed_matrix.py, quick tier, scratch worktree of the fixed tree)

{caught} of {len(names) - obsolete} live seeded changes are reported as a VIOLATION by the quick check of their property (exit 1); none of them is visible to the pinned test suite (each keeps `1466 passed, 16 errors`); {obsolete} further seed(s) no longer break anything on the current tree because a `fix:` commit closed the hole they used (tools/seed_reverify.py re-checks every seed against /repo's HEAD: patch applies, demonstration passes clean / fails patched, pinned suite unchanged). Rounds 1-4 (-a/-b, -c/-d, -e/-f, -g/-h; from round 2 on the authors were asked to avoid the obvious anchor functions, from round 3 on to need something specific - a second call, a reverse-strand chunk, cooperating sites) were written by fresh sub-agents that saw only the property text and a scratch worktree. 'proof obligation' = refuted symbolic / ground obligation with a counter-model replayed natively; 'bounded tier' = found by the native small-scope contract evaluation only; 'static' = refuted frame / order / identity obligation (no input exists for these: the VIOLATION line ends with no-failing-input-found).

{MISSED_TEXT}

| seed | round | needs to manifest | caught (by) | first failing obligation (replay file) |
|---|---|---|---|---|
""" + "\n".join(rows) + "\n"
p = os.path.join(HERE, "DESIGN.md")
s = open(p).read()
i = s.index("## 9. Seeded changes vs checks")
open(p, "w").write(s[:i] + text)
print(f"section 9 regenerated: {caught}/{len(names)}")
