"""Statements, calls, loops and builtins for the symbolic executor."""
import ast

import z3

from .values import *  # noqa
from .repo import ClassInfo, FuncInfo
from .symex import Frame, Interp, MAX_CALL_DEPTH, _and, _or, _not, _as_int, _z3b
from .symex_eval import EvalMixin, SliceVal, MSet, sym_min, sym_max, sym_abs, _z


from .spec import LoopSpec  # noqa


class StmtMixin:
    # ------------------------------------------------------------------ statements
    def exec_block(self, stmts, frame):
        for s in stmts:
            self.exec(s, frame)

    def exec(self, node, frame):
        m = getattr(self, "s_" + type(node).__name__, None)
        if m is None:
            raise Unsupported(f"statement {type(node).__name__} at line {node.lineno}")
        return m(node, frame)

    def s_Pass(self, node, frame):
        pass

    def s_Expr(self, node, frame):
        if isinstance(node.value, ast.Constant):
            return
        if isinstance(node.value, (ast.Yield, ast.YieldFrom)):
            self.do_yield(node.value, frame)
            return
        self.eval(node.value, frame)

    def do_yield(self, node, frame):
        gen = frame.locals.get("$yield")
        if gen is None:
            raise Unsupported("yield outside generator frame")
        if isinstance(node, ast.Yield):
            gen.append(("item", self.eval(node.value, frame) if node.value else None))
        else:
            gen.append(("seq", self.eval(node.value, frame)))

    def s_Assign(self, node, frame):
        if isinstance(node.value, (ast.Yield, ast.YieldFrom)):
            raise Unsupported("yield expression value")
        v = self.eval(node.value, frame)
        for t in node.targets:
            self.assign_target(t, v, frame)

    def s_AnnAssign(self, node, frame):
        if node.value is not None:
            self.assign_target(node.target, self.eval(node.value, frame), frame)

    def s_AugAssign(self, node, frame):
        t = node.target
        if isinstance(t, ast.Name):
            cur = self.lookup_name(t.id, frame)
            new = self.aug(node.op, cur, self.eval(node.value, frame))
            self.assign_target(t, new, frame)
        elif isinstance(t, ast.Attribute):
            o = self.eval(t.value, frame)
            cur = self.getattr(o, t.attr)
            self.setattr(o, t.attr, self.aug(node.op, cur, self.eval(node.value, frame)))
        elif isinstance(t, ast.Subscript):
            o = self.eval(t.value, frame)
            i = self.eval(t.slice, frame)
            cur = self.getitem(o, i)
            self.setitem(o, i, self.aug(node.op, cur, self.eval(node.value, frame)))
        else:
            raise Unsupported("augmented assignment target")

    def aug(self, op, cur, val):
        if isinstance(op, ast.Add) and isinstance(cur, list):
            cur.extend(self.iterate_concrete(val))
            return cur
        if isinstance(op, ast.BitOr) and type(cur).__name__ == "MSet":
            self.set_method(cur, "update", [val], {})
            return cur
        return self.binop(op, cur, val)

    def assign_target(self, t, v, frame):
        if isinstance(t, ast.Name):
            frame.locals[t.id] = v
        elif isinstance(t, (ast.Tuple, ast.List)):
            v = self.resolve(v)
            if isinstance(v, (SList, LazySeq, SymIter)) or not isinstance(v, (list, tuple)):
                items = self.iterate_concrete(v)
            else:
                items = list(v)
            if any(isinstance(e, ast.Starred) for e in t.elts):
                raise Unsupported("starred assignment")
            if len(items) != len(t.elts):
                raise PyExc("ValueError", "unpack length mismatch")
            for e, x in zip(t.elts, items):
                self.assign_target(e, x, frame)
        elif isinstance(t, ast.Attribute):
            self.setattr(self.eval(t.value, frame), t.attr, v)
        elif isinstance(t, ast.Subscript):
            if isinstance(t.slice, ast.Slice):
                raise Unsupported("slice assignment")
            self.setitem(self.eval(t.value, frame), self.eval(t.slice, frame), v)
        else:
            raise Unsupported("assignment target")

    def s_Return(self, node, frame):
        raise ReturnSignal(self.eval(node.value, frame) if node.value is not None else None)

    def s_Break(self, node, frame):
        raise BreakSignal()

    def s_Continue(self, node, frame):
        raise ContinueSignal()

    def s_If(self, node, frame):
        if self.to_bool(self.eval(node.test, frame)):
            self.exec_block(node.body, frame)
        else:
            self.exec_block(node.orelse, frame)

    def s_Assert(self, node, frame):
        if not self.to_bool(self.eval(node.test, frame)):
            raise PyExc("AssertionError")

    def s_Raise(self, node, frame):
        if node.exc is None:
            cur = frame.locals.get("$handling")
            if cur is None:
                raise Unsupported("bare raise outside handler")
            raise cur
        exc = node.exc
        # DESIGN 2.3: the message argument is dropped; only the class is kept.
        if isinstance(exc, ast.Call):
            fn = exc.func
        else:
            fn = exc
        if isinstance(fn, ast.Name):
            name = fn.id
            ok, lv = frame.lookup(name)
            if ok and isinstance(lv, PyExc):
                raise lv
            raise PyExc(name)
        if isinstance(fn, ast.Attribute):
            raise PyExc(fn.attr)
        raise Unsupported("raise of a computed exception")

    def s_Try(self, node, frame):
        try:
            try:
                self.exec_block(node.body, frame)
            except PyExc as e:
                for h in node.handlers:
                    if self.handler_matches(h, e, frame):
                        if h.name:
                            frame.locals[h.name] = e
                        old = frame.locals.get("$handling")
                        frame.locals["$handling"] = e
                        try:
                            self.exec_block(h.body, frame)
                        finally:
                            frame.locals["$handling"] = old
                        break
                else:
                    raise
            else:
                self.exec_block(node.orelse, frame)
        finally:
            if node.finalbody:
                self.exec_block(node.finalbody, frame)

    def handler_matches(self, h, e, frame):
        if h.type is None:
            return True
        names = []
        t = h.type
        elts = t.elts if isinstance(t, ast.Tuple) else [t]
        for x in elts:
            names.append(x.id if isinstance(x, ast.Name) else x.attr)
        return any(self.repo.exception_is_a(e.cls, n) for n in names)

    def s_With(self, node, frame):
        # only ``with warnings.catch_warnings():``-like blocks are expected; the body is executed as is
        for item in node.items:
            src = ast.unparse(item.context_expr)
            if "warnings" not in src:
                raise Unsupported(f"with {src}")
        self.exec_block(node.body, frame)

    def s_FunctionDef(self, node, frame):
        fi = FuncInfo(node, frame.module, cls=None, outer=frame.finfo)
        frame.locals[node.name] = FuncVal(fi, closure=frame)

    def s_Import(self, node, frame):
        for a in node.names:
            frame.locals[a.asname or a.name.split(".")[0]] = ExternalRef(a.name)

    def s_ImportFrom(self, node, frame):
        for a in node.names:
            m = self.repo._mod_from_dotted(node.module)
            if m is not None:
                r = self.repo.resolve_global(m, a.name)
                frame.locals[a.asname or a.name] = self.global_value(r, m) if r is not None else ExternalRef(
                    node.module, a.name)
            else:
                frame.locals[a.asname or a.name] = ExternalRef(node.module, a.name)

    def s_Delete(self, node, frame):
        for t in node.targets:
            if isinstance(t, ast.Name):
                frame.locals.pop(t.id, None)
            elif isinstance(t, ast.Subscript):
                o = self.eval(t.value, frame)
                k = self.eval(t.slice, frame)
                if isinstance(o, (dict, list)) and not is_sym(k):
                    try:
                        del o[k]
                    except (KeyError, IndexError) as ex:
                        raise PyExc(type(ex).__name__)
                else:
                    raise Unsupported("del on symbolic container")
            else:
                raise Unsupported("del target")

    def s_Global(self, node, frame):
        raise Unsupported("global statement")

    def s_Nonlocal(self, node, frame):
        raise Unsupported("nonlocal statement")

    # ------------------------------------------------------------------ loops
    def s_While(self, node, frame):
        # only concretely bounded while-loops are executed; symbolic ones need an invariant (not yet needed)
        n = 0
        while True:
            c = self.eval(node.test, frame)
            t = self.truth(c)
            if not isinstance(t, bool):
                t = z3.simplify(t)
                if z3.is_true(t):
                    t = True
                elif z3.is_false(t):
                    t = False
                else:
                    spec = self._loop_spec(frame)
                    raise Unsupported(f"while loop with symbolic condition at line {node.lineno}")
            if not t:
                self.exec_block(node.orelse, frame)
                return
            n += 1
            if n > 10000:
                raise Unsupported("while loop bound")
            try:
                self.exec_block(node.body, frame)
            except BreakSignal:
                return
            except ContinueSignal:
                continue

    def _loop_spec(self, frame):
        if frame.finfo is None:
            return None
        key = (self._frame_qual(frame), frame.loop_counter)
        return self.loop_specs.get(key)

    def _frame_qual(self, frame):
        fi = frame.finfo
        if fi.outer is not None:
            return fi.outer.qualname + ".<locals>." + fi.name
        return fi.qualname

    def s_For(self, node, frame):
        ordinal = frame.loop_counter_for(node) if hasattr(frame, "loop_counter_for") else None
        itv = self.resolve(self.eval(node.iter, frame))
        seq, start = self._as_sequence(itv)
        if isinstance(seq, (SList, LazySeq)) and not isinstance(seq.length, int):
            return self._for_symbolic(node, frame, seq, start, itv)
        items = self.iterate_concrete(itv)
        for x in items:
            self.assign_target(node.target, x, frame)
            try:
                self.exec_block(node.body, frame)
            except BreakSignal:
                return
            except ContinueSignal:
                continue
        self.exec_block(node.orelse, frame)

    def _as_sequence(self, itv):
        if isinstance(itv, SymIter):
            return itv.seq, itv.cursor
        return itv, 0

    def loop_ordinal(self, node, frame):
        """Ordinal of this for-loop among the for/while loops of its function (source order)."""
        fnode = frame.finfo.node
        k = 0
        for n in ast.walk(fnode):
            pass
        loops = [n for n in _ordered_loops(fnode)]
        return loops.index(node)

    def _for_symbolic(self, node, frame, seq, start, itv):
        # map-form generator loop ``for x in seq: yield f(x)``: the yielded stream is the lazy image of the sequence
        if (len(node.body) == 1 and isinstance(node.body[0], ast.Expr) and isinstance(node.body[0].value, ast.Yield)
                and not node.orelse and "$yield" in frame.locals):
            ynode = node.body[0].value
            src = self.iter_remaining(itv) if isinstance(itv, SymIter) else seq

            def getter(i, _src=src):
                f2 = Frame(frame.finfo, frame.module, {}, closure=frame)
                self.assign_target(node.target, _src.get(i), f2)
                return self.eval(ynode.value, f2)

            frame.locals["$yield"].append(("seq", LazySeq(src.length, getter, f"yield@{node.lineno}")))
            return
        qual = self._frame_qual(frame)
        ordinal = self.loop_ordinal(node, frame)
        spec = self.loop_specs.get((qual, ordinal))
        if spec is None:
            raise Unsupported(f"loop {ordinal} of {qual} (line {node.lineno}) iterates a symbolic-length sequence "
                              "and has no invariant in the contract files")
        n = seq.length
        base = f"{qual}/loop{ordinal}"
        if spec.ghost_init is not None:
            spec.ghost_init(self, frame)
        ns0 = self._loop_namespace(spec, frame)
        # init
        self.prove(f"{base}/inv-init", _b(spec.inv(self, ns0, _z(start), frame)))
        mode = self.decide([True, True])  # 0: arbitrary iteration, 1: exit
        k = self.fresh_int("k")
        self.ghost[f"{base}/k"] = k
        self.havoc_loop_vars(spec, frame)
        ns = self._loop_namespace(spec, frame)
        if mode == 0:
            self.assume(z3.And(k >= _z(start), k < _z(n)))
            self.assume(_b(spec.inv(self, ns, k, frame)))
            if spec.hints is not None:
                self.assume(_b(spec.hints(self, ns, k, frame)))
            if isinstance(itv, SymIter):
                itv.cursor = k + 1
            self.assign_target(node.target, seq.get(k), frame)
            try:
                self.exec_block(node.body, frame)
            except BreakSignal:
                return  # continue after the loop (else-clause skipped)
            except ContinueSignal:
                pass
            if spec.ghost_step is not None:
                spec.ghost_step(self, frame, k)
            ns2 = self._loop_namespace(spec, frame)
            self.prove(f"{base}/inv-preserve", _b(spec.inv(self, ns2, k + 1, frame)))
            raise PathAbort()
        else:
            self.assume(k == sym_max(_z(n), _z(start)))
            self.assume(_b(spec.inv(self, ns, k, frame)))
            if spec.hints is not None:
                self.assume(_b(spec.hints(self, ns, k, frame)))
            if isinstance(itv, SymIter):
                itv.cursor = k
            self.exec_block(node.orelse, frame)

    def _loop_namespace(self, spec, frame):
        ns = {}
        for name, sort in spec.vars.items():
            ok, v = frame.lookup(name)
            ns[name] = self.coerce_to_sort(v if ok else None, sort)
        return NS(ns)

    def coerce_to_sort(self, v, sort):
        """Present a program value in the representation the invariant is written against."""
        if sort == "intlist" and isinstance(v, (list, tuple)):
            arr = z3.K(z3.IntSort(), z3.IntVal(0))
            for i, x in enumerate(v):
                arr = z3.Store(arr, i, _z(_as_int(x)))
            return SList((arr,), len(v))
        if sort == "optint" and not isinstance(v, OptVal):
            if v is None:
                return OptVal(True, z3.IntVal(0))
            return OptVal(False, _z(v))
        if sort == "optint" and isinstance(v, OptVal) and v.resolved is not None:
            return OptVal(v.resolved == "none", v.val)
        return v

    def havoc_loop_vars(self, spec, frame):
        for name, sort in spec.vars.items():
            frame.locals[name] = self.fresh_of_sort(sort, name)

    def fresh_of_sort(self, sort, hint="h"):
        if callable(sort):
            return sort(self, hint)
        if sort == "int":
            return self.fresh_int(hint)
        if sort == "bool":
            return self.fresh_bool(hint)
        if sort == "optint":
            return OptVal(self.fresh_bool(hint + "_none"), self.fresh_int(hint))
        if sort == "intlist":
            ln = self.fresh_int(hint + "_len")
            self.assume(ln >= 0)
            return SList((self.fresh_array(hint),), ln)
        if sort == "intarray":
            return self.fresh_array(hint.strip("$"))
        if sort == "keep":
            return None
        raise Unsupported(f"havoc sort {sort}")

    # ------------------------------------------------------------------ calls
    def e_Call(self, node, frame):
        # raise-site message dropping does not apply here; evaluate callee and arguments
        fn = self.eval(node.func, frame)
        args = []
        for a in node.args:
            if isinstance(a, ast.Starred):
                args.extend(self.iterate_concrete(self.eval(a.value, frame)))
            else:
                args.append(self.eval(a, frame))
        kwargs = {}
        for k in node.keywords:
            if k.arg is None:
                kwargs.update(self.eval(k.value, frame))
            else:
                kwargs[k.arg] = self.eval(k.value, frame)
        return self.call(fn, args, kwargs, node)

    def call(self, fn, args, kwargs, node=None):
        fn = self.resolve(fn)
        if isinstance(fn, FuncVal):
            return self.call_function(fn, args, kwargs)
        if isinstance(fn, BuiltinFn):
            return fn.fn(self, args, kwargs)
        if isinstance(fn, LambdaVal):
            fr = Frame(fn.frame.finfo, fn.frame.module, {}, closure=fn.frame)
            self.bind_args(fn.node.args, args, kwargs, fr, "<lambda>")
            return self.eval(fn.node.body, fr)
        if isinstance(fn, ClassRef):
            return self.instantiate(fn.cls, args, kwargs)
        if isinstance(fn, BuiltinType):
            return self.builtins[fn.name].fn(self, args, kwargs)
        if isinstance(fn, ExternalRef):
            h = self.externals.get(fn.full)
            if h is None:
                raise Unsupported(f"call to external {fn.full}")
            return h(self, args, kwargs)
        if fn is None:
            raise PyExc("TypeError", "'NoneType' object is not callable")
        raise Unsupported(f"call of {type(fn).__name__}")

    def instantiate(self, cls, args, kwargs, use_summary=True):
        if cls.is_enum(self.repo):
            if "names" in kwargs or len(args) >= 2:
                # functional Enum API: Base(value="Name", names=[[member, value], ...]) creates a new enum class
                from .repo import ClassInfo
                cname = kwargs.get("value", args[0] if args else "DynEnum")
                names = kwargs.get("names", args[1] if len(args) > 1 else [])
                node = ast.parse(f"class {cname}({cls.name}):\n    pass").body[0]
                dyn = ClassInfo(node, cls.module)
                for pair in names:
                    nm, val = pair[0], pair[1]
                    dyn.class_assigns[nm] = ast.Constant(value=val)
                    dyn.member_order.append(nm)
                return ClassRef(dyn)
            return self.enum_from_value(cls, args[0])
        if cls.is_exception(self.repo):
            return PyExc(cls.name)
        key = cls.qualname + ".__init__"
        if key in self.summaries and use_summary:
            return self.summaries[key](self, cls, args, kwargs)
        hook = self.summaries.get(cls.qualname + ".__new__")
        if hook is not None:
            return hook(self, cls, args, kwargs)
        new = cls.find_method(self.repo, "__new__")
        if new is not None:
            # the real __new__ runs (class-level state such as a singleton table lives in self.class_state);
            # __init__ then runs on whatever instance it returns, as CPython does
            o = self.call_function(FuncVal(new), [ClassRef(cls)] + list(args), dict(kwargs))
            if isinstance(o, Obj) and o.cls.is_subclass_of(self.repo, cls):
                init = cls.find_method(self.repo, "__init__")
                if init is not None:
                    self.call_function(FuncVal(init, self_val=o), args, kwargs)
            return o
        o = Obj(cls)
        if "dataclass" in " ".join(cls.decorators):
            fields = [n for c in reversed(cls.mro(self.repo)) for n in _dataclass_fields(c)]
            defaults = {}
            for c in reversed(cls.mro(self.repo)):
                for st in c.node.body:
                    if isinstance(st, ast.AnnAssign) and isinstance(st.target, ast.Name) and st.value is not None:
                        defaults[st.target.id] = (c, st.value)
            vals = dict(zip(fields, args))
            vals.update(kwargs)
            for f in fields:
                if f not in vals:
                    if f in defaults:
                        vals[f] = self.eval(defaults[f][1], Frame(None, defaults[f][0].module))
                    else:
                        raise PyExc("TypeError", f"missing argument {f}")
            o.attrs.update(vals)
            return o
        init = cls.find_method(self.repo, "__init__")
        if init is not None:
            self.call_function(FuncVal(init, self_val=o), args, kwargs)
        elif args or kwargs:
            raise PyExc("TypeError", "object() takes no arguments")
        return o

    def call_function(self, fv, args, kwargs):
        fi = fv.finfo
        qual = fi.qualname if fi.outer is None else fi.outer.qualname + ".<locals>." + fi.name
        if fv.self_val is not None:
            args = [fv.self_val] + list(args)
        if qual in self.summaries and fi.name not in ("__init__", "__new__") and (qual not in self.recursive_only
                                       or (qual in self.call_stack and not self.concrete_mode)):
            self.current_callee = fv
            return self.summaries[qual](self, args, kwargs)
        if self.depth >= MAX_CALL_DEPTH:
            raise Unsupported(f"call depth exceeded at {qual} (recursion needs a summary)")
        fr = Frame(fi, fi.module, {}, closure=fv.closure)
        self.bind_args(fi.node.args, args, kwargs, fr, qual)
        self.calls_seen.add(qual)
        if fi.is_generator:
            fr.locals["$yield"] = []
        self.depth += 1
        self.call_stack.append(qual)
        try:
            try:
                self.exec_block(fi.node.body, fr)
                result = None
            except ReturnSignal as r:
                result = r.value
        finally:
            self.depth -= 1
            self.call_stack.pop()
        if fi.is_generator:
            return self.make_generator(fr.locals["$yield"])
        return result

    def make_generator(self, segs):
        if all(kind == "item" for kind, _ in segs):
            return SymIter([v for _, v in segs], 0)
        out = []
        symseq = None
        for kind, v in segs:
            if kind == "item":
                out.append(v)
            else:
                v = self.resolve(v)
                s, c = self._as_sequence(v)
                if isinstance(s, (SList, LazySeq)) and not isinstance(s.length, int):
                    if len(segs) != 1:
                        raise Unsupported("generator mixing symbolic-length and other segments")
                    return SymIter(self.iter_remaining(v) if isinstance(v, SymIter) else s, 0)
                out.extend(self.iterate_concrete(v))
        return SymIter(out, 0)

    def bind_args(self, a, args, kwargs, fr, qual):
        params = [p.arg for p in a.posonlyargs + a.args]
        defaults = list(a.defaults)
        nreq = len(params) - len(defaults)
        args = list(args)
        kwargs = dict(kwargs)
        if len(args) > len(params):
            if a.vararg is None:
                raise PyExc("TypeError", f"{qual}: too many positional arguments")
            fr.locals[a.vararg.arg] = tuple(args[len(params):])
            args = args[: len(params)]
        elif a.vararg is not None:
            fr.locals[a.vararg.arg] = ()
        for i, p in enumerate(params):
            if i < len(args):
                if p in kwargs:
                    raise PyExc("TypeError", f"{qual}: multiple values for {p}")
                fr.locals[p] = args[i]
            elif p in kwargs:
                fr.locals[p] = kwargs.pop(p)
            elif i >= nreq:
                fr.locals[p] = self.eval(defaults[i - nreq], Frame(None, fr.module))
            else:
                raise PyExc("TypeError", f"{qual}: missing argument {p}")
        for p, d in zip(a.kwonlyargs, a.kw_defaults):
            if p.arg in kwargs:
                fr.locals[p.arg] = kwargs.pop(p.arg)
            elif d is not None:
                fr.locals[p.arg] = self.eval(d, Frame(None, fr.module))
            else:
                raise PyExc("TypeError", f"{qual}: missing keyword argument {p.arg}")
        if kwargs:
            if a.kwarg is not None:
                fr.locals[a.kwarg.arg] = kwargs
            else:
                raise PyExc("TypeError", f"{qual}: unexpected keyword {list(kwargs)}")
        elif a.kwarg is not None:
            fr.locals[a.kwarg.arg] = {}


class NS:
    def __init__(self, d):
        self.__dict__.update(d)


def _b(v):
    if isinstance(v, bool):
        return v
    return v


def _ordered_loops(fnode):
    out = []

    def rec(stmts):
        for s in stmts:
            if isinstance(s, (ast.For, ast.While)):
                out.append(s)
                rec(s.body)
                rec(s.orelse)
            elif isinstance(s, ast.If):
                rec(s.body)
                rec(s.orelse)
            elif isinstance(s, ast.Try):
                rec(s.body)
                for h in s.handlers:
                    rec(h.body)
                rec(s.orelse)
                rec(s.finalbody)
            elif isinstance(s, ast.With):
                rec(s.body)

    rec(fnode.body)
    return out


def _dataclass_fields(c):
    out = []
    for st in c.node.body:
        if isinstance(st, ast.AnnAssign) and isinstance(st.target, ast.Name):
            out.append(st.target.id)
    return out
